//! Command universe and generator of the C08 lab.

use std::{
    collections::BTreeSet,
    net::{Ipv4Addr, SocketAddr},
    sync::OnceLock,
};

use serde_json::{Value, json};
use sozu_command_lib::{
    certificate::calculate_fingerprint,
    config::ListenerBuilder,
    proto::command::{
        ActivateListener, AddBackend, AddCertificate, CertificateAndKey, Cluster,
        DeactivateListener, HardStop, HealthCheckConfig, HstsConfig, ListenerType,
        LoadBalancingParams, PathRule, QueryCertificatesFilters, QueryClusterByDomain,
        QueryClustersHashes, QueryMaxConnectionsPerIp, QueryMetricsOptions, RemoveBackend,
        RemoveCertificate, RemoveListener, ReplaceCertificate, Request, RequestHttpFrontend,
        RequestTcpFrontend, RequestUdpFrontend, ReturnListenSockets, RulePosition,
        SetHealthCheck, SetMetricDetail, SoftStop, Status, UpdateHttpListenerConfig,
        UpdateHttpsListenerConfig, UpdateTcpListenerConfig, UpdateUdpListenerConfig,
        request::RequestType,
    },
    state::ConfigState,
};

use crate::{common::Rng, lab};

pub const HTTP_PORTS: [u16; 2] = [8080, 8081];
pub const HTTPS_PORTS: [u16; 2] = [8443, 8444];
pub const TCP_PORTS: [u16; 2] = [7000, 7001];
pub const UDP_PORTS: [u16; 2] = [6000, 6001];
pub const BACKEND_PORTS: [u16; 4] = [9000, 9001, 9002, 9003];
/// a port nobody listens on (raw mode only)
pub const DEAD_PORT: u16 = 9009;
pub const CLUSTERS: [&str; 4] = ["c0", "c1", "c2", "c3"];
pub const BACKEND_IDS: [&str; 3] = ["b0", "b1", "b2"];
pub const HOSTS: [&str; 3] = ["h0.test", "h1.test", "h2.test"];
pub const PREFIXES: [&str; 2] = ["/", "/api"];

#[derive(Clone, Copy, Debug, PartialEq, Eq, PartialOrd, Ord, Hash)]
pub enum LK {
    Http,
    Https,
    Tcp,
    Udp,
}

impl LK {
    pub const ALL: [LK; 4] = [LK::Http, LK::Https, LK::Tcp, LK::Udp];
    pub fn ports(self) -> [u16; 2] {
        match self {
            LK::Http => HTTP_PORTS,
            LK::Https => HTTPS_PORTS,
            LK::Tcp => TCP_PORTS,
            LK::Udp => UDP_PORTS,
        }
    }
    pub fn ty(self) -> ListenerType {
        match self {
            LK::Http => ListenerType::Http,
            LK::Https => ListenerType::Https,
            LK::Tcp => ListenerType::Tcp,
            LK::Udp => ListenerType::Udp,
        }
    }
    pub fn name(self) -> &'static str {
        match self {
            LK::Http => "http",
            LK::Https => "https",
            LK::Tcp => "tcp",
            LK::Udp => "udp",
        }
    }
}

#[derive(Clone, Copy, Debug)]
pub struct Cell {
    pub ip: Ipv4Addr,
}

impl Cell {
    pub fn a(&self, port: u16) -> SocketAddr {
        lab::sa(self.ip, port)
    }
}

pub struct CertMat {
    pub name: &'static str,
    pub cert: String,
    pub key: String,
    pub fp: String,
}

pub fn certs() -> &'static Vec<CertMat> {
    static C: OnceLock<Vec<CertMat>> = OnceLock::new();
    C.get_or_init(|| {
        let mut out = Vec::new();
        for (name, c, k) in [
            ("certificate", "certificate.pem", "key.pem"),
            ("local", "local-certificate.pem", "local-key.pem"),
            ("cn-ne-san", "cn-ne-san-cert.pem", "cn-ne-san-key.pem"),
            ("multi-sni", "multi-sni-cert.pem", "multi-sni-key.pem"),
        ] {
            let cert = std::fs::read_to_string(format!("/repo/lib/assets/{c}")).unwrap_or_default();
            let key = std::fs::read_to_string(format!("/repo/lib/assets/{k}")).unwrap_or_default();
            if let Ok(fp) = calculate_fingerprint(cert.as_bytes()) {
                out.push(CertMat { name, cert, key, fp: hex::encode(fp) });
            }
        }
        out
    })
}

fn cert_name(pem: &str) -> String {
    for c in certs() {
        if c.cert == pem {
            return c.name.to_owned();
        }
    }
    if pem.len() < 40 { format!("garbage:{pem:?}") } else { "unknown-pem".to_owned() }
}

fn fp_name(fp: &str) -> String {
    for c in certs() {
        if c.fp == fp {
            return format!("fp({})", c.name);
        }
    }
    fp.to_owned()
}

#[derive(Clone, Debug)]
pub struct Cmd {
    pub rt: RequestType,
    /// lifecycle pattern this command belongs to ("" = free command)
    pub tag: &'static str,
    /// read all outstanding answers after sending this command
    pub flush: bool,
    /// bytes appended to the request id (0 = the usual short id): the answer echoes the id, so
    /// this sizes the answer; > 0 marks a command of a back-pressure episode
    pub pad: usize,
    /// fault class "address occupied at activation time": the harness binds the listener's address
    /// itself (no SO_REUSEPORT) before it sends this ActivateListener and releases it once the
    /// answer is in
    pub occupy: bool,
    /// the retry of an activation that failed on an occupied address: once it is answered OK the
    /// address must hold a listening socket of this process
    pub verify: bool,
}

pub fn req(rt: &RequestType) -> Request {
    Request { request_type: Some(rt.clone()) }
}

pub fn verb(rt: &RequestType) -> &'static str {
    match rt {
        RequestType::SaveState(_) => "SaveState",
        RequestType::LoadState(_) => "LoadState",
        RequestType::ListWorkers(_) => "ListWorkers",
        RequestType::ListFrontends(_) => "ListFrontends",
        RequestType::ListListeners(_) => "ListListeners",
        RequestType::LaunchWorker(_) => "LaunchWorker",
        RequestType::UpgradeMain(_) => "UpgradeMain",
        RequestType::UpgradeWorker(_) => "UpgradeWorker",
        RequestType::SubscribeEvents(_) => "SubscribeEvents",
        RequestType::ReloadConfiguration(_) => "ReloadConfiguration",
        RequestType::Status(_) => "Status",
        RequestType::AddCluster(_) => "AddCluster",
        RequestType::RemoveCluster(_) => "RemoveCluster",
        RequestType::AddHttpFrontend(_) => "AddHttpFrontend",
        RequestType::RemoveHttpFrontend(_) => "RemoveHttpFrontend",
        RequestType::AddHttpsFrontend(_) => "AddHttpsFrontend",
        RequestType::RemoveHttpsFrontend(_) => "RemoveHttpsFrontend",
        RequestType::AddCertificate(_) => "AddCertificate",
        RequestType::ReplaceCertificate(_) => "ReplaceCertificate",
        RequestType::RemoveCertificate(_) => "RemoveCertificate",
        RequestType::AddTcpFrontend(_) => "AddTcpFrontend",
        RequestType::RemoveTcpFrontend(_) => "RemoveTcpFrontend",
        RequestType::AddUdpFrontend(_) => "AddUdpFrontend",
        RequestType::RemoveUdpFrontend(_) => "RemoveUdpFrontend",
        RequestType::AddBackend(_) => "AddBackend",
        RequestType::RemoveBackend(_) => "RemoveBackend",
        RequestType::AddHttpListener(_) => "AddHttpListener",
        RequestType::AddHttpsListener(_) => "AddHttpsListener",
        RequestType::AddTcpListener(_) => "AddTcpListener",
        RequestType::AddUdpListener(_) => "AddUdpListener",
        RequestType::UpdateHttpListener(_) => "UpdateHttpListener",
        RequestType::UpdateHttpsListener(_) => "UpdateHttpsListener",
        RequestType::UpdateTcpListener(_) => "UpdateTcpListener",
        RequestType::UpdateUdpListener(_) => "UpdateUdpListener",
        RequestType::RemoveListener(_) => "RemoveListener",
        RequestType::ActivateListener(_) => "ActivateListener",
        RequestType::DeactivateListener(_) => "DeactivateListener",
        RequestType::QueryClusterById(_) => "QueryClusterById",
        RequestType::QueryClustersByDomain(_) => "QueryClustersByDomain",
        RequestType::QueryClustersHashes(_) => "QueryClustersHashes",
        RequestType::QueryMetrics(_) => "QueryMetrics",
        RequestType::SoftStop(_) => "SoftStop",
        RequestType::HardStop(_) => "HardStop",
        RequestType::ConfigureMetrics(_) => "ConfigureMetrics",
        RequestType::Logging(_) => "Logging",
        RequestType::ReturnListenSockets(_) => "ReturnListenSockets",
        RequestType::QueryCertificatesFromTheState(_) => "QueryCertificatesFromTheState",
        RequestType::QueryCertificatesFromWorkers(_) => "QueryCertificatesFromWorkers",
        RequestType::CountRequests(_) => "CountRequests",
        RequestType::SetMaxConnectionsPerIp(_) => "SetMaxConnectionsPerIp",
        RequestType::QueryMaxConnectionsPerIp(_) => "QueryMaxConnectionsPerIp",
        RequestType::SetHealthCheck(_) => "SetHealthCheck",
        RequestType::RemoveHealthCheck(_) => "RemoveHealthCheck",
        RequestType::QueryHealthChecks(_) => "QueryHealthChecks",
        RequestType::SetMetricDetail(_) => "SetMetricDetail",
    }
}

/// every verb the main process can send to a worker (derived from bin/src/command/requests.rs
/// `handle_client_request`: the `worker_request` list, `query_clusters`, `query_metrics`, `stop`,
/// `set_logging_level`, `status`, and upgrade.rs for ReturnListenSockets)
pub const WORKER_VERBS: [&str; 42] = [
    "AddCluster", "RemoveCluster", "AddHttpFrontend", "RemoveHttpFrontend", "AddHttpsFrontend",
    "RemoveHttpsFrontend", "AddCertificate", "ReplaceCertificate", "RemoveCertificate",
    "AddTcpFrontend", "RemoveTcpFrontend", "AddUdpFrontend", "RemoveUdpFrontend", "AddBackend",
    "RemoveBackend", "AddHttpListener", "AddHttpsListener", "AddTcpListener", "AddUdpListener",
    "UpdateHttpListener", "UpdateHttpsListener", "UpdateTcpListener", "UpdateUdpListener",
    "RemoveListener", "ActivateListener", "DeactivateListener", "SetHealthCheck",
    "RemoveHealthCheck", "ConfigureMetrics", "Logging", "SetMaxConnectionsPerIp",
    "QueryMaxConnectionsPerIp", "SetMetricDetail", "QueryClustersHashes", "QueryClusterById",
    "QueryClustersByDomain", "QueryCertificatesFromWorkers", "QueryMetrics", "Status",
    "ReturnListenSockets", "SoftStop", "HardStop",
];

/// verbs that go through `worker_request` (state-mutating or runtime-setting): the C07 level iii
/// check applies to these
pub fn is_mutating(v: &str) -> bool {
    !matches!(
        v,
        "QueryClustersHashes" | "QueryClusterById" | "QueryClustersByDomain"
            | "QueryCertificatesFromWorkers" | "QueryMetrics" | "Status"
            | "QueryMaxConnectionsPerIp" | "ReturnListenSockets" | "SoftStop" | "HardStop"
    )
}

fn port_of(a: &sozu_command_lib::proto::command::SocketAddress) -> String {
    let sa: SocketAddr = (*a).into();
    format!(":{}", sa.port())
}

fn lt(n: i32) -> String {
    match ListenerType::try_from(n) {
        Ok(t) => format!("{t:?}"),
        Err(_) => format!("invalid({n})"),
    }
}

fn front_json(f: &RequestHttpFrontend) -> Value {
    json!({"addr": port_of(&f.address), "host": f.hostname, "path_kind": f.path.kind, "path": f.path.value,
        "cluster": f.cluster_id, "method": f.method, "position": f.position,
        "tags": f.tags, "hsts": f.hsts.is_some()})
}

/// compact, reproducible description of a command (addresses shown as :port on the cell's IP)
pub fn describe(rt: &RequestType) -> Value {
    let v = verb(rt);
    let args = match rt {
        RequestType::AddCluster(c) => json!({"id": c.cluster_id, "lb": c.load_balancing, "sticky": c.sticky_session,
            "answer_503": c.answer_503, "answers": c.answers, "health_check": c.health_check.as_ref().map(|h| h.uri.clone()),
            "max_connections_per_ip": c.max_connections_per_ip, "proxy_protocol": c.proxy_protocol, "http2": c.http2}),
        RequestType::RemoveCluster(c) | RequestType::RemoveHealthCheck(c) | RequestType::QueryClusterById(c) => json!(c),
        RequestType::AddHttpFrontend(f) | RequestType::RemoveHttpFrontend(f)
        | RequestType::AddHttpsFrontend(f) | RequestType::RemoveHttpsFrontend(f) => front_json(f),
        RequestType::AddCertificate(a) => json!({"addr": port_of(&a.address), "cert": cert_name(&a.certificate.certificate),
            "key_matches": certs().iter().any(|c| c.cert == a.certificate.certificate && c.key == a.certificate.key),
            "names": a.certificate.names}),
        RequestType::ReplaceCertificate(r) => json!({"addr": port_of(&r.address), "old": fp_name(&r.old_fingerprint),
            "new": cert_name(&r.new_certificate.certificate)}),
        RequestType::RemoveCertificate(r) => json!({"addr": port_of(&r.address), "fingerprint": fp_name(&r.fingerprint)}),
        RequestType::AddTcpFrontend(f) | RequestType::RemoveTcpFrontend(f) => json!({"cluster": f.cluster_id, "addr": port_of(&f.address), "tags": f.tags}),
        RequestType::AddUdpFrontend(f) | RequestType::RemoveUdpFrontend(f) => json!({"cluster": f.cluster_id, "addr": port_of(&f.address), "tags": f.tags}),
        RequestType::AddBackend(b) => json!({"cluster": b.cluster_id, "id": b.backend_id, "addr": port_of(&b.address),
            "weight": b.load_balancing_parameters.map(|p| p.weight), "sticky_id": b.sticky_id, "backup": b.backup}),
        RequestType::RemoveBackend(b) => json!({"cluster": b.cluster_id, "id": b.backend_id, "addr": port_of(&b.address)}),
        RequestType::AddHttpListener(l) => json!({"addr": port_of(&l.address), "front_timeout": l.front_timeout, "expect_proxy": l.expect_proxy}),
        RequestType::AddHttpsListener(l) => json!({"addr": port_of(&l.address), "front_timeout": l.front_timeout, "expect_proxy": l.expect_proxy}),
        RequestType::AddTcpListener(l) => json!({"addr": port_of(&l.address), "front_timeout": l.front_timeout, "expect_proxy": l.expect_proxy}),
        RequestType::AddUdpListener(l) => json!({"addr": port_of(&l.address), "front_timeout": l.front_timeout, "max_flows": l.max_flows}),
        RequestType::UpdateHttpListener(p) => json!({"addr": port_of(&p.address), "front_timeout": p.front_timeout, "sticky_name": p.sticky_name,
            "h2_max_rst_stream_per_window": p.h2_max_rst_stream_per_window, "h2_stream_shrink_ratio": p.h2_stream_shrink_ratio, "sozu_id_header": p.sozu_id_header}),
        RequestType::UpdateHttpsListener(p) => json!({"addr": port_of(&p.address), "front_timeout": p.front_timeout, "sticky_name": p.sticky_name,
            "h2_max_rst_stream_per_window": p.h2_max_rst_stream_per_window, "alpn": p.alpn_protocols.as_ref().map(|a| a.values.clone()), "sozu_id_header": p.sozu_id_header}),
        RequestType::UpdateTcpListener(p) => json!({"addr": port_of(&p.address), "front_timeout": p.front_timeout, "connect_timeout": p.connect_timeout}),
        RequestType::UpdateUdpListener(p) => json!({"addr": port_of(&p.address), "front_timeout": p.front_timeout, "max_flows": p.max_flows}),
        RequestType::RemoveListener(r) => json!({"addr": port_of(&r.address), "proxy": lt(r.proxy)}),
        RequestType::ActivateListener(a) => json!({"addr": port_of(&a.address), "proxy": lt(a.proxy), "from_scm": a.from_scm}),
        RequestType::DeactivateListener(d) => json!({"addr": port_of(&d.address), "proxy": lt(d.proxy), "to_scm": d.to_scm}),
        RequestType::SetHealthCheck(s) => json!({"cluster": s.cluster_id, "uri": s.config.uri, "interval": s.config.interval,
            "healthy_threshold": s.config.healthy_threshold, "unhealthy_threshold": s.config.unhealthy_threshold}),
        RequestType::ConfigureMetrics(n) => json!(n),
        RequestType::Logging(s) => json!(s),
        RequestType::SetMaxConnectionsPerIp(n) => json!(n),
        RequestType::SetMetricDetail(s) => json!({"client_id_len": s.client_id.len(), "detail": s.detail, "ttl": s.ttl_seconds, "clear": s.clear}),
        RequestType::QueryClustersByDomain(q) => json!({"hostname": q.hostname, "path": q.path}),
        RequestType::QueryCertificatesFromWorkers(f) => json!({"domain": f.domain, "fingerprint": f.fingerprint.as_deref().map(fp_name)}),
        RequestType::QueryMetrics(o) => json!({"list": o.list, "clusters": o.cluster_ids, "backends": o.backend_ids}),
        _ => Value::Null,
    };
    if args.is_null() { json!(v) } else { json!({ v: args }) }
}

// ------------------------------------------------------------------------------------------
// generator

pub const OCCUPIED_TAG: &str = "listener:address-occupied-at-activation-then-retry";

pub struct Gen<'a> {
    pub rng: &'a mut Rng,
    pub cell: Cell,
    pub raw: bool,
    /// generator-side model of what exists (fed with every generated command)
    pub g: ConfigState,
    pub out: Vec<Cmd>,
    pub patterns: BTreeSet<&'static str>,
}

impl<'a> Gen<'a> {
    pub fn new(rng: &'a mut Rng, cell: Cell, raw: bool) -> Gen<'a> {
        Gen { rng, cell, raw, g: ConfigState::new(), out: Vec::new(), patterns: BTreeSet::new() }
    }

    fn push(&mut self, rt: RequestType, tag: &'static str) {
        let _ = self.g.dispatch(&req(&rt));
        if !tag.is_empty() {
            self.patterns.insert(tag);
        }
        self.out.push(Cmd { rt, tag, flush: true, pad: 0, occupy: false, verify: false });
    }

    fn invalid(&mut self) -> bool {
        if self.raw { self.rng.chance(1, 4) } else { self.rng.chance(1, 8) }
    }

    fn cluster(&mut self) -> String {
        // prefer existing clusters
        let existing: Vec<String> = self.g.clusters.keys().cloned().collect();
        if !existing.is_empty() && self.rng.chance(3, 4) {
            return self.rng.pick(&existing).clone();
        }
        (*self.rng.pick(&CLUSTERS)).to_owned()
    }

    fn has_listener(&self, kind: LK, addr: &SocketAddr) -> bool {
        match kind {
            LK::Http => self.g.http_listeners.contains_key(addr),
            LK::Https => self.g.https_listeners.contains_key(addr),
            LK::Tcp => self.g.tcp_listeners.contains_key(addr),
            LK::Udp => self.g.udp_listeners.contains_key(addr),
        }
    }

    fn listener_addr(&mut self, kind: LK, want_existing: Option<bool>) -> SocketAddr {
        let ports = kind.ports();
        let cands: Vec<SocketAddr> = ports.iter().map(|p| self.cell.a(*p)).collect();
        if let Some(want) = want_existing {
            let matching: Vec<SocketAddr> = cands.iter().copied().filter(|a| self.has_listener(kind, a) == want).collect();
            if !matching.is_empty() && self.rng.chance(5, 6) {
                return *self.rng.pick(&matching);
            }
        }
        *self.rng.pick(&cands)
    }

    pub fn add_listener_rt(&mut self, kind: LK, addr: SocketAddr) -> RequestType {
        let ft = Some(self.rng.range(5, 60) as u32);
        match kind {
            LK::Http => {
                let mut b = ListenerBuilder::new_http(addr.into());
                b.with_front_timeout(ft);
                if self.raw && self.rng.chance(1, 10) {
                    b.with_expect_proxy(true);
                }
                RequestType::AddHttpListener(b.to_http(None).expect("http listener config"))
            }
            LK::Https => {
                let mut b = ListenerBuilder::new_https(addr.into());
                b.with_front_timeout(ft);
                RequestType::AddHttpsListener(b.to_tls(None).expect("https listener config"))
            }
            LK::Tcp => {
                let mut b = ListenerBuilder::new_tcp(addr.into());
                b.with_front_timeout(ft);
                RequestType::AddTcpListener(b.to_tcp(None).expect("tcp listener config"))
            }
            LK::Udp => {
                let mut b = ListenerBuilder::new_udp(addr.into());
                b.with_front_timeout(ft);
                RequestType::AddUdpListener(b.to_udp(None).expect("udp listener config"))
            }
        }
    }

    fn proxy_field(&mut self, kind: LK) -> i32 {
        if self.invalid() && self.rng.chance(1, 3) {
            if self.rng.bool() {
                7 // unknown enum value
            } else {
                // a listener type that does not match the address
                let other = *self.rng.pick(&LK::ALL);
                other.ty() as i32
            }
        } else {
            kind.ty() as i32
        }
    }

    pub fn activate_rt(&mut self, kind: LK, addr: SocketAddr) -> RequestType {
        RequestType::ActivateListener(ActivateListener { address: addr.into(), proxy: kind.ty() as i32, from_scm: false })
    }
    pub fn deactivate_rt(&mut self, kind: LK, addr: SocketAddr) -> RequestType {
        let to_scm = self.rng.chance(1, 6);
        RequestType::DeactivateListener(DeactivateListener { address: addr.into(), proxy: kind.ty() as i32, to_scm })
    }
    pub fn remove_listener_rt(&mut self, kind: LK, addr: SocketAddr) -> RequestType {
        RequestType::RemoveListener(RemoveListener { address: addr.into(), proxy: kind.ty() as i32 })
    }

    fn update_listener_rt(&mut self, kind: LK, addr: SocketAddr) -> RequestType {
        let bad = self.invalid();
        let ft = Some(self.rng.range(5, 60) as u32);
        match kind {
            LK::Http => {
                let mut p = UpdateHttpListenerConfig { address: addr.into(), front_timeout: ft, ..Default::default() };
                if self.rng.bool() {
                    p.sticky_name = Some(format!("SID{}", self.rng.below(3)));
                }
                if bad {
                    match self.rng.below(3) {
                        0 => p.h2_max_rst_stream_per_window = Some(0),
                        1 => p.sozu_id_header = Some("a b".to_owned()),
                        _ => p.h2_stream_shrink_ratio = Some(1),
                    }
                }
                RequestType::UpdateHttpListener(p)
            }
            LK::Https => {
                let mut p = UpdateHttpsListenerConfig { address: addr.into(), front_timeout: ft, ..Default::default() };
                if bad {
                    match self.rng.below(3) {
                        0 => p.h2_max_rst_stream_per_window = Some(0),
                        1 => p.sozu_id_header = Some("a:b".to_owned()),
                        _ => {
                            p.alpn_protocols = Some(sozu_command_lib::proto::command::AlpnProtocols { values: vec!["spdy/9".to_owned()] })
                        }
                    }
                }
                RequestType::UpdateHttpsListener(p)
            }
            LK::Tcp => RequestType::UpdateTcpListener(UpdateTcpListenerConfig {
                address: addr.into(),
                front_timeout: ft,
                connect_timeout: Some(self.rng.range(1, 5) as u32),
                ..Default::default()
            }),
            LK::Udp => RequestType::UpdateUdpListener(UpdateUdpListenerConfig {
                address: addr.into(),
                front_timeout: ft,
                max_flows: if self.rng.bool() { Some(self.rng.range(0, 64) as u32) } else { None },
                ..Default::default()
            }),
        }
    }

    fn gen_listener_cmd(&mut self) {
        let kind = *self.rng.pick(&LK::ALL);
        match self.rng.below(10) {
            0..=2 => {
                // add (mostly a free address, sometimes a duplicate)
                let addr = self.listener_addr(kind, Some(false));
                if !self.raw && self.has_listener(kind, &addr) && self.rng.chance(2, 3) {
                    return self.gen_listener_cmd_existing(kind, addr);
                }
                let rt = self.add_listener_rt(kind, addr);
                self.push(rt, "");
            }
            _ => {
                let addr = self.listener_addr(kind, Some(true));
                self.gen_listener_cmd_existing(kind, addr);
            }
        }
    }

    fn gen_listener_cmd_existing(&mut self, kind: LK, addr: SocketAddr) {
        let proxy = self.proxy_field(kind);
        let rt = match self.rng.below(10) {
            0..=2 => RequestType::ActivateListener(ActivateListener { address: addr.into(), proxy, from_scm: false }),
            3..=5 => {
                let to_scm = self.rng.chance(1, 6);
                RequestType::DeactivateListener(DeactivateListener { address: addr.into(), proxy, to_scm })
            }
            6..=7 => self.update_listener_rt(kind, addr),
            _ => RequestType::RemoveListener(RemoveListener { address: addr.into(), proxy }),
        };
        self.push(rt, "");
    }

    pub fn cluster_rt(&mut self, id: &str) -> RequestType {
        let mut c = Cluster { cluster_id: id.to_owned(), ..Default::default() };
        c.load_balancing = self.rng.below(6) as i32;
        c.sticky_session = self.rng.chance(1, 5);
        if self.invalid() {
            match self.rng.below(4) {
                0 => c.load_balancing = 77,
                1 => {
                    c.health_check = Some(HealthCheckConfig { uri: "no-leading-slash".to_owned(), interval: 10, timeout: 5, healthy_threshold: 3, unhealthy_threshold: 3, expected_status: 0 })
                }
                2 => {
                    c.answers.insert("503".to_owned(), "%%% not a template {{".to_owned());
                }
                _ => c.load_metric = Some(9),
            }
        }
        if self.raw {
            if self.rng.chance(1, 10) {
                c.proxy_protocol = Some(self.rng.below(3) as i32);
            }
            if self.rng.chance(1, 10) {
                c.http2 = Some(true);
            }
            if self.rng.chance(1, 10) {
                c.https_redirect = true;
            }
            if self.rng.chance(1, 10) {
                c.max_connections_per_ip = Some(self.rng.range(0, 3));
            }
        }
        RequestType::AddCluster(c)
    }

    fn gen_cluster_cmd(&mut self) {
        let id = self.cluster();
        let rt = match self.rng.below(10) {
            0..=4 => self.cluster_rt(&id),
            5..=6 => RequestType::RemoveCluster(id),
            7..=8 => {
                let bad = self.invalid();
                RequestType::SetHealthCheck(SetHealthCheck {
                    cluster_id: id,
                    config: HealthCheckConfig {
                        uri: if bad && self.rng.bool() { "bad\r\nuri".to_owned() } else { "/health".to_owned() },
                        interval: 30,
                        timeout: 5,
                        healthy_threshold: if bad { 0 } else { 1 },
                        unhealthy_threshold: 3,
                        expected_status: 0,
                    },
                })
            }
            _ => RequestType::RemoveHealthCheck(id),
        };
        self.push(rt, "");
    }

    pub fn http_front(&mut self, addr: SocketAddr, host: &str, prefix: &str, cluster: Option<String>) -> RequestHttpFrontend {
        let mut f = RequestHttpFrontend {
            cluster_id: cluster,
            address: addr.into(),
            hostname: host.to_owned(),
            path: PathRule::prefix(prefix.to_owned()),
            position: RulePosition::Tree.into(),
            ..Default::default()
        };
        if self.rng.chance(1, 6) {
            f.tags.insert("owner".to_owned(), format!("t{}", self.rng.below(3)));
        }
        f
    }

    fn gen_http_front_cmd(&mut self, https: bool) {
        let kind = if https { LK::Https } else { LK::Http };
        let existing: Vec<RequestHttpFrontend> = if https {
            self.g.https_fronts.values().cloned().map(Into::into).collect()
        } else {
            self.g.http_fronts.values().cloned().map(Into::into).collect()
        };
        let remove = !existing.is_empty() && self.rng.chance(2, 5);
        if remove {
            let mut f = self.rng.pick(&existing).clone();
            if self.rng.chance(1, 6) {
                // same key, other cluster: the state removes by key only
                f.cluster_id = Some(self.cluster());
            }
            let rt = if https { RequestType::RemoveHttpsFrontend(f) } else { RequestType::RemoveHttpFrontend(f) };
            return self.push(rt, "");
        }
        let addr = self.listener_addr(kind, Some(true));
        let host = (*self.rng.pick(&HOSTS)).to_owned();
        let prefix = *self.rng.pick(&PREFIXES);
        let cluster = if self.rng.chance(1, 10) { None } else { Some(self.cluster()) };
        let mut f = self.http_front(addr, &host, prefix, cluster);
        if self.invalid() {
            match self.rng.below(if self.raw { 6 } else { 4 }) {
                0 => f.position = 9,
                1 => f.path.kind = 5,
                2 => {
                    if !https {
                        f.hsts = Some(HstsConfig { enabled: Some(true), max_age: Some(60), ..Default::default() })
                    } else {
                        f.position = 9
                    }
                }
                3 => f.hostname = String::new(),
                4 => f.method = Some("POST".to_owned()),
                _ => f.path = PathRule::equals("/exact".to_owned()),
            }
        }
        let rt = if self.rng.chance(1, 12) {
            // removal of something that may not exist
            if https { RequestType::RemoveHttpsFrontend(f) } else { RequestType::RemoveHttpFrontend(f) }
        } else if https {
            RequestType::AddHttpsFrontend(f)
        } else {
            RequestType::AddHttpFrontend(f)
        };
        self.push(rt, "");
    }

    fn gen_l4_front_cmd(&mut self, udp: bool) {
        let kind = if udp { LK::Udp } else { LK::Tcp };
        let addr = self.listener_addr(kind, Some(true));
        let cluster = self.cluster();
        let add = self.rng.chance(3, 5);
        let rt = if udp {
            let f = RequestUdpFrontend { cluster_id: cluster, address: addr.into(), ..Default::default() };
            if add { RequestType::AddUdpFrontend(f) } else { RequestType::RemoveUdpFrontend(f) }
        } else {
            let f = RequestTcpFrontend { cluster_id: cluster, address: addr.into(), ..Default::default() };
            if add { RequestType::AddTcpFrontend(f) } else { RequestType::RemoveTcpFrontend(f) }
        };
        self.push(rt, "");
    }

    pub fn add_backend_rt(&mut self, cluster: &str, id: &str, addr: SocketAddr) -> RequestType {
        RequestType::AddBackend(AddBackend {
            cluster_id: cluster.to_owned(),
            backend_id: id.to_owned(),
            address: addr.into(),
            load_balancing_parameters: Some(LoadBalancingParams { weight: self.rng.range(1, 100) as i32 }),
            sticky_id: if self.rng.chance(1, 5) { Some(format!("s-{id}")) } else { None },
            backup: None,
        })
    }

    fn backend_addr(&mut self) -> SocketAddr {
        if self.raw && self.rng.chance(1, 12) {
            return self.cell.a(DEAD_PORT);
        }
        let p = *self.rng.pick(&BACKEND_PORTS);
        self.cell.a(p)
    }

    fn gen_backend_cmd(&mut self) {
        let existing: Vec<(String, String, SocketAddr)> = self
            .g
            .backends
            .iter()
            .flat_map(|(c, v)| v.iter().map(move |b| (c.clone(), b.backend_id.clone(), b.address)))
            .collect();
        if !existing.is_empty() && self.rng.chance(2, 5) {
            let (c, id, a) = self.rng.pick(&existing).clone();
            let (id, a) = match self.rng.below(8) {
                0 => ((*self.rng.pick(&BACKEND_IDS)).to_owned(), a), // other id, same address
                1 => (id, self.backend_addr()),                       // same id, other address
                _ => (id, a),
            };
            return self.push(RequestType::RemoveBackend(RemoveBackend { cluster_id: c, backend_id: id, address: a.into() }), "");
        }
        let c = self.cluster();
        let id = (*self.rng.pick(&BACKEND_IDS)).to_owned();
        let a = self.backend_addr();
        let rt = if self.rng.chance(1, 10) {
            RequestType::RemoveBackend(RemoveBackend { cluster_id: c, backend_id: id, address: a.into() })
        } else {
            self.add_backend_rt(&c, &id, a)
        };
        self.push(rt, "");
    }

    fn cert_and_key(&mut self, bad: bool) -> CertificateAndKey {
        let cs = certs();
        let c = self.rng.pick(cs);
        let mut ck = CertificateAndKey { certificate: c.cert.clone(), key: c.key.clone(), ..Default::default() };
        if bad {
            match self.rng.below(3) {
                0 => ck.certificate = "not a pem".to_owned(),
                1 => ck.key = self.rng.pick(cs).key.clone(), // probably the wrong key
                _ => ck.key = "not a key".to_owned(),
            }
        } else if self.rng.chance(1, 2) {
            ck.names = vec![(*self.rng.pick(&HOSTS)).to_owned()];
        }
        ck
    }

    fn gen_cert_cmd(&mut self) {
        let addr = self.listener_addr(LK::Https, Some(true));
        let bad = self.invalid();
        let known: Vec<String> = self.g.certificates.get(&addr).map(|m| m.keys().map(|f| f.to_string()).collect()).unwrap_or_default();
        let fp = if !known.is_empty() && self.rng.chance(3, 4) {
            self.rng.pick(&known).clone()
        } else if bad && self.rng.bool() {
            "zz-not-hex".to_owned()
        } else {
            self.rng.pick(certs()).fp.clone()
        };
        let rt = match self.rng.below(10) {
            0..=4 => RequestType::AddCertificate(AddCertificate { address: addr.into(), certificate: self.cert_and_key(bad), expired_at: None }),
            5..=7 => RequestType::ReplaceCertificate(ReplaceCertificate {
                address: addr.into(),
                new_certificate: self.cert_and_key(bad),
                old_fingerprint: fp,
                new_expired_at: None,
            }),
            _ => RequestType::RemoveCertificate(RemoveCertificate { address: addr.into(), fingerprint: fp }),
        };
        self.push(rt, "");
    }

    fn gen_worker_level_cmd(&mut self) {
        let bad = self.invalid();
        let rt = match self.rng.below(14) {
            0 => RequestType::Status(Status {}),
            1 => RequestType::QueryClustersHashes(QueryClustersHashes {}),
            2 => RequestType::QueryClusterById(self.cluster()),
            3 => RequestType::QueryClustersByDomain(QueryClusterByDomain {
                hostname: (*self.rng.pick(&HOSTS)).to_owned(),
                path: if self.rng.bool() { Some((*self.rng.pick(&PREFIXES)).to_owned()) } else { None },
            }),
            4 => {
                let f = match self.rng.below(3) {
                    0 => QueryCertificatesFilters { domain: None, fingerprint: None },
                    1 => QueryCertificatesFilters { domain: Some((*self.rng.pick(&HOSTS)).to_owned()), fingerprint: None },
                    _ => QueryCertificatesFilters { domain: None, fingerprint: Some(self.rng.pick(certs()).fp.clone()) },
                };
                RequestType::QueryCertificatesFromWorkers(f)
            }
            5 => RequestType::QueryMetrics(QueryMetricsOptions {
                list: self.rng.chance(1, 3),
                cluster_ids: if self.rng.bool() { vec![self.cluster()] } else { vec![] },
                backend_ids: if self.rng.chance(1, 3) { vec![format!("{}/{}", self.cluster(), self.rng.pick(&BACKEND_IDS))] } else { vec![] },
                metric_names: vec![],
                no_clusters: self.rng.chance(1, 4),
                workers: self.rng.bool(),
            }),
            6 => RequestType::ConfigureMetrics(if bad { 9 } else { self.rng.below(3) as i32 }),
            7 => {
                // valid specs that keep the worker silent (the main process refuses to forward a spec
                // that does not parse: a worker never receives one)
                let spec = *self.rng.pick(&["off", "nosuchmodule=trace", "off,nosuchmodule=info"]);
                let _ = bad;
                RequestType::Logging(spec.to_owned())
            }
            8 => RequestType::SetMaxConnectionsPerIp(if self.rng.bool() { 0 } else { self.rng.range(50, 1000) }),
            9 => RequestType::QueryMaxConnectionsPerIp(QueryMaxConnectionsPerIp {}),
            10..=11 => {
                let mut s = SetMetricDetail { client_id: format!("top-{}", self.rng.below(3)), ..Default::default() };
                match self.rng.below(4) {
                    0 => s.clear = Some(true),
                    _ => {
                        s.detail = Some(self.rng.below(4) as i32);
                        s.ttl_seconds = if self.rng.bool() { Some(self.rng.range(0, 300) as u32) } else { None };
                    }
                }
                if bad {
                    match self.rng.below(4) {
                        0 => s.detail = Some(42),
                        1 => {
                            s.detail = None;
                            s.clear = None
                        }
                        2 => s.ttl_seconds = Some(100_000),
                        _ => s.client_id = "x".repeat(200),
                    }
                }
                RequestType::SetMetricDetail(s)
            }
            _ => RequestType::Status(Status {}),
        };
        self.push(rt, "");
    }

    // ---- lifecycle patterns (over-weighted sub-sequences) ---------------------------------

    fn maybe_noise(&mut self) {
        if self.rng.chance(1, 4) {
            self.gen_worker_level_cmd();
        }
    }

    fn fresh_listener(&mut self, kind: LK) -> Option<SocketAddr> {
        let free: Vec<SocketAddr> = kind.ports().iter().map(|p| self.cell.a(*p)).filter(|a| !self.has_listener(kind, a)).collect();
        if free.is_empty() { None } else { Some(*self.rng.pick(&free)) }
    }

    fn pattern(&mut self) {
        let kind_w = match self.rng.below(10) {
            0..=4 => LK::Http,
            5..=6 => LK::Tcp,
            7..=8 => LK::Https,
            _ => LK::Udp,
        };
        match self.rng.below(14) {
            0..=2 => {
                // add / activate / deactivate / re-activate / [remove]
                let tag = "listener:add-activate-deactivate-reactivate";
                let Some(a) = self.fresh_listener(kind_w) else { return self.pattern_on_existing(kind_w) };
                let rt = self.add_listener_rt(kind_w, a);
                self.push(rt, tag);
                let rt = self.activate_rt(kind_w, a);
                self.push(rt, tag);
                self.maybe_noise();
                let rt = self.deactivate_rt(kind_w, a);
                self.push(rt, tag);
                self.maybe_noise();
                let rt = self.activate_rt(kind_w, a);
                self.push(rt, tag);
                if self.rng.chance(1, 3) {
                    let rt = self.remove_listener_rt(kind_w, a);
                    self.push(rt, "listener:remove-while-active");
                }
            }
            3 => {
                let tag = "listener:add-remove-never-activated";
                let Some(a) = self.fresh_listener(kind_w) else { return self.pattern_on_existing(kind_w) };
                let rt = self.add_listener_rt(kind_w, a);
                self.push(rt, tag);
                self.maybe_noise();
                let rt = self.remove_listener_rt(kind_w, a);
                self.push(rt, tag);
            }
            4 => {
                let tag = "listener:remove-while-active";
                let Some(a) = self.fresh_listener(kind_w) else { return self.pattern_on_existing(kind_w) };
                let rt = self.add_listener_rt(kind_w, a);
                self.push(rt, tag);
                let rt = self.activate_rt(kind_w, a);
                self.push(rt, tag);
                self.maybe_noise();
                let rt = self.remove_listener_rt(kind_w, a);
                self.push(rt, tag);
                if self.rng.bool() {
                    // and back again on the same address
                    let rt = self.add_listener_rt(kind_w, a);
                    self.push(rt, "listener:re-add-after-remove");
                    let rt = self.activate_rt(kind_w, a);
                    self.push(rt, "listener:re-add-after-remove");
                }
            }
            5 => {
                let tag = "listener:add-activate-deactivate-remove";
                let Some(a) = self.fresh_listener(kind_w) else { return self.pattern_on_existing(kind_w) };
                let rt = self.add_listener_rt(kind_w, a);
                self.push(rt, tag);
                let rt = self.activate_rt(kind_w, a);
                self.push(rt, tag);
                let rt = self.deactivate_rt(kind_w, a);
                self.push(rt, tag);
                if self.rng.chance(2, 3) {
                    let rt = self.remove_listener_rt(kind_w, a);
                    self.push(rt, tag);
                }
            }
            6 => {
                let tag = "backend:same-id-two-addresses";
                let c = self.cluster();
                let id = (*self.rng.pick(&BACKEND_IDS)).to_owned();
                let (a1, a2) = (self.cell.a(BACKEND_PORTS[0]), self.cell.a(BACKEND_PORTS[1]));
                let rt = self.add_backend_rt(&c, &id, a1);
                self.push(rt, tag);
                let rt = self.add_backend_rt(&c, &id, a2);
                self.push(rt, tag);
                self.maybe_noise();
                self.push(RequestType::RemoveBackend(RemoveBackend { cluster_id: c, backend_id: id, address: a1.into() }), tag);
            }
            7 => {
                let tag = "backend:same-address-two-ids";
                let c = self.cluster();
                let a = self.cell.a(*self.rng.pick(&BACKEND_PORTS));
                let rt = self.add_backend_rt(&c, "b0", a);
                self.push(rt, tag);
                let rt = self.add_backend_rt(&c, "b1", a);
                self.push(rt, tag);
                self.maybe_noise();
                self.push(RequestType::RemoveBackend(RemoveBackend { cluster_id: c, backend_id: "b0".to_owned(), address: a.into() }), tag);
            }
            8 => {
                let tag = "cluster:remove-with-frontends-and-backends-left";
                let c = (*self.rng.pick(&CLUSTERS)).to_owned();
                let rt = self.cluster_rt(&c);
                self.push(rt, tag);
                let la = self.listener_addr(LK::Http, Some(true));
                let host = (*self.rng.pick(&HOSTS)).to_owned();
                let f = self.http_front(la, &host, "/", Some(c.clone()));
                self.push(RequestType::AddHttpFrontend(f), tag);
                let ba = self.cell.a(*self.rng.pick(&BACKEND_PORTS));
                let rt = self.add_backend_rt(&c, "b0", ba);
                self.push(rt, tag);
                self.push(RequestType::RemoveCluster(c), tag);
            }
            9 => {
                let tag = "frontend:added-before-its-listener";
                let Some(a) = self.fresh_listener(LK::Http) else { return self.route_pattern() };
                let c = self.cluster();
                let host = (*self.rng.pick(&HOSTS)).to_owned();
                let f = self.http_front(a, &host, "/", Some(c.clone()));
                self.push(RequestType::AddHttpFrontend(f), tag);
                let rt = self.add_listener_rt(LK::Http, a);
                self.push(rt, tag);
                let rt = self.activate_rt(LK::Http, a);
                self.push(rt, tag);
                if !self.g.clusters.contains_key(&c) {
                    let rt = self.cluster_rt(&c);
                    self.push(rt, tag);
                }
            }
            10..=11 => self.route_pattern(),
            12 => {
                let tag = "certificate:add-replace-remove";
                let a = match self.fresh_listener(LK::Https) {
                    Some(a) => {
                        let rt = self.add_listener_rt(LK::Https, a);
                        self.push(rt, tag);
                        a
                    }
                    None => self.listener_addr(LK::Https, Some(true)),
                };
                let cs = certs();
                let (c1, c2) = (&cs[0], &cs[1 % cs.len()]);
                self.push(RequestType::AddCertificate(AddCertificate {
                    address: a.into(),
                    certificate: CertificateAndKey { certificate: c1.cert.clone(), key: c1.key.clone(), ..Default::default() },
                    expired_at: None,
                }), tag);
                self.push(RequestType::ReplaceCertificate(ReplaceCertificate {
                    address: a.into(),
                    new_certificate: CertificateAndKey { certificate: c2.cert.clone(), key: c2.key.clone(), ..Default::default() },
                    old_fingerprint: c1.fp.clone(),
                    new_expired_at: None,
                }), tag);
                if self.rng.bool() {
                    self.push(RequestType::RemoveCertificate(RemoveCertificate { address: a.into(), fingerprint: c2.fp.clone() }), tag);
                }
            }
            _ => {
                let tag = "frontend:remove-and-re-add-to-other-cluster";
                let la = self.listener_addr(LK::Http, Some(true));
                let host = (*self.rng.pick(&HOSTS)).to_owned();
                let (c1, c2) = (self.cluster(), self.cluster());
                let f1 = self.http_front(la, &host, "/api", Some(c1));
                self.push(RequestType::AddHttpFrontend(f1.clone()), tag);
                self.push(RequestType::RemoveHttpFrontend(f1), tag);
                if self.rng.bool() {
                    let f2 = self.http_front(la, &host, "/api", Some(c2));
                    self.push(RequestType::AddHttpFrontend(f2), tag);
                }
            }
        }
    }

    /// lifecycle steps on a listener that already exists
    fn pattern_on_existing(&mut self, kind: LK) {
        let tag = "listener:deactivate-reactivate-existing";
        let a = self.listener_addr(kind, Some(true));
        let rt = self.activate_rt(kind, a);
        self.push(rt, tag);
        let rt = self.deactivate_rt(kind, a);
        self.push(rt, tag);
        if self.rng.chance(2, 3) {
            let rt = self.activate_rt(kind, a);
            self.push(rt, tag);
        }
    }

    /// a complete route: listener + cluster + frontend + backend (keeps route probes non-vacuous)
    pub fn route_pattern_http(&mut self) {
        self.route_pattern_kind(LK::Http)
    }

    fn route_pattern(&mut self) {
        let kind = match self.rng.below(10) {
            0..=3 => LK::Http,
            4..=6 => LK::Https,
            7..=8 => LK::Tcp,
            _ => LK::Udp,
        };
        self.route_pattern_kind(kind)
    }

    /// a complete route: listener + cluster + frontend (+ certificate) + backend (keeps the route
    /// probes non-vacuous)
    fn route_pattern_kind(&mut self, kind: LK) {
        let tag = match kind {
            LK::Http => "route:http-complete",
            LK::Https => "route:https-complete",
            LK::Tcp => "route:tcp-complete",
            LK::Udp => "route:udp-complete",
        };
        let a = match self.fresh_listener(kind) {
            Some(a) => {
                let rt = self.add_listener_rt(kind, a);
                self.push(rt, tag);
                a
            }
            None => self.listener_addr(kind, Some(true)),
        };
        let rt = self.activate_rt(kind, a);
        self.push(rt, tag);
        let c = self.cluster();
        if !self.g.clusters.contains_key(&c) {
            let mut rt = self.cluster_rt(&c);
            if let RequestType::AddCluster(cl) = &mut rt {
                // keep this one sane
                *cl = Cluster { cluster_id: c.clone(), load_balancing: cl.load_balancing.clamp(0, 5), ..Default::default() };
            }
            self.push(rt, tag);
        }
        match kind {
            LK::Tcp => self.push(RequestType::AddTcpFrontend(RequestTcpFrontend { cluster_id: c.clone(), address: a.into(), ..Default::default() }), tag),
            LK::Udp => self.push(RequestType::AddUdpFrontend(RequestUdpFrontend { cluster_id: c.clone(), address: a.into(), ..Default::default() }), tag),
            LK::Http | LK::Https => {
                let host = (*self.rng.pick(&HOSTS)).to_owned();
                let prefix = *self.rng.pick(&PREFIXES);
                let f = self.http_front(a, &host, prefix, Some(c.clone()));
                if kind == LK::Https {
                    // a certificate that covers the host (names override)
                    let cm = self.rng.pick(certs());
                    self.push(RequestType::AddCertificate(AddCertificate {
                        address: a.into(),
                        certificate: CertificateAndKey { certificate: cm.cert.clone(), key: cm.key.clone(), names: vec![host.clone()], ..Default::default() },
                        expired_at: None,
                    }), tag);
                    self.push(RequestType::AddHttpsFrontend(f), tag);
                } else {
                    self.push(RequestType::AddHttpFrontend(f), tag);
                }
            }
        }
        let ba = self.cell.a(*self.rng.pick(&BACKEND_PORTS));
        let id = (*self.rng.pick(&BACKEND_IDS)).to_owned();
        let rt = self.add_backend_rt(&c, &id, ba);
        self.push(rt, tag);
    }

    /// Back-pressure episode: a handful of commands whose answers are large (the answer echoes the
    /// request id, padded to 0.5..1.6 MB: around and above half of the default 2 MB
    /// max_command_buffer_size), written back-to-back while the harness does not read the channel (on small-buffer cells the
    /// same with 20..100 kB ids against 64 kB / 128 kB buffers),
    /// then drained slowly. The worker's channel must hold or re-queue every answer.
    pub fn backpressure_episode(&mut self, small_buffers: bool) {
        let tag = "channel:large-answers-while-main-does-not-read";
        let k = self.rng.urange(3, 7);
        let first = self.out.len();
        while self.out.len() < first + k {
            let before = self.out.len();
            match self.rng.below(4) {
                0 => self.gen_backend_cmd(),
                1 => self.gen_cluster_cmd(),
                _ => self.gen_worker_level_cmd(),
            }
            for c in self.out[before..].iter_mut() {
                c.tag = tag;
            }
        }
        self.out.truncate(first + k);
        self.patterns.insert(tag);
        for i in first..first + k {
            let big = self.rng.chance(3, 4);
            // default cells: 1 MB / 2 MB command buffers; small-buffer cells: 64 kB / 128 kB
            self.out[i].pad = match (small_buffers, big) {
                (false, true) => self.rng.urange(1_050_000, 1_600_000),
                (false, false) => self.rng.urange(300_000, 900_000),
                (true, true) => self.rng.urange(68_000, 100_000),
                (true, false) => self.rng.urange(20_000, 55_000),
            };
            self.out[i].flush = i + 1 == first + k;
        }
    }

    /// Fault followed by a retry: the listener's address is held by another socket when the
    /// activation arrives (answered FAILURE), is released, and the activation is sent again.
    pub fn occupied_activation(&mut self) {
        let kind = match self.rng.below(10) {
            0..=3 => LK::Tcp,
            4..=6 => LK::Http,
            7..=8 => LK::Https,
            _ => LK::Udp,
        };
        // a listener that is not active yet: a fresh one, or one the model holds inactive
        let inactive: Vec<SocketAddr> = kind.ports().iter().map(|p| self.cell.a(*p)).filter(|a| match kind {
            LK::Http => self.g.http_listeners.get(a).is_some_and(|l| !l.active),
            LK::Https => self.g.https_listeners.get(a).is_some_and(|l| !l.active),
            LK::Tcp => self.g.tcp_listeners.get(a).is_some_and(|l| !l.active),
            LK::Udp => self.g.udp_listeners.get(a).is_some_and(|l| !l.active),
        }).collect();
        let a = match self.fresh_listener(kind) {
            Some(a) => {
                let rt = self.add_listener_rt(kind, a);
                self.push(rt, OCCUPIED_TAG);
                a
            }
            None if !inactive.is_empty() => *self.rng.pick(&inactive),
            None => return,
        };
        let rt = self.activate_rt(kind, a);
        self.push(rt, OCCUPIED_TAG);
        if let Some(c) = self.out.last_mut() {
            c.occupy = true;
        }
        let rt = self.activate_rt(kind, a);
        self.push(rt, OCCUPIED_TAG);
        if let Some(c) = self.out.last_mut() {
            c.verify = true;
        }
    }

    pub fn one(&mut self) {
        if self.rng.chance(1, 40) {
            return self.occupied_activation();
        }
        if self.rng.chance(1, 5) {
            return self.pattern();
        }
        match self.rng.below(100) {
            0..=27 => self.gen_listener_cmd(),
            28..=39 => self.gen_cluster_cmd(),
            40..=51 => self.gen_http_front_cmd(false),
            52..=57 => self.gen_http_front_cmd(true),
            58..=62 => self.gen_l4_front_cmd(false),
            63..=66 => self.gen_l4_front_cmd(true),
            67..=80 => self.gen_backend_cmd(),
            81..=86 => self.gen_cert_cmd(),
            87..=98 => self.gen_worker_level_cmd(),
            _ => {
                if self.raw {
                    self.push(RequestType::ReturnListenSockets(ReturnListenSockets {}), "")
                } else {
                    self.gen_worker_level_cmd()
                }
            }
        }
    }
}

#[derive(Clone, Copy, Debug, PartialEq, Eq)]
pub enum Closing {
    SoftStop,
    /// ReturnListenSockets then SoftStop (what `upgrade_worker` sends to the old worker)
    ReturnThenSoftStop,
    HardStop,
}

#[derive(Clone, Debug)]
pub struct Plan {
    pub cell: Cell,
    pub raw: bool,
    pub burst: bool,
    pub traffic: bool,
    /// dump the worker state after every mutating command (C07 level iii)
    pub c07: bool,
    pub inflight: bool,
    /// the cell's command channel uses 64 kB / 128 kB buffers instead of 1 MB / 2 MB
    pub small_buffers: bool,
    pub closing: Closing,
    pub cmds: Vec<Cmd>,
    pub patterns: Vec<&'static str>,
}

pub fn closing_rt(c: Closing) -> RequestType {
    match c {
        Closing::HardStop => RequestType::HardStop(HardStop {}),
        _ => RequestType::SoftStop(SoftStop {}),
    }
}

pub fn generate(rng: &mut Rng, cell: Cell, max_len: usize) -> Plan {
    let raw = rng.chance(7, 20);
    let burst = rng.chance(2, 5);
    let traffic = rng.chance(1, 4);
    let c07 = !burst && rng.chance(1, 2);
    let inflight = !raw && rng.chance(2, 5);
    let backpressure = rng.chance(1, 12);
    let small_buffers = backpressure && rng.bool();
    let closing = match rng.below(10) {
        0 => Closing::HardStop,
        1..=2 => Closing::ReturnThenSoftStop,
        _ => Closing::SoftStop,
    };
    let n = rng.urange(10, max_len.max(10));
    let (mut cmds, patterns) = {
        let mut g = Gen::new(rng, cell, raw);
        while g.out.len() < n {
            g.one();
        }
        // never cut an occupied-activation block in two (the main process's view says `active`
        // after the refused activation; only the retry brings the worker in line with it)
        let mut cut = n.max(10).min(g.out.len());
        while cut < g.out.len() && g.out[cut].tag == OCCUPIED_TAG && g.out[cut - 1].tag == OCCUPIED_TAG {
            cut += 1;
        }
        g.out.truncate(cut);
        if backpressure {
            g.backpressure_episode(small_buffers);
            for _ in 0..g.rng.urange(0, 5) {
                g.gen_worker_level_cmd();
            }
            if g.rng.bool() {
                g.backpressure_episode(small_buffers);
            }
        }
        if inflight {
            // make sure a request can be in flight when the soft stop arrives
            g.route_pattern_http();
        }
        (g.out, g.patterns.into_iter().collect::<Vec<_>>())
    };
    if burst {
        for c in cmds.iter_mut().filter(|c| c.pad == 0 && !c.occupy && !c.verify) {
            c.flush = rng.chance(1, 8);
        }
    }
    Plan { cell, raw, burst, traffic, c07, inflight, small_buffers, closing, cmds, patterns }
}

pub fn plan_json(p: &Plan) -> Value {
    json!({
        "mode": if p.raw { "raw" } else { "master-filtered" },
        "send": if p.burst { "bursts" } else { "one-at-a-time" },
        "traffic": p.traffic, "c07_dumps": p.c07, "command_buffers": if p.small_buffers { "64k/128k" } else { "1M/2M" }, "inflight_request_at_soft_stop": p.inflight,
        "closing": format!("{:?}", p.closing),
        "commands": p.cmds.iter().map(|c| {
            let d = describe(&c.rt);
            if c.occupy {
                json!([d, "<the harness holds this address (bind without SO_REUSEPORT) until the answer is in>"])
            } else if c.verify {
                json!([d, "<retry after the address was released>"])
            } else if c.pad > 0 {
                json!([d, format!("id padded with {} bytes{}", c.pad, if c.flush { "; then no read for 300 ms, then a slow drain" } else { "; next command written without reading" })])
            } else if p.burst && c.flush { json!([d, "<read answers>"]) } else { d }
        }).collect::<Vec<_>>(),
    })
}

// ------------------------------------------------------------------------------------------
// relevance of a command to a set of objects (used to slice witnesses)

pub fn cmd_ports(rt: &RequestType) -> Vec<u16> {
    let p = |a: &sozu_command_lib::proto::command::SocketAddress| SocketAddr::from(*a).port();
    match rt {
        RequestType::AddHttpFrontend(f) | RequestType::RemoveHttpFrontend(f) | RequestType::AddHttpsFrontend(f) | RequestType::RemoveHttpsFrontend(f) => vec![p(&f.address)],
        RequestType::AddCertificate(a) => vec![p(&a.address)],
        RequestType::ReplaceCertificate(a) => vec![p(&a.address)],
        RequestType::RemoveCertificate(a) => vec![p(&a.address)],
        RequestType::AddTcpFrontend(f) | RequestType::RemoveTcpFrontend(f) => vec![p(&f.address)],
        RequestType::AddUdpFrontend(f) | RequestType::RemoveUdpFrontend(f) => vec![p(&f.address)],
        RequestType::AddBackend(b) => vec![p(&b.address)],
        RequestType::RemoveBackend(b) => vec![p(&b.address)],
        RequestType::AddHttpListener(l) => vec![p(&l.address)],
        RequestType::AddHttpsListener(l) => vec![p(&l.address)],
        RequestType::AddTcpListener(l) => vec![p(&l.address)],
        RequestType::AddUdpListener(l) => vec![p(&l.address)],
        RequestType::UpdateHttpListener(l) => vec![p(&l.address)],
        RequestType::UpdateHttpsListener(l) => vec![p(&l.address)],
        RequestType::UpdateTcpListener(l) => vec![p(&l.address)],
        RequestType::UpdateUdpListener(l) => vec![p(&l.address)],
        RequestType::RemoveListener(l) => vec![p(&l.address)],
        RequestType::ActivateListener(l) => vec![p(&l.address)],
        RequestType::DeactivateListener(l) => vec![p(&l.address)],
        _ => vec![],
    }
}

pub fn cmd_clusters(rt: &RequestType) -> Vec<String> {
    match rt {
        RequestType::AddCluster(c) => vec![c.cluster_id.clone()],
        RequestType::RemoveCluster(c) | RequestType::RemoveHealthCheck(c) => vec![c.clone()],
        RequestType::SetHealthCheck(s) => vec![s.cluster_id.clone()],
        RequestType::AddHttpFrontend(f) | RequestType::RemoveHttpFrontend(f) | RequestType::AddHttpsFrontend(f) | RequestType::RemoveHttpsFrontend(f) => f.cluster_id.clone().into_iter().collect(),
        RequestType::AddTcpFrontend(f) | RequestType::RemoveTcpFrontend(f) => vec![f.cluster_id.clone()],
        RequestType::AddUdpFrontend(f) | RequestType::RemoveUdpFrontend(f) => vec![f.cluster_id.clone()],
        RequestType::AddBackend(b) => vec![b.cluster_id.clone()],
        RequestType::RemoveBackend(b) => vec![b.cluster_id.clone()],
        _ => vec![],
    }
}

pub fn is_listener_lifecycle(rt: &RequestType) -> bool {
    matches!(
        rt,
        RequestType::AddHttpListener(_) | RequestType::AddHttpsListener(_) | RequestType::AddTcpListener(_) | RequestType::AddUdpListener(_)
            | RequestType::RemoveListener(_) | RequestType::ActivateListener(_) | RequestType::DeactivateListener(_)
    )
}
pub type RequestTypeAlias = RequestType;
