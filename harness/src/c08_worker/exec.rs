//! Runs one plan against a live worker and applies the C08 oracles.

use std::{
    collections::{BTreeMap, BTreeSet, HashMap},
    io::Write,
    net::SocketAddr,
    sync::atomic::Ordering,
    time::{Duration, Instant},
};

use serde_json::{Value, json};
use sozu_command_lib::{
    logging::parse_logging_spec,
    proto::command::{
        ListenerType, PathRuleKind, QueryClustersHashes, RequestHttpFrontend, ResponseStatus, ReturnListenSockets, RulePosition,
        Status, WorkerResponse, request::RequestType, response_content::ContentType,
    },
    state::ConfigState,
};

use super::{
    net::{self, Probe},
    plan::{self, BACKEND_PORTS, CLUSTERS, Closing, HOSTS, HTTP_PORTS, LK, Plan, describe, is_mutating, req, verb},
};
use crate::lab::{Worker, WorkerOpts, worker::CallError};

#[derive(Clone, Debug)]
pub struct Viol {
    pub sig: String,
    pub what: String,
    pub detail: Value,
}

#[derive(Default, Debug)]
pub struct Outcome {
    pub obs: BTreeMap<String, u64>,
    pub viol: Vec<Viol>,
    pub inconclusive: Vec<String>,
    pub broken: Vec<String>,
    pub commands_sent: u64,
    /// plan indices of the commands that reached the worker
    pub forwarded_idx: Vec<usize>,
}

impl Outcome {
    pub fn o(&mut self, k: &str, n: u64) {
        *self.obs.entry(k.to_owned()).or_insert(0) += n;
    }
    pub fn v(&mut self, sig: &str, what: String, detail: Value) {
        if !self.viol.iter().any(|v| v.sig == sig) {
            self.viol.push(Viol { sig: sig.to_owned(), what, detail });
        }
    }
    pub fn has(&self, sig: &str) -> bool {
        self.viol.iter().any(|v| v.sig == sig)
    }
}

struct Sent {
    idx: usize,
    verb: &'static str,
    status: Option<i32>,
    message: String,
}

fn status_name(s: i32) -> &'static str {
    match ResponseStatus::try_from(s) {
        Ok(ResponseStatus::Ok) => "ok",
        Ok(ResponseStatus::Processing) => "processing",
        Ok(ResponseStatus::Failure) => "failure",
        Err(_) => "invalid_status",
    }
}

/// first configuration map on which the two states differ (request_counts is bookkeeping, not
/// configuration). `normalize`: an empty bucket counts like an absent one.
pub fn diff_maps(a: &ConfigState, b: &ConfigState, normalize: bool) -> Option<&'static str> {
    if a.clusters != b.clusters {
        return Some("clusters");
    }
    if a.http_listeners != b.http_listeners {
        return Some("http_listeners");
    }
    if a.https_listeners != b.https_listeners {
        return Some("https_listeners");
    }
    if a.tcp_listeners != b.tcp_listeners {
        return Some("tcp_listeners");
    }
    if a.udp_listeners != b.udp_listeners {
        return Some("udp_listeners");
    }
    if a.http_fronts != b.http_fronts {
        return Some("http_fronts");
    }
    if a.https_fronts != b.https_fronts {
        return Some("https_fronts");
    }
    if normalize {
        let nb = |s: &ConfigState| s.backends.iter().filter(|(_, v)| !v.is_empty()).map(|(k, v)| (k.clone(), v.clone())).collect::<BTreeMap<_, _>>();
        if nb(a) != nb(b) {
            return Some("backends");
        }
        let nt = |s: &ConfigState| s.tcp_fronts.iter().filter(|(_, v)| !v.is_empty()).map(|(k, v)| (k.clone(), v.clone())).collect::<HashMap<_, _>>();
        if nt(a) != nt(b) {
            return Some("tcp_fronts");
        }
        let nu = |s: &ConfigState| s.udp_fronts.iter().filter(|(_, v)| !v.is_empty()).map(|(k, v)| (k.clone(), v.clone())).collect::<HashMap<_, _>>();
        if nu(a) != nu(b) {
            return Some("udp_fronts");
        }
        let nc = |s: &ConfigState| s.certificates.iter().filter(|(_, v)| !v.is_empty()).map(|(k, v)| (*k, v.clone())).collect::<HashMap<_, _>>();
        if nc(a) != nc(b) {
            return Some("certificates");
        }
    } else {
        if a.backends != b.backends {
            return Some("backends");
        }
        if a.tcp_fronts != b.tcp_fronts {
            return Some("tcp_fronts");
        }
        if a.udp_fronts != b.udp_fronts {
            return Some("udp_fronts");
        }
        if a.certificates != b.certificates {
            return Some("certificates");
        }
    }
    None
}

fn summary(s: &ConfigState) -> Value {
    let l = |active: bool, addr: &SocketAddr| format!(":{}{}", addr.port(), if active { "(active)" } else { "" });
    json!({
        "clusters": s.clusters.keys().collect::<Vec<_>>(),
        "http_listeners": s.http_listeners.iter().map(|(a, c)| l(c.active, a)).collect::<Vec<_>>(),
        "https_listeners": s.https_listeners.iter().map(|(a, c)| l(c.active, a)).collect::<Vec<_>>(),
        "tcp_listeners": s.tcp_listeners.iter().map(|(a, c)| l(c.active, a)).collect::<Vec<_>>(),
        "udp_listeners": s.udp_listeners.iter().map(|(a, c)| l(c.active, a)).collect::<Vec<_>>(),
        "http_fronts": s.http_fronts.values().map(|f| format!(":{} {}{} -> {:?}", f.address.port(), f.hostname, f.path.value, f.cluster_id)).collect::<Vec<_>>(),
        "https_fronts": s.https_fronts.values().map(|f| format!(":{} {}{} -> {:?}", f.address.port(), f.hostname, f.path.value, f.cluster_id)).collect::<Vec<_>>(),
        "tcp_fronts": s.tcp_fronts.iter().map(|(c, v)| format!("{c}: {:?}", v.iter().map(|f| f.address.port()).collect::<Vec<_>>())).collect::<Vec<_>>(),
        "udp_fronts": s.udp_fronts.iter().map(|(c, v)| format!("{c}: {:?}", v.iter().map(|f| f.address.port()).collect::<Vec<_>>())).collect::<Vec<_>>(),
        "backends": s.backends.iter().map(|(c, v)| format!("{c}: {:?}", v.iter().map(|b| format!("{}@:{}", b.backend_id, b.address.port())).collect::<Vec<_>>())).collect::<Vec<_>>(),
        "certificates": s.certificates.iter().map(|(a, m)| format!(":{} x{}", a.port(), m.len())).collect::<Vec<_>>(),
    })
}

fn liveness_probe(kind: LK, addr: SocketAddr, wait: Duration) -> Probe {
    match kind {
        LK::Http => net::http_probe(addr, "nohost.test", "/", wait),
        // a real TLS handshake (SNI nohost.test: the default certificate) and one request
        LK::Https => net::https_probe(addr, "nohost.test", "/", wait),
        _ => {
            // TCP: relayed or closed
            let mut s = match net::can_connect(addr) {
                Ok(s) => s,
                Err(p) => return p,
            };
            let _ = s.write_all(b"GET /liveness HTTP/1.1\r\nHost: nohost.test\r\nConnection: close\r\n\r\n");
            net::read_response(&mut s, wait)
        }
    }
}

/// the socket with which the harness occupies a listener address
enum Holder {
    Tcp(#[allow(dead_code)] std::net::TcpListener),
    Udp(#[allow(dead_code)] std::net::UdpSocket),
}

/// what the probe of an active listener established
enum Live {
    Served,
    Refused(String),
    /// logical evidence that the worker ran and never accepted the connection
    Deaf(Value),
    /// nothing can be concluded (starved worker or harness, foreign socket, ...)
    NoVerdict(String),
}

struct Run<'p> {
    plan: &'p Plan,
    w: Worker,
    out: Outcome,
    reference: ConfigState,
    sent: HashMap<String, Sent>,
    /// forwarded commands in order: (plan index, request id)
    forwarded: Vec<(usize, String)>,
    prev_dump: Option<ConfigState>,
    dead: bool,
    /// clusters whose live backend table lacks a backend of the view (found by `converge`)
    clusters_missing_backends: BTreeSet<String>,
    /// request number -> full id, for ids that carry padding
    padded: HashMap<u64, String>,
    /// Status round trip measured on this cell at start: every wait is at least a multiple of it
    base: Duration,
    /// listener addresses whose activation was refused while the harness held the address
    refused_while_occupied: BTreeSet<SocketAddr>,
}


impl<'p> Run<'p> {
    fn record_status(&mut self, r: &WorkerResponse) {
        if let Some(s) = self.sent.get_mut(&r.id) {
            s.status = Some(r.status);
            s.message = r.message.clone();
        }
    }

    /// the channel broke: give a panicking worker thread a moment to finish unwinding
    fn thread_gone(&mut self) -> bool {
        let start = Instant::now();
        while self.w.is_running() && start.elapsed() < Duration::from_millis(1500) {
            std::thread::sleep(Duration::from_millis(10));
        }
        !self.w.is_running()
    }

    fn worker_died(&mut self, during: &str) {
        if self.dead {
            return;
        }
        self.dead = true;
        let panics = self.w.panics();
        if panics.is_empty() {
            self.out.inconclusive.push(format!("worker thread ended without a recorded panic during {during}"));
        }
        for p in panics {
            if p.in_sozu() {
                self.out.v(&p.signature(), format!("worker thread panicked during {during}: {} at {}", p.message, p.location),
                    json!({"focus": {"listeners": true}, "panic": p.message, "location": p.location, "during": during}));
            } else {
                self.out.broken.push(format!("worker thread panicked outside sozu: {} at {}", p.message, p.location));
            }
        }
    }

    /// Status barrier: everything sent before it has been processed once it is answered
    fn barrier(&mut self) -> bool {
        match self.w.call(RequestType::Status(Status {}), self.wait(6000)) {
            Ok(_) => true,
            Err(_) => {
                if !self.w.is_running() {
                    self.worker_died("status barrier");
                } else {
                    self.out.inconclusive.push("worker did not answer a Status barrier within the stretched wait".to_owned());
                    self.dead = true;
                }
                false
            }
        }
    }

    fn drain_scm(&mut self) -> usize {
        let _ = self.w.scm_main.set_blocking(false);
        let mut n = 0;
        for _ in 0..8 {
            match self.w.scm_main.receive_listeners() {
                Ok(l) => {
                    for (_, fd) in l.http.iter().chain(l.tls.iter()).chain(l.tcp.iter()).chain(l.udp.iter()) {
                        unsafe {
                            libc::close(*fd);
                        }
                        n += 1;
                    }
                }
                Err(_) => break,
            }
        }
        n
    }

    /// wait for the final answers of `ids`; a missing one is confirmed by a barrier
    fn collect(&mut self, ids: &[String]) {
        for id in ids {
            if self.dead {
                return;
            }
            // patience only: the verdict on a missing answer comes from the barrier (ordered channel)
            let patience = if self.out.obs.contains_key("answer_timeouts_checked_by_barrier") { Duration::from_millis(200) } else { self.wait(1500) };
            match self.w.wait_final(id, patience) {
                Ok(r) => self.record_status(&r),
                Err(CallError::Timeout(_)) => {
                    if !self.w.is_running() {
                        return self.worker_died("command sequence");
                    }
                    self.out.o("answer_timeouts_checked_by_barrier", 1);
                    if !self.barrier() {
                        return;
                    }
                    // the barrier was answered: if the answer is still missing it will never
                    // come (one ordered channel); the final accounting reports it
                    if let Ok(r) = self.w.wait_final(id, Duration::from_millis(50)) {
                        self.record_status(&r);
                    }
                }
                Err(CallError::Channel(_)) => {
                    if self.thread_gone() {
                        return self.worker_died("command sequence");
                    }
                    self.out.inconclusive.push("command channel error while the worker is still running".to_owned());
                    self.dead = true;
                    return;
                }
            }
        }
    }

    /// what the main process does before forwarding (requests.rs): returns true when forwarded
    fn master_forwards(&mut self, idx: usize, rt: &RequestType) -> bool {
        let v = verb(rt);
        match rt {
            RequestType::Logging(spec) => {
                if !parse_logging_spec(spec).1.is_empty() {
                    self.out.o(&format!("master_rejected/{v}"), 1);
                    return false;
                }
            }
            RequestType::SetMetricDetail(r) => {
                if r.client_id.len() > sozu_lib::metrics::LEASE_CLIENT_ID_MAX_BYTES
                    || r.ttl_seconds.is_some_and(|t| u64::from(t) > sozu_lib::metrics::LEASE_TTL_MAX.as_secs())
                {
                    self.out.o(&format!("master_rejected/{v}"), 1);
                    return false;
                }
            }
            // query_clusters / query_metrics / status: scattered without touching the state
            RequestType::QueryClustersHashes(_)
            | RequestType::QueryClusterById(_)
            | RequestType::QueryClustersByDomain(_)
            | RequestType::QueryCertificatesFromWorkers(_)
            | RequestType::QueryMetrics(_)
            | RequestType::Status(_) => return true,
            _ => {}
        }
        let before = self.reference.clone();
        match self.reference.dispatch(&req(rt)) {
            Ok(()) => true,
            Err(e) => {
                self.out.o(&format!("master_rejected/{v}"), 1);
                if let Some(map) = diff_maps(&before, &self.reference, false) {
                    // C07 level (i) seen from here: the main process's own state kept a trace of
                    // a command it rejected (and never forwarded): master and workers now differ.
                    self.out.v(
                        &format!("c07/master_state_changed_by_rejected_command/{v}/{map}"),
                        format!("ConfigState::dispatch rejected {v} ({e}) but its map `{map}` changed; the command is not forwarded, so the main process and the workers disagree from here on"),
                        json!({"command_index": idx, "command": describe(rt), "error": e.to_string(),
                            "before": summary(&before), "after": summary(&self.reference)}),
                    );
                    // judge the rest of the sequence on its own
                    self.reference = before;
                }
                false
            }
        }
    }

    fn send_one(&mut self, idx: usize) -> Option<String> {
        let cmd = &self.plan.cmds[idx];
        let v = verb(&cmd.rt);
        if !self.plan.raw && !self.master_forwards(idx, &cmd.rt) {
            return None;
        }
        let sent = if cmd.pad > 0 {
            // "<name>-<n>:<padding>": the answer echoes the id, so the padding sizes the answer
            let base = self.w.next_id();
            let n = base.rsplit('-').next().and_then(|n| n.parse::<u64>().ok()).unwrap_or(0);
            let id = format!("{base}:{}", "x".repeat(cmd.pad));
            self.padded.insert(n, id.clone());
            self.out.o("backpressure/padded_commands", 1);
            self.out.o("backpressure/padded_bytes", cmd.pad as u64);
            self.w.send_with_id(&id, cmd.rt.clone()).map(|()| id)
        } else {
            self.w.send(cmd.rt.clone())
        };
        match sent {
            Ok(id) => {
                self.out.commands_sent += 1;
                self.out.o(&format!("verb/{v}/sent"), 1);
                self.sent.insert(id.clone(), Sent { idx, verb: v, status: None, message: String::new() });
                self.forwarded.push((idx, id.clone()));
                Some(id)
            }
            Err(e) => {
                if self.thread_gone() {
                    self.worker_died("command sequence");
                } else {
                    self.out.inconclusive.push(format!("could not write to the command channel: {e}"));
                    self.dead = true;
                }
                None
            }
        }
    }

    fn c07_after(&mut self, idx: usize, id: &str) {
        let cmd = &self.plan.cmds[idx];
        let v = verb(&cmd.rt);
        if !is_mutating(v) {
            return;
        }
        let status = self.sent.get(id).and_then(|s| s.status);
        let Some(dump) = self.w.dump_state(Duration::from_secs(3)) else {
            if !self.w.is_running() {
                self.worker_died("state dump");
            }
            self.prev_dump = None;
            return;
        };
        self.out.o("c07_dumps", 1);
        if status == Some(ResponseStatus::Failure as i32) {
            if let Some(prev) = &self.prev_dump {
                self.out.o("c07_failure_checked", 1);
                self.out.o(&format!("c07_failure_checked/{v}"), 1);
                if let Some(map) = diff_maps(prev, &dump, false) {
                    self.out.v(
                        &format!("c07/worker_state_changed_by_failed_command/{v}"),
                        format!("the worker answered FAILURE to {v} but its ConfigState map `{map}` differs from the dump taken before the command"),
                        json!({"focus": {"command_index": idx}, "command_index": idx, "command": describe(&cmd.rt), "map": map, "worker_error": self.sent.get(id).map(|s| s.message.clone()),
                            "before": summary(prev), "after": summary(&dump)}),
                    );
                }
            }
        }
        self.prev_dump = Some(dump);
    }

    fn run_commands(&mut self) {
        let n = self.plan.cmds.len();
        let mut pending: Vec<(usize, String)> = Vec::new();
        let mut burst_len = 0u64;
        for idx in 0..n {
            if self.dead {
                return;
            }
            let cmd = &self.plan.cmds[idx];
            // fault class "address occupied at activation time": hold the address ourselves
            // (plain bind, no SO_REUSEPORT) while the worker handles the ActivateListener
            let mut holder: Option<Holder> = None;
            if cmd.occupy {
                if let RequestType::ActivateListener(a) = &cmd.rt {
                    let addr: SocketAddr = a.address.into();
                    holder = if a.proxy == ListenerType::Udp as i32 {
                        std::net::UdpSocket::bind(addr).ok().map(Holder::Udp)
                    } else {
                        std::net::TcpListener::bind(addr).ok().map(Holder::Tcp)
                    };
                    self.out.o(if holder.is_some() { "activation_fault/address_held_by_the_harness" } else { "activation_fault/address_could_not_be_held" }, 1);
                }
            }
            let held = holder.is_some();
            if let Some(id) = self.send_one(idx) {
                pending.push((idx, id));
                burst_len += 1;
            }
            if cmd.flush || cmd.occupy || cmd.verify || idx + 1 == n {
                if self.plan.burst && burst_len > 1 {
                    self.out.o("bursts", 1);
                    self.out.o("burst_commands", burst_len);
                    let m = self.out.obs.entry("max:burst_len".to_owned()).or_insert(0);
                    *m = (*m).max(burst_len);
                }
                burst_len = 0;
                let ids: Vec<String> = pending.iter().map(|(_, id)| id.clone()).collect();
                let episode = pending.iter().any(|(i, _)| self.plan.cmds[*i].pad > 0);
                if episode {
                    // the main process is busy elsewhere: nothing is read for a while, the socket
                    // and the worker's write buffer fill up; then the answers are drained slowly
                    self.out.o("backpressure/episodes", 1);
                    std::thread::sleep(Duration::from_millis(300));
                    for id in &ids {
                        self.collect(std::slice::from_ref(id));
                        std::thread::sleep(Duration::from_millis(15));
                    }
                } else {
                    self.collect(&ids);
                }
                if self.dead {
                    return;
                }
                drop(holder);
                if cmd.occupy || cmd.verify {
                    if let Some((_, id)) = pending.last().filter(|(i, _)| *i == idx).cloned() {
                        self.activation_fault_step(idx, &id, held);
                    }
                }
                let needs_scm = pending.iter().any(|(i, _)| match &self.plan.cmds[*i].rt {
                    RequestType::DeactivateListener(d) => d.to_scm,
                    RequestType::ReturnListenSockets(_) => true,
                    _ => false,
                });
                if needs_scm {
                    let fds = self.drain_scm();
                    self.out.o("scm_fds_received", fds as u64);
                }
                if self.plan.c07 && pending.len() == 1 {
                    let (i, id) = pending[0].clone();
                    self.c07_after(i, &id);
                } else if self.plan.c07 && pending.len() > 1 {
                    // several commands went out together (back-pressure episode): the reference
                    // dump for the next FAILURE check is the state after all of them
                    self.prev_dump = self.w.dump_state(Duration::from_secs(3));
                }
                pending.clear();
            }
        }
    }

    /// the two steps of the "address occupied at activation time" fault class
    fn activation_fault_step(&mut self, idx: usize, id: &str, held: bool) {
        let cmd = &self.plan.cmds[idx];
        let RequestType::ActivateListener(a) = &cmd.rt else { return };
        let addr: SocketAddr = a.address.into();
        let proto = match ListenerType::try_from(a.proxy) {
            Ok(ListenerType::Http) => "http",
            Ok(ListenerType::Https) => "https",
            Ok(ListenerType::Tcp) => "tcp",
            Ok(ListenerType::Udp) => "udp",
            Err(_) => return,
        };
        let status = self.sent.get(id).and_then(|s| s.status).map(status_name).unwrap_or("?");
        if cmd.occupy {
            if !held {
                return;
            }
            self.out.o(&format!("activation_fault/{proto}/first_activation_answered_{status}"), 1);
            if status == "failure" {
                self.refused_while_occupied.insert(addr);
            }
            return;
        }
        // the retry, after the address was released
        if !self.refused_while_occupied.contains(&addr) {
            return;
        }
        self.out.o(&format!("activation_fault/{proto}/retry_answered_{status}"), 1);
        let witness = |this: &Self| json!({"listener": format!(":{}", addr.port()), "kind": proto, "command_index": idx,
            "commands_for_this_listener": this.listener_history(addr), "focus": {"ports": [addr.port()]}});
        match status {
            "ok" => {
                // logical evidence: the answer says the listener is bound; the kernel says whether it is
                let listening = if proto == "udp" {
                    match net::udp_socket_is_ours(addr) {
                        Some(true) => Some(true),
                        Some(false) => None, // somebody else's socket: no verdict
                        None => Some(false),
                    }
                } else {
                    match net::can_connect(addr) {
                        Ok(_) => Some(true),
                        Err(Probe::Refused(_)) => Some(false),
                        Err(_) => None,
                    }
                };
                match listening {
                    Some(true) => self.out.o("activation_fault/listening_after_ok_retry", 1),
                    Some(false) => {
                        let w = witness(self);
                        self.out.v(&format!("worker/listener_not_listening_after_ok_activation/{proto}/retry_after_bind_failure"),
                            format!("{proto} listener :{}: ActivateListener was refused while the address was held by another socket; after the address was released the same ActivateListener is answered OK, but {}", addr.port(),
                                if proto == "udp" { "no UDP socket of this process is bound to the address" } else { "connections to the address are refused (nothing listens)" }),
                            w);
                    }
                    None => self.out.inconclusive.push("activation retry: could not tell whether the address is listening".to_owned()),
                }
            }
            "failure" => {
                let w = witness(self);
                self.out.v(&format!("worker/activation_retry_refused_after_bind_failure/{proto}"),
                    format!("{proto} listener :{}: the activation failed while the address was occupied; the address is free again but the retry is refused as well", addr.port()), w);
            }
            _ => {}
        }
    }

    // ---- oracle 1: exactly once -----------------------------------------------------------

    /// `upto`: ids 1..upto were sent; `skip`: the stop request judged separately
    fn account(&mut self, upto: u64, skip: Option<&str>) {
        let mut terminal: HashMap<&str, Vec<i32>> = HashMap::new();
        let mut processing: HashMap<&str, u64> = HashMap::new();
        let prefix = format!("{}-", self.w.name);
        let mut unknown = Vec::new();
        let mut events = 0u64;
        for r in &self.w.log {
            // worker-originated events (backend up/down, metric-detail transitions) travel on the same
            // channel as PROCESSING messages with the fixed id "EVENT": not answers to anything
            if r.id == "EVENT" && r.status == ResponseStatus::Processing as i32 {
                events += 1;
                continue;
            }
            let known = r.id.strip_prefix(&prefix).is_some_and(|rest| match rest.split_once(':') {
                None => rest.parse::<u64>().ok().is_some_and(|n| n >= 1 && n < upto && !self.padded.contains_key(&n)),
                Some((n, _)) => n.parse::<u64>().ok().is_some_and(|n| self.padded.get(&n) == Some(&r.id)),
            });
            if !known {
                let shown: String = r.id.chars().take(48).collect();
                unknown.push(json!({"id": shown, "id_len": r.id.len(), "status": status_name(r.status), "message": r.message.chars().take(200).collect::<String>()}));
                continue;
            }
            if r.status == ResponseStatus::Processing as i32 {
                *processing.entry(r.id.as_str()).or_insert(0) += 1;
            } else {
                terminal.entry(r.id.as_str()).or_default().push(r.status);
            }
        }
        let mut viols = Vec::new();
        let mut obs: Vec<(String, u64)> = vec![("worker_events_received".to_owned(), events)];
        if !unknown.is_empty() {
            viols.push(("exactly_once/answer_with_unknown_id".to_owned(), format!("{} response(s) carry an id that was never sent", unknown.len()), json!({"responses": unknown})));
        }
        // A missing answer is only a fact when something proves the request was processed: the channel
        // is ordered, so either a request sent later has its final answer, or the worker acknowledged
        // the closing stop (everything before it was handled). Without such evidence (starved or stuck
        // worker) the silence is inconclusive.
        let number_of = |id: &str| id.strip_prefix(&prefix).and_then(|r| r.split(':').next()).and_then(|n| n.parse::<u64>().ok());
        let last_answered = terminal.keys().filter_map(|id| number_of(id)).max().unwrap_or(0);
        let stop_acknowledged = skip.is_some_and(|id| terminal.contains_key(id));
        let mut unproven = 0u64;
        for n in 1..upto {
            let id = self.padded.get(&n).cloned().unwrap_or_else(|| format!("{prefix}{n}"));
            let shown: String = if id.len() > 64 { format!("{}… ({} bytes)", &id[..40], id.len()) } else { id.clone() };
            if Some(id.as_str()) == skip {
                continue;
            }
            let (v, idx) = match self.sent.get(&id) {
                Some(s) => (s.verb, Some(s.idx)),
                None => ("Status(harness)", None),
            };
            let t = terminal.get(id.as_str()).cloned().unwrap_or_default();
            let p = processing.get(id.as_str()).copied().unwrap_or(0);
            obs.push(("ids_accounted".to_owned(), 1));
            if p > 0 {
                obs.push((format!("verb/{v}/processing"), p));
            }
            for s in &t {
                obs.push((format!("verb/{v}/{}", status_name(*s)), 1));
            }
            let idx = idx.filter(|i| *i < self.plan.cmds.len());
            let cmd = idx.map(|i| describe(&self.plan.cmds[i].rt));
            if t.is_empty() && n > last_answered && !stop_acknowledged {
                unproven += 1;
            } else if t.is_empty() {
                viols.push((format!("exactly_once/no_terminal_answer/{v}"),
                    format!("request {shown} ({v}) got no OK/FAILURE answer although a request sent later was answered (ordered channel) ({p} processing notice(s))"),
                    json!({"command_index": idx, "command": cmd, "processing": p, "id_bytes": id.len()})));
            } else if t.len() > 1 {
                viols.push((format!("exactly_once/multiple_terminal_answers/{v}"),
                    format!("request {shown} ({v}) got {} terminal answers: {:?}", t.len(), t.iter().map(|s| status_name(*s)).collect::<Vec<_>>()),
                    json!({"command_index": idx, "command": cmd, "answers": t.iter().map(|s| status_name(*s)).collect::<Vec<_>>()})));
            }
        }
        if unproven > 0 {
            self.out.inconclusive.push(format!("{unproven} request(s) unanswered with no later answer to prove they were processed"));
        }
        for (k, n) in obs {
            self.out.o(&k, n);
        }
        for (s, w, d) in viols {
            self.out.v(&s, w, d);
        }
    }

    // ---- oracle 2: convergence --------------------------------------------------------------

    fn call(&mut self, rt: RequestType) -> Option<WorkerResponse> {
        match self.w.call(rt, self.wait(4000)) {
            Ok(r) => Some(r),
            Err(_) => {
                if !self.w.is_running() {
                    self.worker_died("convergence queries");
                } else {
                    self.out.inconclusive.push("a convergence query was not answered within the stretched wait".to_owned());
                }
                None
            }
        }
    }

    fn converge(&mut self) {
        // cluster hashes
        if let Some(r) = self.call(RequestType::QueryClustersHashes(QueryClustersHashes {})) {
            let got = match r.content.and_then(|c| c.content_type) {
                Some(ContentType::ClusterHashes(h)) => Some(h.map),
                _ => None,
            };
            let want = self.reference.hash_state();
            self.out.o("convergence/hashes_checked", 1);
            if got.as_ref() != Some(&want) {
                let got_keys: Option<Vec<String>> = got.as_ref().map(|m| m.keys().cloned().collect());
                let differing: Vec<String> = match &got {
                    Some(g) => want.iter().filter(|(k, v)| g.get(*k) != Some(v)).map(|(k, _)| k.clone()).chain(g.keys().filter(|k| !want.contains_key(*k)).cloned()).collect(),
                    None => vec![],
                };
                self.out.v("converge/clusters_hashes", "QueryClustersHashes differs from the reference ConfigState::hash_state()".to_owned(),
                    json!({"worker_clusters": got_keys, "reference_clusters": want.keys().collect::<Vec<_>>(), "differing": differing}));
            }
        }
        // every cluster, plus ids the reference does not know
        let mut ids: Vec<String> = self.reference.clusters.keys().cloned().collect();
        for c in CLUSTERS {
            if !ids.iter().any(|i| i == c) {
                ids.push(c.to_owned());
            }
        }
        for id in ids {
            if self.dead {
                return;
            }
            let Some(r) = self.call(RequestType::QueryClusterById(id.clone())) else { return };
            let got = match r.content.and_then(|c| c.content_type) {
                Some(ContentType::Clusters(c)) => Some(c.vec),
                _ => None,
            };
            let want: Vec<_> = self.reference.cluster_state(&id).into_iter().collect();
            self.out.o("convergence/cluster_by_id_checked", 1);
            if got.as_ref() != Some(&want) {
                self.out.v("converge/cluster_by_id", format!("QueryClusterById({id}) differs from the reference cluster_state"),
                    json!({"cluster": id, "worker": format!("{got:?}"), "reference": format!("{want:?}")}));
            }
        }
        // full dump
        match self.w.dump_state(Duration::from_secs(3)) {
            Some(dump) => {
                self.out.o("convergence/dump_checked", 1);
                if diff_maps(&dump, &self.reference, false).is_some() && diff_maps(&dump, &self.reference, true).is_none() {
                    self.out.o("convergence/dump_equal_after_empty_bucket_normalisation", 1);
                }
                if let Some(map) = diff_maps(&dump, &self.reference, true) {
                    self.out.v(&format!("converge/dump/{map}"), format!("the worker's ConfigState differs from the reference on `{map}` after a sequence the main process accepted"),
                        json!({"map": map, "worker": summary(&dump), "reference": summary(&self.reference)}));
                }
                // the worker's live backend table (hook H3) against the same view
                let snap = self.w.probe.snapshot();
                let live: BTreeSet<(String, String, String)> = snap.backends.iter().map(|b| (b.cluster_id.clone(), b.backend_id.clone(), b.address.clone())).collect();
                let want: BTreeSet<(String, String, String)> = self.reference.backends.iter()
                    .flat_map(|(c, v)| v.iter().map(move |b| (c.clone(), b.backend_id.clone(), b.address.to_string()))).collect();
                self.out.o("convergence/backend_table_checked", 1);
                let missing: Vec<_> = want.difference(&live).cloned().collect();
                let extra: Vec<_> = live.difference(&want).cloned().collect();
                let strip = |v: &[(String, String, String)]| v.iter().map(|(c, i, a)| format!("{c}/{i}@:{}", a.rsplit(':').next().unwrap_or(""))).collect::<Vec<_>>();
                if !missing.is_empty() {
                    self.clusters_missing_backends = missing.iter().map(|m| m.0.clone()).collect();
                    self.out.v("worker/backend_table_differs_from_view/missing",
                        format!("the worker's live backend table lacks {} backend(s) that its own ConfigState and the reference list", missing.len()),
                        json!({"focus": {"clusters": missing.iter().map(|m| m.0.clone()).collect::<BTreeSet<_>>()}, "missing_in_live_table": strip(&missing), "live": strip(&live.iter().cloned().collect::<Vec<_>>()), "reference": strip(&want.iter().cloned().collect::<Vec<_>>())}));
                }
                if !extra.is_empty() {
                    self.out.v("worker/backend_table_differs_from_view/extra",
                        format!("the worker's live backend table holds {} backend(s) absent from the reference", extra.len()),
                        json!({"focus": {"clusters": extra.iter().map(|m| m.0.clone()).collect::<BTreeSet<_>>()}, "extra_in_live_table": strip(&extra), "reference": strip(&want.iter().cloned().collect::<Vec<_>>())}));
                }
            }
            None => {
                if !self.w.is_running() {
                    self.worker_died("state dump");
                } else {
                    self.out.inconclusive.push("state dump hook not reached".to_owned());
                }
            }
        }
    }

    // ---- oracle 3: behaviour ------------------------------------------------------------------

    /// commands the worker received for this listener address, as verbs with their answers
    fn listener_history(&self, addr: SocketAddr) -> Vec<String> {
        let mut h = Vec::new();
        for (idx, id) in &self.forwarded {
            let rt = &self.plan.cmds[*idx].rt;
            let a: Option<SocketAddr> = match rt {
                RequestType::AddHttpListener(l) => Some(l.address.into()),
                RequestType::AddHttpsListener(l) => Some(l.address.into()),
                RequestType::AddTcpListener(l) => Some(l.address.into()),
                RequestType::AddUdpListener(l) => Some(l.address.into()),
                RequestType::ActivateListener(l) => Some(l.address.into()),
                RequestType::DeactivateListener(l) => Some(l.address.into()),
                RequestType::RemoveListener(l) => Some(l.address.into()),
                _ => None,
            };
            if a == Some(addr) {
                let st = self.sent.get(id).and_then(|s| s.status).map(status_name).unwrap_or("?");
                let msg = self.sent.get(id).map(|s| s.message.replace(&self.plan.cell.ip.to_string(), "")).unwrap_or_default();
                if st == "failure" {
                    h.push(format!("{}={st} ({msg})", verb(rt)));
                } else {
                    h.push(format!("{}={st}", verb(rt)));
                }
            }
        }
        h
    }

    /// position (in forwarding order) and answer of the last forwarded command matching `pred`
    fn last_forwarded(&self, pred: impl Fn(&RequestType) -> bool) -> Option<(usize, &'static str)> {
        self.forwarded.iter().enumerate().rev().find_map(|(pos, (idx, id))| {
            if pred(&self.plan.cmds[*idx].rt) {
                Some((pos, self.sent.get(id).and_then(|s| s.status).map(status_name).unwrap_or("?")))
            } else {
                None
            }
        })
    }

    fn last_listener_add(&self, addr: SocketAddr) -> Option<(usize, &'static str)> {
        self.last_forwarded(|rt| match rt {
            RequestType::AddHttpListener(l) => SocketAddr::from(l.address) == addr,
            RequestType::AddHttpsListener(l) => SocketAddr::from(l.address) == addr,
            RequestType::AddTcpListener(l) => SocketAddr::from(l.address) == addr,
            RequestType::AddUdpListener(l) => SocketAddr::from(l.address) == addr,
            _ => false,
        })
    }

    fn reactivated(&self, addr: SocketAddr) -> bool {
        // since the last Add: a Deactivate answered OK followed by an Activate
        let h = self.listener_history(addr);
        let start = h.iter().rposition(|s| s.starts_with("Add") && s.ends_with("=ok")).unwrap_or(0);
        let tail = &h[start..];
        match tail.iter().position(|s| s == "DeactivateListener=ok") {
            Some(p) => tail[p..].iter().any(|s| s == "ActivateListener=ok"),
            None => false,
        }
    }

    /// a wait of at least `ms`, stretched on a slow cell (300 Status round trips), at most 20 s
    fn wait(&self, ms: u64) -> Duration {
        Duration::from_millis(ms).max(self.base * 300).min(Duration::from_secs(20))
    }

    /// `accept` events the worker logged for connections to `addr` (hook H7)
    fn accepts_at(&self, addr: SocketAddr) -> usize {
        let tail = format!("Some({addr})");
        self.w.probe.events().iter().filter(|e| e.kind == "accept" && e.detail.ends_with(&tail)).count()
    }

    /// Logical evidence that the worker ran after event-loop iteration `from_iter`: a Status sent now
    /// is answered and the loop completed `n` further iterations. None = it did not (starved, dead):
    /// nothing may be concluded from silence.
    fn worker_ran(&mut self, from_iter: u64, n: u64) -> Option<u64> {
        for _ in 0..(n + 4) {
            if self.w.call(RequestType::Status(Status {}), self.wait(3000)).is_err() {
                return None;
            }
            let it = self.w.probe.snapshot().iteration;
            if it >= from_iter + n {
                return Some(it - from_iter);
            }
            std::thread::sleep(Duration::from_millis(5));
        }
        None
    }

    /// Probe a listener the view holds active. A missing answer alone never makes it deaf: the
    /// worker must have run (Status answered, >= 5 loop iterations after the connect) with accepting
    /// enabled and still have logged no accept for this address.
    fn probe_active(&mut self, kind: LK, addr: SocketAddr) -> Live {
        for attempt in 0..2 {
            let accepts0 = self.accepts_at(addr);
            let iter0 = self.w.probe.snapshot().iteration;
            let p = liveness_probe(kind, addr, self.wait(if attempt == 0 { 700 } else { 5000 }));
            match p {
                Probe::Refused(e) => return Live::Refused(e),
                Probe::NoVerdict(e) => return Live::NoVerdict(format!("connect to an active listener: {e}")),
                Probe::TlsFailed(e) if kind != LK::Https => return Live::NoVerdict(e),
                Probe::Silent => {
                    let Some(advanced) = self.worker_ran(iter0, 5) else {
                        return Live::NoVerdict("listener probe unanswered and the worker did not run meanwhile (starved)".to_owned());
                    };
                    let snap = self.w.probe.snapshot();
                    let accepts1 = self.accepts_at(addr);
                    if accepts1 == accepts0 {
                        if snap.can_accept && !snap.shutting_down && snap.accept_queue_len == 0 {
                            return Live::Deaf(json!({"loop_iterations_after_connect": advanced, "status_answered_after_connect": true,
                                "accept_events_for_this_address_before": accepts0, "accept_events_for_this_address_after": accepts1,
                                "can_accept": snap.can_accept, "nb_connections": snap.nb_connections}));
                        }
                        return Live::NoVerdict("listener probe unanswered while the worker is not accepting (limits reached)".to_owned());
                    }
                    // accepted, but no byte yet: try once more with a long wait, then give up without a verdict
                    if attempt == 1 {
                        return Live::NoVerdict("connection accepted by the worker but unanswered within the (stretched) wait".to_owned());
                    }
                }
                _ => return Live::Served,
            }
        }
        Live::NoVerdict("listener probe unanswered".to_owned())
    }

    fn behaviour(&mut self, backends: &net::Backends) {
        let cell = self.plan.cell;
        let mut served_http: Vec<SocketAddr> = Vec::new();
        let mut served_tcp: Vec<SocketAddr> = Vec::new();
        let mut served_https: Vec<SocketAddr> = Vec::new();
        let mut todo: Vec<(LK, u16, SocketAddr, Option<bool>)> = Vec::new();
        for kind in [LK::Http, LK::Https, LK::Tcp] {
            for port in kind.ports() {
                let addr = cell.a(port);
                let active = match kind {
                    LK::Http => self.reference.http_listeners.get(&addr).map(|l| l.active),
                    LK::Https => self.reference.https_listeners.get(&addr).map(|l| l.active),
                    LK::Tcp => self.reference.tcp_listeners.get(&addr).map(|l| l.active),
                    LK::Udp => None,
                };
                todo.push((kind, port, addr, active));
            }
        }
        for (kind, port, addr, active) in todo {
            let k = kind.name();
            let hist = self.listener_history(addr);
            let focus = json!({"ports": [port]});
            if active == Some(true) {
                self.out.o("listener_probes/active", 1);
                match self.probe_active(kind, addr) {
                    Live::Refused(e) => {
                        // ECONNREFUSED is the kernel's answer about the address, not a timing matter
                        let add = self.last_listener_add(addr).map(|x| x.1);
                        let act = self.last_forwarded(|rt| matches!(rt, RequestType::ActivateListener(a) if SocketAddr::from(a.address) == addr)).map(|x| x.1);
                        let cause = if add == Some("failure") { "/add_answered_failure" } else if act == Some("failure") { "/activate_answered_failure" } else { "" };
                        let sig = if self.refused_while_occupied.contains(&addr) && act == Some("ok") {
                            format!("worker/listener_not_listening_after_ok_activation/{k}/retry_after_bind_failure")
                        } else {
                            format!("worker/active_listener_refuses_connections/{k}{cause}")
                        };
                        self.out.v(&sig,
                            format!("{k} listener :{port} is active in the main process's view but connect() is refused: {e}"),
                            json!({"listener": format!(":{port}"), "kind": k, "commands_for_this_listener": hist, "focus": focus}));
                    }
                    Live::Deaf(evidence) => {
                        let sig = if self.reactivated(addr) { format!("worker/deaf_listener_after_reactivation/{k}") } else { format!("worker/deaf_listener/{k}") };
                        self.out.v(&sig,
                            format!("{k} listener :{port} is active in the main process's view; the kernel completed the TCP handshake, afterwards the worker answered a Status and completed {} event-loop iterations with accepting enabled, yet logged no accept for this address", evidence["loop_iterations_after_connect"]),
                            json!({"listener": format!(":{port}"), "kind": k, "evidence": evidence, "commands_for_this_listener": hist, "focus": focus}));
                    }
                    Live::NoVerdict(why) => {
                        self.out.o("listener_probes/no_verdict", 1);
                        self.out.inconclusive.push(why);
                    }
                    Live::Served => {
                        self.out.o("listener_probes/active_served", 1);
                        match kind {
                            LK::Http => served_http.push(addr),
                            LK::Tcp => served_tcp.push(addr),
                            LK::Https => served_https.push(addr),
                            LK::Udp => {}
                        }
                    }
                }
            } else {
                self.out.o(if active.is_none() { "listener_probes/absent" } else { "listener_probes/inactive" }, 1);
                // the command that closed the socket was answered before: a refusal is expected at once
                let mut conn = net::can_connect(addr);
                let start = Instant::now();
                while conn.is_ok() && start.elapsed() < Duration::from_millis(600) {
                    std::thread::sleep(Duration::from_millis(100));
                    conn = net::can_connect(addr);
                }
                match conn {
                    Err(Probe::Refused(_)) => self.out.o("listener_probes/refused_as_expected", 1),
                    Err(p) => {
                        self.out.o("listener_probes/no_verdict", 1);
                        self.out.inconclusive.push(format!("connect to an inactive listener address: {}", p.short()));
                    }
                    Ok(stream) => {
                        // a LISTEN socket exists at the address: ours (the worker's), or some other process's?
                        let iter0 = self.w.probe.snapshot().iteration;
                        let accepts0 = self.accepts_at(addr);
                        match net::listen_socket_is_ours(addr) {
                            Some(false) => {
                                self.out.o("listener_probes/no_verdict", 1);
                                self.out.inconclusive.push("an inactive listener address is held by a socket of another process".to_owned());
                            }
                            ours => {
                                let ran = self.worker_ran(iter0, 3);
                                let how = match ran {
                                    Some(_) if self.accepts_at(addr) > accepts0 => "accepted_by_the_worker",
                                    Some(_) => "not_accepted_by_the_worker",
                                    None => "worker_did_not_run",
                                };
                                let state = if active.is_none() { "removed_or_never_added" } else { "inactive" };
                                self.out.v(&format!("worker/{state}_listener_accepts_connections/{k}/{how}"),
                                    format!("{k} listener :{port} is {state} in the main process's view but a LISTEN socket of this process still completes TCP handshakes on it"),
                                    json!({"listener": format!(":{port}"), "kind": k, "listen_socket_owned_by_this_process": ours, "commands_for_this_listener": hist, "focus": focus}));
                            }
                        }
                        drop(stream);
                    }
                }
            }
        }
        // HTTP routes: one probe per (listener, host, prefix) of the universe on served listeners;
        // covers present frontends and removed ones alike
        for (https, addrs) in [(false, served_http), (true, served_https)] {
            for addr in addrs {
                for host in HOSTS {
                    for (prefix, path) in [("/", "/zz"), ("/api", "/api/x")] {
                        self.route_probe(https, addr, host, prefix, path);
                    }
                }
            }
        }
        for addr in served_tcp {
            self.tcp_route_probe(addr);
        }
        for port in LK::Udp.ports() {
            self.udp_route_probe(cell.a(port), backends);
        }
    }

    /// one datagram per UDP listener address: relayed to a backend of the cluster bound to it and
    /// answered, or dropped when the view has no active listener / frontend / backend there
    fn udp_route_probe(&mut self, addr: SocketAddr, backends: &net::Backends) {
        let active = self.reference.udp_listeners.get(&addr).map(|l| l.active);
        let clusters: Vec<String> = self.reference.udp_fronts.iter().filter(|(_, v)| v.iter().any(|f| f.address == addr)).map(|(c, _)| c.clone()).collect();
        let ports: BTreeSet<u16> = clusters.iter().flat_map(|c| self.backend_ports(c)).collect();
        let routable = active == Some(true) && !clusters.is_empty() && clusters.iter().all(|c| !self.backend_ports(c).is_empty());
        // a cluster that was removed while its frontend stays, or several clusters on one listener:
        // the statement does not say which wins
        let lenient = clusters.len() > 1 || clusters.iter().any(|c| !self.reference.clusters.contains_key(c));
        let iter0 = self.w.probe.snapshot().iteration;
        let relayed0 = backends.udp_received.load(Ordering::SeqCst);
        let mut got = net::udp_probe(addr, self.wait(400));
        if got.is_none() && routable {
            got = net::udp_probe(addr, self.wait(1500));
        }
        if got.is_none() && routable && !lenient {
            // silence proves nothing by itself: the worker must have run after the datagrams were
            // queued on its socket, and no scripted backend may have received anything
            let ran = self.worker_ran(iter0, 5);
            let relayed = backends.udp_received.load(Ordering::SeqCst) - relayed0;
            if ran.is_none() || relayed > 0 {
                self.out.o("udp_probes/no_verdict", 1);
                self.out.inconclusive.push(if ran.is_none() {
                    "UDP probe unanswered and the worker did not run meanwhile (starved)".to_owned()
                } else {
                    "UDP probe relayed to a backend but the reply did not come back within the wait".to_owned()
                });
                return;
            }
        }
        self.out.o("udp_probes", 1);
        self.out.o(match active {
            Some(true) => "udp_probes/active_listener",
            Some(false) => "udp_probes/inactive_listener",
            None => "udp_probes/absent_listener",
        }, 1);
        if lenient && active == Some(true) {
            self.out.o("udp_probes/lenient", 1);
        }
        let ok = match &got {
            Some(tag) => active == Some(true) && ports.iter().any(|p| tag == &format!("U{p}")),
            None => !routable || lenient,
        };
        if ok {
            self.out.o("udp_probes/as_expected", 1);
            if got.is_some() {
                self.out.o("udp_probes/relayed_to_backend_of_cluster", 1);
            }
            return;
        }
        let front_pos = self.last_forwarded(|rt| matches!(rt, RequestType::AddUdpFrontend(a) if SocketAddr::from(a.address) == addr));
        let ever: BTreeSet<String> = self.forwarded.iter().filter_map(|(i, _)| match &self.plan.cmds[*i].rt {
            RequestType::AddUdpFrontend(a) if SocketAddr::from(a.address) == addr => Some(a.cluster_id.clone()),
            _ => None,
        }).collect();
        let sig = if got.is_some() && active != Some(true) {
            format!("worker/udp_{}_listener_relays_datagrams", if active.is_none() { "removed_or_never_added" } else { "inactive" })
        } else {
            match (front_pos, self.last_listener_add(addr)) {
                (_, Some((_, "failure"))) => "worker/udp_route_mismatch/listener_add_answered_failure".to_owned(),
                (Some((_, "failure")), _) => "worker/udp_route_mismatch/frontend_add_answered_failure".to_owned(),
                (Some((fp, _)), Some((lp, _))) if fp < lp => "worker/udp_route_mismatch/frontend_older_than_listener".to_owned(),
                _ if ever.len() > 1 => "worker/udp_route_mismatch/listener_shared_by_several_clusters".to_owned(),
                _ => format!("worker/udp_route_mismatch/expected={}/got={}", if routable { "reply" } else { "no_reply" }, if got.is_some() { "reply" } else { "no_reply" }),
            }
        };
        self.out.v(&sig,
            format!("UDP listener :{} (view: {}): expected {}, got {:?}", addr.port(),
                match active { Some(true) => "active", Some(false) => "inactive", None => "absent" },
                if routable { format!("a reply from a backend of {clusters:?} {ports:?}") } else { "no reply".to_owned() }, got),
            json!({"listener": format!(":{}", addr.port()), "clusters_with_a_frontend_here": clusters, "backend_ports": ports, "got": got,
                "focus": {"ports": [addr.port()], "clusters": clusters},
                "commands_for_this_listener": self.listener_history(addr), "view": summary(&self.reference)}));
    }

    fn backend_ports(&self, cluster: &str) -> BTreeSet<u16> {
        self.reference.backends.get(cluster).map(|v| v.iter().map(|b| b.address.port()).collect()).unwrap_or_default()
    }

    fn route_probe(&mut self, https: bool, addr: SocketAddr, host: &str, prefix: &str, path: &str) {
        let (okey, sigp) = if https { ("https_route_probes", "worker/https_route_mismatch") } else { ("route_probes", "worker/route_mismatch") };
        let fronts = if https { &self.reference.https_fronts } else { &self.reference.http_fronts };
        // the frontend named by an Add / Remove order of this protocol
        let added = move |rt: &RequestType| -> Option<RequestHttpFrontend> {
            match rt {
                RequestType::AddHttpFrontend(f) if !https => Some(f.clone()),
                RequestType::AddHttpsFrontend(f) if https => Some(f.clone()),
                _ => None,
            }
        };
        let removed = move |rt: &RequestType| -> Option<RequestHttpFrontend> {
            match rt {
                RequestType::RemoveHttpFrontend(f) if !https => Some(f.clone()),
                RequestType::RemoveHttpsFrontend(f) if https => Some(f.clone()),
                _ => None,
            }
        };
        let same = move |f: &RequestHttpFrontend, p: &str| SocketAddr::from(f.address) == addr && f.hostname == host && f.path.value == p;
        // independent expectation: exact host, longest matching prefix, tree position, no method
        let on_host: Vec<_> = fronts.values().filter(|f| f.address == addr && f.hostname == host).cloned().collect();
        let in_model = |f: &sozu_command_lib::response::HttpFrontend| {
            f.position == RulePosition::Tree && f.method.is_none() && PathRuleKind::try_from(f.path.kind) == Ok(PathRuleKind::Prefix)
        };
        if on_host.iter().any(|f| !in_model(f)) {
            self.out.o(&format!("{okey}/exempt_frontend_outside_model"), 1);
            return;
        }
        let was_ever_added = self.forwarded.iter().any(|(i, _)| added(&self.plan.cmds[*i].rt).is_some_and(|f| same(&f, prefix)));
        let best = on_host.iter().filter(|f| path.starts_with(&f.path.value)).max_by_key(|f| f.path.value.len()).cloned();
        let present = on_host.iter().any(|f| f.path.value == prefix);
        if !present && !was_ever_added {
            return; // nothing to say about a frontend that never existed
        }
        let ask = |wait: Duration| if https { net::https_probe(addr, host, path, wait) } else { net::http_probe(addr, host, path, wait) };
        let mut got = ask(self.wait(3000));
        if matches!(got, Probe::Silent | Probe::NoVerdict(_)) {
            got = ask(self.wait(8000));
        }
        if matches!(got, Probe::Silent | Probe::NoVerdict(_)) {
            // no answer is no evidence (worker, backend or harness may be starved); a listener that
            // does not accept at all is judged by the listener probe, with the hooks
            self.out.o(&format!("{okey}/no_verdict"), 1);
            self.out.inconclusive.push(format!("route probe got no answer within the stretched wait ({})", got.class()));
            return;
        }
        self.out.o(okey, 1);
        // HTTPS: when no certificate of the view names the host, the default certificate is served
        // and a 421 (authority not covered) is a permitted answer too (C17 judges certificate choice)
        let covered = !https || self.reference.certificates.get(&addr).is_some_and(|m| {
            m.values().any(|c| c.names.iter().any(|n| n == host || n.strip_prefix("*.").is_some_and(|sfx| host.ends_with(sfx) && host.len() > sfx.len() + 1)))
        });
        if https {
            self.out.o(if covered { "https_route_probes/host_covered_by_a_certificate" } else { "https_route_probes/host_not_covered(421 accepted)" }, 1);
        }
        // acceptable outcomes
        let (want, exempt): (String, bool) = match &best {
            None => ("404".to_owned(), false),
            Some(f) => match &f.cluster_id {
                None => ("401".to_owned(), false),
                Some(c) => {
                    let ports = self.backend_ports(c);
                    let cluster_known = self.reference.clusters.contains_key(c);
                    if ports.is_empty() {
                        ("503".to_owned(), !cluster_known)
                    } else {
                        (format!("200 from a backend of {c} {ports:?}"), !cluster_known)
                    }
                }
            },
        };
        let ok = match (&best, &got) {
            (_, Probe::Http { status: 421, .. }) if !covered => true,
            (None, Probe::Http { status: 404, .. }) => true,
            (Some(f), Probe::Http { status, body, complete }) => match &f.cluster_id {
                None => *status == 401,
                Some(c) => {
                    let ports = self.backend_ports(c);
                    if ports.is_empty() {
                        *status == 503
                    } else {
                        (*status == 200 && *complete && ports.iter().any(|p| body == &format!("B{p}")))
                            // a frontend whose cluster was removed: the statement does not say; 503 is accepted too
                            || (!self.reference.clusters.contains_key(c) && *status == 503)
                    }
                }
            },
            _ => false,
        };
        if exempt {
            self.out.o(&format!("{okey}/cluster_removed_frontend_left(lenient)"), 1);
        }
        match (&best, present) {
            (None, _) => self.out.o(&format!("{okey}/expect_404_removed_frontend"), 1),
            (Some(f), _) if f.cluster_id.is_none() => self.out.o(&format!("{okey}/expect_401_deny"), 1),
            (Some(f), _) if self.backend_ports(f.cluster_id.as_deref().unwrap_or("")).is_empty() => self.out.o(&format!("{okey}/expect_503_no_backend"), 1),
            _ => self.out.o(&format!("{okey}/expect_backend"), 1),
        }
        if ok {
            self.out.o(&format!("{okey}/as_expected"), 1);
            if matches!(got, Probe::Http { status: 200, .. }) {
                self.out.o(&format!("{okey}/landed_on_backend_of_cluster"), 1);
            }
            return;
        }
        // cause hint: was the frontend's own Add answered FAILURE by the worker?
        let add_status = best.as_ref().and_then(|f| {
            self.forwarded.iter().rev().find_map(|(i, id)| match added(&self.plan.cmds[*i].rt) {
                Some(a) if same(&a, &f.path.value) => self.sent.get(id).and_then(|s| s.status).map(status_name),
                _ => None,
            })
        });
        let want_class = match &best {
            None => "404",
            Some(f) if f.cluster_id.is_none() => "401",
            Some(f) if self.backend_ports(f.cluster_id.as_deref().unwrap_or("")).is_empty() => "503",
            _ => "backend",
        };
        let got_class = match &got {
            Probe::Http { status: 200, body, .. } => format!("other_backend({})", if body.starts_with('B') { "tagged" } else { "untagged" }),
            p => p.class(),
        };
        let mut sig = format!("{sigp}/expected={want_class}/got={got_class}");
        let missing_backend = best.as_ref().and_then(|f| f.cluster_id.as_ref()).is_some_and(|c| self.clusters_missing_backends.contains(c));
        let front_pos = best.as_ref().and_then(|f| {
            self.last_forwarded(|rt| added(rt).is_some_and(|a| same(&a, &f.path.value)))
        });
        // a frontend of this host that the view no longer holds, whose Remove the worker refused:
        // the router may still serve it
        let remove_refused = plan::PREFIXES.iter().any(|p| {
            path.starts_with(p)
                && !on_host.iter().any(|f| f.path.value == *p)
                && self.last_forwarded(|rt| removed(rt).is_some_and(|a| same(&a, p))).is_some_and(|(_, st)| st == "failure")
        });
        let listener_pos = self.last_listener_add(addr);
        // name the class by its cause when the history shows one (the expected/got pair is in the witness)
        if add_status == Some("failure") {
            sig = format!("{sigp}/frontend_add_answered_failure");
        } else if matches!((front_pos, listener_pos), (Some((fp, _)), Some((lp, _))) if fp < lp) {
            sig = format!("{sigp}/frontend_older_than_listener");
        } else if missing_backend && want_class == "backend" {
            sig = format!("{sigp}/backend_missing_from_live_table");
        } else if remove_refused {
            sig = format!("{sigp}/frontend_remove_answered_failure");
        }
        self.out.v(&sig,
            format!("{} GET {path} Host: {host} on :{}: expected {want}, got {}", if https { "HTTPS" } else { "HTTP" }, addr.port(), got.short()),
            json!({"listener": format!(":{}", addr.port()), "host": host, "path": path, "expected": want, "got": got.short(),
                "matching_frontend_in_view": best.as_ref().map(|f| format!("{}{} -> {:?}", f.hostname, f.path.value, f.cluster_id)),
                "worker_answer_to_that_frontends_add": add_status,
                "focus": {"ports": [addr.port()], "clusters": best.as_ref().and_then(|f| f.cluster_id.clone()).into_iter().collect::<Vec<_>>()},
                "commands_for_this_listener": self.listener_history(addr),
                "view": summary(&self.reference)}));
    }

    fn tcp_route_probe(&mut self, addr: SocketAddr) {
        let clusters: Vec<String> = self.reference.tcp_fronts.iter().filter(|(_, v)| v.iter().any(|f| f.address == addr)).map(|(c, _)| c.clone()).collect();
        let ports: BTreeSet<u16> = clusters.iter().flat_map(|c| self.backend_ports(c)).collect();
        let mut got = liveness_probe(LK::Tcp, addr, self.wait(3000));
        if matches!(got, Probe::Silent | Probe::NoVerdict(_)) {
            got = liveness_probe(LK::Tcp, addr, self.wait(8000));
        }
        if matches!(got, Probe::Silent | Probe::NoVerdict(_)) {
            self.out.o("tcp_route_probes/no_verdict", 1);
            self.out.inconclusive.push(format!("TCP route probe got no answer within the stretched wait ({})", got.class()));
            return;
        }
        self.out.o("tcp_route_probes", 1);
        if clusters.len() > 1 {
            self.out.o("tcp_route_probes/several_clusters_on_one_listener(lenient)", 1);
        }
        let all_have_backends = !clusters.is_empty() && clusters.iter().all(|c| !self.backend_ports(c).is_empty());
        let ok = match &got {
            Probe::Http { status: 200, body, .. } => ports.iter().any(|p| body == &format!("B{p}")),
            Probe::Closed => !all_have_backends || clusters.len() > 1,
            _ => false,
        };
        if ok {
            self.out.o("tcp_route_probes/as_expected", 1);
            if matches!(got, Probe::Http { .. }) {
                self.out.o("tcp_route_probes/relayed_to_backend_of_cluster", 1);
            }
            return;
        }
        let want_class = if all_have_backends { "backend" } else { "closed" };
        let front_pos = self.last_forwarded(|rt| matches!(rt, RequestType::AddTcpFrontend(a) if SocketAddr::from(a.address) == addr));
        let missing_backend = clusters.iter().any(|c| self.clusters_missing_backends.contains(c));
        // clusters that were ever given a TCP frontend on this address (the state keeps one list per
        // cluster; the statement does not bound how many clusters may share a listener)
        let ever: BTreeSet<String> = self.forwarded.iter().filter_map(|(i, _)| match &self.plan.cmds[*i].rt {
            RequestType::AddTcpFrontend(a) if SocketAddr::from(a.address) == addr => Some(a.cluster_id.clone()),
            _ => None,
        }).collect();
        let sig = match (front_pos, self.last_listener_add(addr)) {
            (Some((_, "failure")), _) => "worker/tcp_route_mismatch/frontend_add_answered_failure".to_owned(),
            (Some((fp, _)), Some((lp, _))) if fp < lp => "worker/tcp_route_mismatch/frontend_older_than_listener".to_owned(),
            _ if missing_backend && all_have_backends => "worker/tcp_route_mismatch/backend_missing_from_live_table".to_owned(),
            _ if ever.len() > 1 => "worker/tcp_route_mismatch/listener_shared_by_several_clusters".to_owned(),
            _ => format!("worker/tcp_route_mismatch/expected={want_class}/got={}", got.class()),
        };
        self.out.v(&sig,
            format!("TCP listener :{}: expected a relay to a backend of {clusters:?} {ports:?} (or a close when there is none), got {}", addr.port(), got.short()),
            json!({"listener": format!(":{}", addr.port()), "clusters_with_a_frontend_here": clusters, "backend_ports": ports, "got": got.short(),
                "focus": {"ports": [addr.port()], "clusters": clusters},
                "commands_for_this_listener": self.listener_history(addr), "view": summary(&self.reference)}));
    }

    // ---- oracle 5: closing --------------------------------------------------------------------

    /// a routable (listener, host, path) for the in-flight request, from the reference
    fn slow_target(&self) -> Option<(SocketAddr, String, String, String)> {
        for f in self.reference.http_fronts.values() {
            let Some(c) = &f.cluster_id else { continue };
            if self.backend_ports(c).is_empty() || !self.reference.clusters.contains_key(c) {
                continue;
            }
            if !self.reference.http_listeners.get(&f.address).is_some_and(|l| l.active) {
                continue;
            }
            if f.position != RulePosition::Tree || f.method.is_some() || PathRuleKind::try_from(f.path.kind) != Ok(PathRuleKind::Prefix) {
                continue;
            }
            // the longest prefix on that host must be this one for "<prefix>/slow"
            let path = if f.path.value == "/" { "/slow".to_owned() } else { format!("{}/slow", f.path.value) };
            let longer = self.reference.http_fronts.values().any(|o| o.address == f.address && o.hostname == f.hostname && o.path.value.len() > f.path.value.len() && path.starts_with(&o.path.value));
            if longer {
                continue;
            }
            return Some((f.address, f.hostname.clone(), path, c.clone()));
        }
        None
    }

    fn closing(&mut self, backends: &net::Backends) {
        let soft = self.plan.closing != Closing::HardStop;
        // quiescence: no harness connection is open any more; let the worker notice
        let start = Instant::now();
        let mut slab_above_base_at_rest = false;
        loop {
            let _ = self.w.call(RequestType::Status(Status {}), self.wait(2000));
            let s = self.w.probe.snapshot();
            if (s.nb_connections == 0 && s.accept_queue_len == 0) || start.elapsed() > self.wait(3000) {
                if s.nb_connections == 0 {
                    if s.slab_len > s.base_sessions_count {
                        slab_above_base_at_rest = true;
                        self.out.o("quiescent_slab_above_base", 1);
                    } else if s.slab_len < s.base_sessions_count {
                        self.out.o("quiescent_slab_below_base", 1);
                    } else {
                        self.out.o("quiescent_slab_equals_base", 1);
                    }
                }
                break;
            }
            std::thread::sleep(Duration::from_millis(20));
        }
        if self.dead || !self.w.is_running() {
            if !self.dead {
                self.worker_died("quiescence wait");
            }
            return;
        }
        // optional request in flight when the soft stop arrives
        let mut inflight: Option<(std::net::TcpStream, SocketAddr, String, String)> = None;
        let mut inflight_focus = json!({"listeners": true});
        if soft && self.plan.inflight && !self.plan.raw {
            if let Some((addr, host, path, cluster)) = self.slow_target() {
                // only on a listener that was seen serving (a deaf listener is reported elsewhere)
                if matches!(net::http_probe(addr, &host, if path.starts_with("/api") { "/api/x" } else { "/zz" }, self.wait(1500)), Probe::Http { status: 200, .. }) {
                    let before = backends.slow_seen.load(Ordering::SeqCst);
                    if let Ok(mut s) = net::can_connect(addr) {
                        let _ = s.write_all(format!("GET {path} HTTP/1.1\r\nHost: {host}\r\n\r\n").as_bytes());
                        let t0 = Instant::now();
                        let patience = self.wait(1500);
                        while backends.slow_seen.load(Ordering::SeqCst) == before && t0.elapsed() < patience {
                            std::thread::sleep(Duration::from_millis(2));
                        }
                        if backends.slow_seen.load(Ordering::SeqCst) > before {
                            self.out.o("soft_stop/with_request_in_flight", 1);
                            inflight_focus = json!({"listeners": true, "ports": [addr.port()], "clusters": [cluster]});
                            inflight = Some((s, addr, host, path));
                        }
                    }
                }
            }
        }
        if self.plan.closing == Closing::ReturnThenSoftStop {
            match self.w.send(RequestType::ReturnListenSockets(ReturnListenSockets {})) {
                Ok(id) => {
                    self.out.commands_sent += 1;
                    self.out.o("verb/ReturnListenSockets/sent", 1);
                    self.sent.insert(id.clone(), Sent { idx: usize::MAX, verb: "ReturnListenSockets", status: None, message: String::new() });
                    self.collect(&[id]);
                    let fds = self.drain_scm();
                    self.out.o("scm_fds_received", fds as u64);
                    self.out.o("closing/return_listen_sockets_then_soft_stop", 1);
                }
                Err(_) => return self.worker_died("ReturnListenSockets"),
            }
            if self.dead {
                return;
            }
        }
        let stop_verb = if soft { "SoftStop" } else { "HardStop" };
        let events_before = self.w.probe.events().len();
        let stop_id = match self.w.send(plan::closing_rt(self.plan.closing)) {
            Ok(id) => id,
            Err(_) => return self.worker_died(stop_verb),
        };
        self.out.commands_sent += 1;
        self.out.o(&format!("verb/{stop_verb}/sent"), 1);
        self.sent.insert(stop_id.clone(), Sent { idx: usize::MAX, verb: stop_verb, status: None, message: String::new() });
        let sent_at = Instant::now();

        // Wait for the stop to resolve. Wall-clock never decides alone: "stuck" needs the event loop to
        // have completed many iterations after the stop was sent (hook H3) in a state where it should
        // have finished; a loop that does not advance means a starved box and gives no verdict.
        let iter_at_send = self.w.probe.snapshot().iteration;
        let deadline = Instant::now() + Duration::from_secs(45);
        let mut first_quiet_iter: Option<u64> = None;
        let mut stuck: Option<u64> = None; // iterations observed in the should-have-finished state
        let mut starved = false;
        let final_answer;
        loop {
            let r = self.w.wait_final(&stop_id, Duration::from_millis(150));
            if !self.w.is_running() {
                final_answer = r;
                break;
            }
            let sn = self.w.probe.snapshot();
            if soft {
                if sn.shutting_down && sn.nb_connections == 0 && sn.accept_queue_len == 0 {
                    let q = *first_quiet_iter.get_or_insert(sn.iteration);
                    if sn.iteration >= q + 30 {
                        stuck = Some(sn.iteration - q);
                    }
                } else {
                    first_quiet_iter = None;
                }
            } else if sn.iteration >= iter_at_send + 10 {
                stuck = Some(sn.iteration - iter_at_send);
            }
            if stuck.is_some() {
                final_answer = r;
                break;
            }
            if Instant::now() > deadline {
                starved = true;
                final_answer = r;
                break;
            }
        }
        let _ = slab_above_base_at_rest;
        let exited = !self.w.is_running() && self.w.join(Duration::from_secs(5));
        // the in-flight request: whatever the client can still read now (a worker that is gone
        // cannot send more; one that is stuck or starved is judged below, not here)
        let mut inflight_result: Option<Probe> = None;
        if let Some((mut s, _, _, _)) = inflight.take() {
            let p = net::read_response(&mut s, if exited { Duration::from_millis(500) } else { self.wait(net::SLOW_MS + 3000) });
            drop(s);
            inflight_result = Some(p);
        }
        // read whatever is left on the channel
        while let Ok(Some(_)) = self.w.recv(Duration::from_millis(50)) {}
        let upto = self.w.next_id().rsplit('-').next().and_then(|n| n.parse::<u64>().ok()).unwrap_or(0);

        let snap = self.w.probe.snapshot();
        let terminals: Vec<i32> = self.w.log.iter().filter(|r| r.id == stop_id && r.status != ResponseStatus::Processing as i32).map(|r| r.status).collect();
        let processing = self.w.log.iter().filter(|r| r.id == stop_id && r.status == ResponseStatus::Processing as i32).count() as u64;
        if processing > 0 {
            self.out.o(&format!("verb/{stop_verb}/processing"), processing);
        }
        for t in &terminals {
            self.out.o(&format!("verb/{stop_verb}/{}", status_name(*t)), 1);
        }
        let events: Vec<(&'static str, String)> = self.w.probe.events().iter().skip(events_before).map(|e| (e.kind, e.detail.clone())).collect();
        let kinds: Vec<&str> = self.w.probe.events().iter().map(|e| e.kind).filter(|k| *k != "accept").collect();
        let detail = json!({"focus": inflight_focus, "stop": stop_verb, "final_answers": terminals.iter().map(|s| status_name(*s)).collect::<Vec<_>>(), "processing_notices": processing,
            "thread_exited": exited, "ms_since_stop_sent": sent_at.elapsed().as_millis() as u64, "loop_iterations_since_stop_sent": snap.iteration.saturating_sub(iter_at_send),
            "snapshot": {"nb_connections": snap.nb_connections, "slab_len": snap.slab_len, "base_sessions_count": snap.base_sessions_count,
                "accept_queue_len": snap.accept_queue_len, "shutting_down": snap.shutting_down},
            "events_after_stop": events.iter().map(|(k, d)| format!("{k} {d}")).collect::<Vec<_>>(),
            "inflight_request": inflight_result.as_ref().map(|p| p.short())});

        if !exited && starved {
            self.out.inconclusive.push(format!("{stop_verb}: unresolved after 45 s while the event loop advanced by only {} iterations (starved)", snap.iteration.saturating_sub(iter_at_send)));
        } else if !exited && self.w.is_running() {
            let n = stuck.unwrap_or(0);
            if soft {
                let which = if snap.slab_len > snap.base_sessions_count { "slab_above_base" } else { "other" };
                self.out.v(&format!("worker/soft_stop_never_completes/{which}"),
                    format!("SoftStop: the event loop completed {n} iterations with shutting_down set, no session left (nb_connections=0, accept queue empty) and still neither acknowledged nor exited: slab_len={} base_sessions_count={}", snap.slab_len, snap.base_sessions_count),
                    detail.clone());
            } else {
                self.out.v("worker/hard_stop_does_not_exit", format!("HardStop: the event loop completed {n} iterations after the HardStop was written and the worker is still running"), detail.clone());
            }
        } else if !exited {
            self.worker_died(stop_verb);
        } else {
            // exited: exactly one final OK
            let panics = self.w.panics();
            if !panics.is_empty() {
                for p in panics {
                    if p.in_sozu() {
                        self.out.v(&p.signature(), format!("worker thread panicked during {stop_verb}: {} at {}", p.message, p.location),
                            json!({"panic": p.message, "location": p.location, "during": stop_verb}));
                    } else {
                        self.out.broken.push(format!("worker thread panicked outside sozu: {} at {}", p.message, p.location));
                    }
                }
                self.dead = true;
            } else {
                self.out.o(&format!("closing/{stop_verb}/exited"), 1);
                let oks = terminals.iter().filter(|s| **s == ResponseStatus::Ok as i32).count();
                if terminals.len() != 1 || oks != 1 {
                    let class = if terminals.is_empty() { "no_final_answer" } else if terminals.len() > 1 { "multiple_final_answers" } else { "final_answer_not_ok" };
                    self.out.v(&format!("exactly_once/{stop_verb}/{class}"), format!("{stop_verb}: expected exactly one final OK, got {:?}", terminals.iter().map(|s| status_name(*s)).collect::<Vec<_>>()), detail.clone());
                }
                let _ = final_answer;
                if soft {
                    let acks = kinds.iter().filter(|k| **k == "soft_stop_ack").count();
                    let exits = kinds.iter().filter(|k| **k == "exit").count();
                    self.out.o("closing/soft_stop_event_logs_checked", 1);
                    if acks != 1 || exits != 1 || kinds.last() != Some(&"exit") {
                        self.out.v("worker/soft_stop_event_order", format!("expected exactly one soft_stop_ack then exit, saw {kinds:?}"), detail.clone());
                    }
                    let all = self.w.probe.events();
                    if let Some(p) = all.iter().position(|e| e.kind == "soft_stop_ack") {
                        if all[p..].iter().any(|e| e.kind == "accept") {
                            self.out.v("worker/accept_after_soft_stop_ack", "a connection was accepted after the soft stop was acknowledged".to_owned(), detail.clone());
                        }
                    }
                    if let Some(p) = &inflight_result {
                        match p {
                            Probe::Http { status: 200, complete: true, .. } => self.out.o("soft_stop/inflight_request_completed", 1),
                            other => {
                                let which = if snap.slab_len < snap.base_sessions_count || self.out.obs.contains_key("quiescent_slab_below_base") { "slab_below_base" } else { "other" };
                                self.out.v(&format!("worker/soft_stop_completes_with_request_in_flight/{which}"),
                                    format!("the worker acknowledged the soft stop and exited while a request was being served: the client got {} instead of the backend's 200", other.short()),
                                    detail.clone());
                            }
                        }
                    }
                }
            }
        }
        self.account(upto, Some(&stop_id));
    }
}

pub fn run_plan(plan: &Plan) -> Outcome {
    let cell = plan.cell;
    let backend_addrs: Vec<SocketAddr> = BACKEND_PORTS.iter().map(|p| cell.a(*p)).collect();
    let mut backends = match net::start_backends(&backend_addrs) {
        Ok(b) => b,
        Err(e) => {
            let mut out = Outcome::default();
            out.inconclusive.push(format!("could not start the scripted backends: {e}"));
            return out;
        }
    };
    // sozu's own timers are kept far above every wait of the probes, so that none of them can fire
    // on a starved box and turn into an answer (503/504/408) the oracles would misread
    let mut opts = WorkerOpts { front_timeout: 120, back_timeout: 120, connect_timeout: 60, request_timeout: 120, ..WorkerOpts::default() };
    if plan.small_buffers {
        opts.command_buffer_size = 65_536;
        opts.max_command_buffer_size = 131_072;
    }
    let w = Worker::start(opts);
    let mut run = Run { plan, w, out: Outcome::default(), reference: ConfigState::new(), sent: HashMap::new(), forwarded: Vec::new(), prev_dump: None, dead: false, clusters_missing_backends: BTreeSet::new(), padded: HashMap::new(), base: Duration::from_millis(1), refused_while_occupied: BTreeSet::new() };
    run.out.o(if plan.raw { "sequences/raw" } else { "sequences/master_filtered" }, 1);
    run.out.o(if plan.burst { "sequences/bursts" } else { "sequences/one_at_a_time" }, 1);
    if plan.small_buffers {
        run.out.o("sequences/small_command_buffers", 1);
    }
    for p in &plan.patterns {
        run.out.o(&format!("pattern/{p}"), 1);
    }
    // baseline of this cell: the median of three Status round trips
    let mut rtts: Vec<Duration> = (0..3).filter_map(|_| {
        let t = Instant::now();
        run.w.call(RequestType::Status(Status {}), Duration::from_secs(20)).ok().map(|_| t.elapsed())
    }).collect();
    rtts.sort();
    match rtts.get(rtts.len() / 2) {
        Some(m) if rtts.len() == 3 => run.base = (*m).max(Duration::from_micros(100)),
        _ => {
            run.out.inconclusive.push("the worker did not answer the baseline Status requests within 20 s".to_owned());
            run.dead = true;
        }
    }
    let m = run.out.obs.entry("max:baseline_status_rtt_us".to_owned()).or_insert(0);
    *m = (*m).max(run.base.as_micros() as u64);
    if plan.c07 && !run.dead {
        run.prev_dump = run.w.dump_state(Duration::from_secs(3));
    }
    let mut traffic = if plan.traffic {
        run.out.o("sequences/with_interleaved_traffic", 1);
        Some(net::Traffic::start(HTTP_PORTS.iter().map(|p| cell.a(*p)).collect(), HOSTS.iter().map(|h| (*h).to_owned()).collect()))
    } else {
        None
    };
    run.run_commands();
    if let Some(t) = traffic.as_mut() {
        t.stop();
        run.out.o("traffic/answered", t.answered.load(Ordering::SeqCst));
        run.out.o("traffic/refused", t.refused.load(Ordering::SeqCst));
        run.out.o("traffic/other", t.other.load(Ordering::SeqCst));
    }
    if !run.dead && run.w.is_running() && run.barrier() {
        let fds = run.drain_scm();
        run.out.o("scm_fds_received", fds as u64);
        if !plan.raw {
            run.converge();
            if !run.dead && run.w.is_running() {
                run.behaviour(&backends);
            }
        }
        if !run.dead && run.w.is_running() {
            run.closing(&backends);
        }
    } else if !run.dead && !run.w.is_running() {
        run.worker_died("command sequence");
    }
    if run.dead {
        // account for what can still be accounted (no barrier: only duplicates and unknown ids are meaningful)
        run.out.o("sequences/aborted", 1);
    }
    let Run { w, mut out, forwarded, .. } = run;
    out.forwarded_idx = forwarded.iter().map(|(i, _)| *i).collect();
    for p in w.stop() {
        if p.in_sozu() {
            out.v(&p.signature(), format!("worker thread panicked: {} at {}", p.message, p.location), json!({"panic": p.message, "location": p.location}));
        } else {
            out.broken.push(format!("worker thread panicked outside sozu: {} at {}", p.message, p.location));
        }
    }
    backends.stop();
    out.o("backend_requests_served", backends.requests.load(Ordering::SeqCst));
    out
}
