//! Scripted peers of the C08 lab: tagging backends, HTTP/TCP probes, background traffic.

use std::{
    io::{Read, Write},
    net::{SocketAddr, TcpStream},
    sync::{
        Arc,
        atomic::{AtomicBool, AtomicU64, Ordering},
    },
    thread::JoinHandle,
    time::{Duration, Instant},
};

use crate::peers::{self, IoProgram, tls::{self, TlsClient}};

/// what a probe connection saw
#[derive(Clone, Debug, PartialEq, Eq)]
pub enum Probe {
    /// connect() refused / failed
    Refused(String),
    /// connected, request written, then neither a byte nor EOF until the deadline
    Silent,
    /// connected, peer closed without sending anything
    Closed,
    /// an HTTP response head was read
    Http { status: u16, body: String, complete: bool },
    /// bytes that are not an HTTP response
    Bytes(usize),
    /// TCP connected but the TLS handshake failed with an error (not a timeout)
    TlsFailed(String),
    /// connect() neither succeeded nor was refused (timeout, no descriptor, ...): says nothing
    /// about the worker
    NoVerdict(String),
}

impl Probe {
    pub fn short(&self) -> String {
        match self {
            Probe::Refused(_) => "refused".into(),
            Probe::Silent => "silent".into(),
            Probe::Closed => "closed".into(),
            Probe::Http { status, body, complete } => {
                format!("http {status} body={body:?}{}", if *complete { "" } else { " (incomplete)" })
            }
            Probe::Bytes(n) => format!("{n} non-http bytes"),
            Probe::TlsFailed(e) => format!("tls handshake failed: {e}"),
            Probe::NoVerdict(e) => format!("connect gave no verdict: {e}"),
        }
    }
    pub fn class(&self) -> String {
        match self {
            Probe::Refused(_) => "refused".into(),
            Probe::Silent => "silent".into(),
            Probe::Closed => "closed".into(),
            Probe::Http { status, .. } => format!("{status}"),
            Probe::Bytes(_) => "bytes".into(),
            Probe::TlsFailed(_) => "tls_failed".into(),
            Probe::NoVerdict(_) => "no_verdict".into(),
        }
    }
}

/// connect(): only ECONNREFUSED is a refusal (a fact about the address); every other failure
/// (timeout on a starved box, descriptor shortage) is `NoVerdict`
pub fn can_connect(addr: SocketAddr) -> Result<TcpStream, Probe> {
    peers::connect(addr, None, &IoProgram::fast(), Duration::from_secs(10)).map_err(|e| {
        if e.kind() == std::io::ErrorKind::ConnectionRefused {
            Probe::Refused(format!("{e}"))
        } else {
            Probe::NoVerdict(format!("{e}"))
        }
    })
}

/// Does a LISTEN socket bound to `addr` belong to this process? (/proc/net/tcp inode looked up in
/// /proc/self/fd). None when it cannot be told.
pub fn listen_socket_is_ours(addr: SocketAddr) -> Option<bool> {
    let SocketAddr::V4(v4) = addr else { return None };
    let o = v4.ip().octets();
    let key = format!("{:02X}{:02X}{:02X}{:02X}:{:04X}", o[3], o[2], o[1], o[0], v4.port());
    let table = std::fs::read_to_string("/proc/net/tcp").ok()?;
    let mut inodes = Vec::new();
    for line in table.lines().skip(1) {
        let f: Vec<&str> = line.split_whitespace().collect();
        if f.len() > 9 && f[1] == key && f[3] == "0A" {
            inodes.push(f[9].to_owned());
        }
    }
    if inodes.is_empty() {
        return None;
    }
    let dir = std::fs::read_dir("/proc/self/fd").ok()?;
    for e in dir.flatten() {
        if let Ok(t) = std::fs::read_link(e.path()) {
            let t = t.to_string_lossy().into_owned();
            if inodes.iter().any(|i| t == format!("socket:[{i}]")) {
                return Some(true);
            }
        }
    }
    Some(false)
}

fn find(hay: &[u8], needle: &[u8]) -> Option<usize> {
    hay.windows(needle.len()).position(|w| w == needle)
}

/// a byte stream whose read timeout can be set
pub trait TimedRead: Read {
    fn set_wait(&mut self, d: Duration);
}

impl TimedRead for TcpStream {
    fn set_wait(&mut self, d: Duration) {
        let _ = self.set_read_timeout(Some(d.max(Duration::from_millis(1))));
    }
}

impl TimedRead for TlsClient {
    fn set_wait(&mut self, d: Duration) {
        self.set_timeouts(d, Duration::from_secs(2));
    }
}

/// read one HTTP response (Content-Length framed or until close) within `wait`
pub fn read_response<S: TimedRead>(stream: &mut S, wait: Duration) -> Probe {
    let deadline = Instant::now() + wait;
    let mut buf: Vec<u8> = Vec::new();
    let mut tmp = [0u8; 4096];
    let mut head_end: Option<usize> = None;
    let mut content_length: Option<usize> = None;
    let mut eof = false;
    loop {
        if let Some(he) = head_end {
            match content_length {
                Some(cl) if buf.len() >= he + cl => break,
                None if eof => break,
                _ => {}
            }
        }
        if eof {
            break;
        }
        let left = deadline.saturating_duration_since(Instant::now());
        if left.is_zero() {
            break;
        }
        // without a Content-Length the body ends at close: do not wait long for it
        let slice = if head_end.is_some() && content_length.is_none() {
            left.min(Duration::from_millis(150))
        } else {
            left
        };
        stream.set_wait(slice);
        match stream.read(&mut tmp) {
            Ok(0) => eof = true,
            Ok(n) => {
                buf.extend_from_slice(&tmp[..n]);
                if head_end.is_none() {
                    if let Some(p) = find(&buf, b"\r\n\r\n") {
                        head_end = Some(p + 4);
                        let head = String::from_utf8_lossy(&buf[..p]).to_ascii_lowercase();
                        for line in head.split("\r\n") {
                            if let Some(v) = line.strip_prefix("content-length:") {
                                content_length = v.trim().parse().ok();
                            }
                        }
                    }
                }
            }
            Err(e) if e.kind() == std::io::ErrorKind::Interrupted => {}
            Err(e) if e.kind() == std::io::ErrorKind::WouldBlock || e.kind() == std::io::ErrorKind::TimedOut => {
                if head_end.is_some() && content_length.is_none() {
                    break;
                }
            }
            Err(_) => eof = true, // reset: treat like a close
        }
    }
    if buf.is_empty() {
        return if eof { Probe::Closed } else { Probe::Silent };
    }
    let Some(he) = head_end else {
        return Probe::Bytes(buf.len());
    };
    let head = String::from_utf8_lossy(&buf[..he]).into_owned();
    let mut parts = head.split(' ');
    let version = parts.next().unwrap_or("");
    let status: Option<u16> = parts.next().and_then(|s| s.trim().parse().ok());
    match (version.starts_with("HTTP/1."), status) {
        (true, Some(status)) => {
            let body = &buf[he..];
            let complete = match content_length {
                Some(cl) => body.len() >= cl,
                None => true,
            };
            Probe::Http { status, body: String::from_utf8_lossy(&body[..body.len().min(64)]).into_owned(), complete }
        }
        _ => Probe::Bytes(buf.len()),
    }
}

/// Is a UDP socket bound to `addr` owned by this process? (/proc/net/udp inode looked up in
/// /proc/self/fd). None when no socket is bound there or it cannot be told.
pub fn udp_socket_is_ours(addr: SocketAddr) -> Option<bool> {
    let SocketAddr::V4(v4) = addr else { return None };
    let o = v4.ip().octets();
    let key = format!("{:02X}{:02X}{:02X}{:02X}:{:04X}", o[3], o[2], o[1], o[0], v4.port());
    let table = std::fs::read_to_string("/proc/net/udp").ok()?;
    let inodes: Vec<String> = table.lines().skip(1).filter_map(|line| {
        let f: Vec<&str> = line.split_whitespace().collect();
        (f.len() > 9 && f[1] == key).then(|| f[9].to_owned())
    }).collect();
    if inodes.is_empty() {
        return None;
    }
    let dir = std::fs::read_dir("/proc/self/fd").ok()?;
    for e in dir.flatten() {
        if let Ok(t) = std::fs::read_link(e.path()) {
            let t = t.to_string_lossy().into_owned();
            if inodes.iter().any(|i| t == format!("socket:[{i}]")) {
                return Some(true);
            }
        }
    }
    Some(false)
}

/// connect, send one GET, read the answer
pub fn http_probe(addr: SocketAddr, host: &str, path: &str, wait: Duration) -> Probe {
    let mut s = match can_connect(addr) {
        Ok(s) => s,
        Err(p) => return p,
    };
    let req = format!("GET {path} HTTP/1.1\r\nHost: {host}\r\nConnection: close\r\n\r\n");
    if s.write_all(req.as_bytes()).is_err() {
        return Probe::Closed;
    }
    read_response(&mut s, wait)
}

/// connect, TLS handshake with `host` as SNI (any certificate accepted), one GET over HTTP/1.1
pub fn https_probe(addr: SocketAddr, host: &str, path: &str, wait: Duration) -> Probe {
    let s = match can_connect(addr) {
        Ok(s) => s,
        Err(p) => return p,
    };
    let (mut t, _info) = match TlsClient::handshake(s, host, tls::client_config(&["http/1.1"]), wait) {
        Ok(x) => x,
        Err(e) => {
            return match e.kind() {
                std::io::ErrorKind::WouldBlock | std::io::ErrorKind::TimedOut => Probe::Silent,
                std::io::ErrorKind::UnexpectedEof | std::io::ErrorKind::ConnectionReset | std::io::ErrorKind::BrokenPipe => Probe::Closed,
                _ => Probe::TlsFailed(format!("{e}")),
            };
        }
    };
    let req = format!("GET {path} HTTP/1.1\r\nHost: {host}\r\nConnection: close\r\n\r\n");
    if t.write_all(req.as_bytes()).is_err() {
        return Probe::Closed;
    }
    read_response(&mut t, wait)
}

/// one datagram to `addr`, the reply (if any) within `wait`
pub fn udp_probe(addr: SocketAddr, wait: Duration) -> Option<String> {
    let sock = std::net::UdpSocket::bind(SocketAddr::new(addr.ip(), 0)).ok()?;
    sock.connect(addr).ok()?;
    let _ = sock.set_read_timeout(Some(wait.max(Duration::from_millis(1))));
    sock.send(b"c08-probe").ok()?;
    let mut buf = [0u8; 256];
    match sock.recv(&mut buf) {
        Ok(n) => Some(String::from_utf8_lossy(&buf[..n]).into_owned()),
        Err(_) => None,
    }
}

/// backends answer every request with 200 and the body `B<port>`; a target containing "slow"
/// is answered after `SLOW_MS`
pub const SLOW_MS: u64 = 700;

/// a blocking-accept backend (no polling: hundreds of them run at once)
pub struct TagBackend {
    addr: SocketAddr,
    stop: Arc<AtomicBool>,
    thread: Option<JoinHandle<()>>,
}

impl TagBackend {
    pub fn stop(&mut self) {
        self.stop.store(true, Ordering::SeqCst);
        // wake the accept() up; when that fails (no descriptor left) the thread is left behind
        // rather than joined forever
        let woken = TcpStream::connect_timeout(&self.addr, Duration::from_millis(1000)).is_ok();
        if let Some(t) = self.thread.take() {
            if woken {
                let _ = t.join();
            }
        }
    }
}

impl Drop for TagBackend {
    fn drop(&mut self) {
        self.stop();
    }
}

pub struct Backends {
    pub servers: Vec<TagBackend>,
    /// UDP twins on the same ports: answer every datagram with `U<port>`
    udp_stop: Arc<AtomicBool>,
    udp_threads: Vec<JoinHandle<()>>,
    /// datagrams received by the UDP twins
    pub udp_received: Arc<AtomicU64>,
    pub slow_seen: Arc<AtomicU64>,
    pub requests: Arc<AtomicU64>,
}

fn serve(mut s: TcpStream, port: u16, slow: Arc<AtomicU64>, reqs: Arc<AtomicU64>) {
    let mut buf: Vec<u8> = Vec::new();
    let mut tmp = [0u8; 4096];
    let _ = s.set_read_timeout(Some(Duration::from_secs(20)));
    let _ = s.set_nodelay(true);
    loop {
        let n = match s.read(&mut tmp) {
            Ok(0) | Err(_) => return,
            Ok(n) => n,
        };
        buf.extend_from_slice(&tmp[..n]);
        while let Some(p) = find(&buf, b"\r\n\r\n") {
            let head = String::from_utf8_lossy(&buf[..p]).into_owned();
            buf.drain(..p + 4);
            reqs.fetch_add(1, Ordering::SeqCst);
            let first = head.lines().find(|l| l.starts_with("GET ") || l.starts_with("HEAD ")).unwrap_or("");
            if first.contains("slow") {
                slow.fetch_add(1, Ordering::SeqCst);
                std::thread::sleep(Duration::from_millis(SLOW_MS));
            }
            let body = format!("B{port}");
            let resp = format!("HTTP/1.1 200 OK\r\nContent-Length: {}\r\n\r\n{}", body.len(), body);
            if s.write_all(resp.as_bytes()).is_err() {
                return;
            }
        }
    }
}

pub fn start_backends(addrs: &[SocketAddr]) -> Result<Backends, String> {
    let slow_seen = Arc::new(AtomicU64::new(0));
    let requests = Arc::new(AtomicU64::new(0));
    let mut servers = Vec::new();
    for addr in addrs {
        let port = addr.port();
        let sock = socket2::Socket::new(socket2::Domain::IPV4, socket2::Type::STREAM, Some(socket2::Protocol::TCP)).map_err(|e| format!("{e}"))?;
        sock.set_reuse_address(true).map_err(|e| format!("{e}"))?;
        sock.bind(&(*addr).into()).map_err(|e| format!("backend {addr}: {e}"))?;
        sock.listen(256).map_err(|e| format!("{e}"))?;
        let listener: std::net::TcpListener = sock.into();
        let stop = Arc::new(AtomicBool::new(false));
        let (st, slow, reqs) = (stop.clone(), slow_seen.clone(), requests.clone());
        let thread = std::thread::Builder::new()
            .name(format!("c08-backend-{port}"))
            .spawn(move || {
                loop {
                    match listener.accept() {
                        Ok((stream, _)) => {
                            if st.load(Ordering::SeqCst) {
                                return;
                            }
                            let (slow, reqs) = (slow.clone(), reqs.clone());
                            let _ = std::thread::Builder::new().name(format!("c08-backend-conn-{port}")).spawn(move || serve(stream, port, slow, reqs));
                        }
                        Err(_) => {
                            if st.load(Ordering::SeqCst) {
                                return;
                            }
                            std::thread::sleep(Duration::from_millis(5));
                        }
                    }
                }
            })
            .map_err(|e| format!("{e}"))?;
        servers.push(TagBackend { addr: *addr, stop, thread: Some(thread) });
    }
    let udp_stop = Arc::new(AtomicBool::new(false));
    let udp_received = Arc::new(AtomicU64::new(0));
    let mut udp_threads = Vec::new();
    for addr in addrs {
        let sock = std::net::UdpSocket::bind(addr).map_err(|e| format!("udp backend {addr}: {e}"))?;
        let _ = sock.set_read_timeout(Some(Duration::from_millis(100)));
        let (st, port, seen) = (udp_stop.clone(), addr.port(), udp_received.clone());
        if let Ok(t) = std::thread::Builder::new().name(format!("c08-udp-backend-{port}")).spawn(move || {
            let mut buf = [0u8; 2048];
            while !st.load(Ordering::SeqCst) {
                if let Ok((_, from)) = sock.recv_from(&mut buf) {
                    seen.fetch_add(1, Ordering::SeqCst);
                    let _ = sock.send_to(format!("U{port}").as_bytes(), from);
                }
            }
        }) {
            udp_threads.push(t);
        }
    }
    Ok(Backends { servers, slow_seen, requests, udp_stop, udp_threads, udp_received })
}

impl Backends {
    pub fn stop(&mut self) {
        for s in self.servers.iter_mut() {
            s.stop();
        }
        self.udp_stop.store(true, Ordering::SeqCst);
        for t in self.udp_threads.drain(..) {
            let _ = t.join();
        }
    }
}

/// background HTTP clients hitting the given addresses until stopped
pub struct Traffic {
    stop: Arc<AtomicBool>,
    pub answered: Arc<AtomicU64>,
    pub refused: Arc<AtomicU64>,
    pub other: Arc<AtomicU64>,
    thread: Option<JoinHandle<()>>,
}

impl Traffic {
    pub fn start(addrs: Vec<SocketAddr>, hosts: Vec<String>) -> Traffic {
        let stop = Arc::new(AtomicBool::new(false));
        let answered = Arc::new(AtomicU64::new(0));
        let refused = Arc::new(AtomicU64::new(0));
        let other = Arc::new(AtomicU64::new(0));
        let (s, a, r, o) = (stop.clone(), answered.clone(), refused.clone(), other.clone());
        let thread = std::thread::Builder::new()
            .name("c08-traffic".into())
            .spawn(move || {
                let mut i = 0usize;
                while !s.load(Ordering::SeqCst) {
                    let addr = addrs[i % addrs.len()];
                    let host = &hosts[(i / addrs.len()) % hosts.len()];
                    let path = if i % 3 == 0 { "/api/t" } else { "/t" };
                    i += 1;
                    match http_probe(addr, host, path, Duration::from_millis(400)) {
                        Probe::Http { .. } => a.fetch_add(1, Ordering::SeqCst),
                        Probe::Refused(_) => r.fetch_add(1, Ordering::SeqCst),
                        _ => o.fetch_add(1, Ordering::SeqCst),
                    };
                    std::thread::sleep(Duration::from_millis(2));
                }
            })
            .ok();
        Traffic { stop, answered, refused, other, thread }
    }
    pub fn stop(&mut self) {
        self.stop.store(true, Ordering::SeqCst);
        if let Some(t) = self.thread.take() {
            let _ = t.join();
        }
    }
}

impl Drop for Traffic {
    fn drop(&mut self) {
        self.stop();
    }
}
