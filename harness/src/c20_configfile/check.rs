//! C20 — "declared == loaded": the ConfigState compared, field by field, with the model and with
//! the defaults doc/configure.md / doc/health_checks.md / bin/config.toml document.
//!
//! Rules: a field the model sets must hold exactly that value; a field the model leaves unset is
//! compared with the documented default when there is one (for `optional` wire fields "absent"
//! is accepted too: absent means "use the compile-time default" per the documentation), and is
//! not judged at all when the documentation states none (counted as exempt).

use std::{
    collections::{BTreeMap, BTreeSet, HashMap},
    net::SocketAddr,
};

use serde_json::{Value, json};
use sozu_command_lib::{
    proto::command::{PathRuleKind, RulePosition, SocketAddress},
    response::HttpFrontend,
    state::ConfigState,
};

use super::{generate::*, model::*};

#[derive(Debug, Clone)]
pub struct Finding {
    pub sig: String,
    pub what: String,
}

#[derive(Default)]
pub struct Tally {
    pub counts: BTreeMap<String, u64>,
    pub findings: Vec<Finding>,
}

impl Tally {
    pub fn obs(&mut self, k: &str, n: u64) {
        *self.counts.entry(k.to_owned()).or_insert(0) += n;
    }
    fn fail(&mut self, sig: String, what: String) {
        if self.findings.len() < 40 {
            self.findings.push(Finding { sig, what });
        }
    }

    /// `model` set => equality; unset => documented default (or absent when `absent_ok`), or exempt
    fn field(&mut self, obj: &str, key: &str, got: &Value, model: Option<Value>, default: Option<Value>, absent_ok: bool, id: &str) {
        match (model, default) {
            (Some(want), _) => {
                self.obs(&format!("opt_present.{obj}.{key}"), 1);
                self.obs("set_field_comparisons", 1);
                if !json_eq(got, &want) {
                    self.fail(
                        format!("state/{obj}_field_altered/{key}"),
                        format!("{obj} {id}: the file sets {key} = {want}, the loaded state holds {got}"),
                    );
                }
            }
            (None, Some(d)) => {
                self.obs(&format!("opt_absent.{obj}.{key}"), 1);
                self.obs("default_comparisons", 1);
                self.obs(&format!("default_checked.{obj}.{key}"), 1);
                if !(json_eq(got, &d) || (absent_ok && got.is_null())) {
                    self.fail(
                        format!("default/{obj}/{key}"),
                        format!("{obj} {id}: {key} is not set in the file, the documented default is {d}, the loaded state holds {got}"),
                    );
                }
            }
            (None, None) => {
                self.obs(&format!("opt_absent.{obj}.{key}"), 1);
                self.obs(&format!("exempt.{obj}.{key}"), 1);
                self.obs("exempt_comparisons", 1);
            }
        }
    }
}

fn json_eq(a: &Value, b: &Value) -> bool {
    match (a, b) {
        (Value::Number(x), Value::Number(y)) => x.as_f64() == y.as_f64(),
        _ => a == b,
    }
}

fn enum_int(names: &[&str], v: &str) -> Value {
    names.iter().position(|n| *n == v).map(|i| json!(i)).unwrap_or(Value::Null)
}

fn addr_json(a: &str) -> Value {
    match a.parse::<SocketAddr>() {
        Ok(sa) => serde_json::to_value(SocketAddress::from(sa)).unwrap_or(Value::Null),
        Err(_) => Value::Null,
    }
}

fn tls_int(v: &str) -> i64 {
    match v {
        "SSL_V2" => 0,
        "SSL_V3" => 1,
        "TLS_V10" => 2,
        "TLS_V11" => 3,
        "TLS_V12" => 4,
        _ => 5,
    }
}

fn hsts_check(t: &mut Tally, obj: &str, id: &str, got: &Value, h: &Hsts) {
    t.obs(&format!("opt_present.{obj}.hsts"), 1);
    if got.is_null() {
        t.fail(format!("state/{obj}_hsts_dropped"), format!("{obj} {id}: the file declares an [hsts] block ({}), the loaded state has none", h.json()));
        return;
    }
    t.field(obj, "hsts.enabled", &got["enabled"], h.enabled.map(|b| json!(b)), None, false, id);
    let max_age_default = if h.enabled == Some(true) { Some(json!(31_536_000u32)) } else { None };
    t.field(obj, "hsts.max_age", &got["max_age"], h.max_age.map(|n| json!(n)), max_age_default, false, id);
    t.field(obj, "hsts.include_subdomains", &got["include_subdomains"], h.include_subdomains.map(|b| json!(b)), Some(json!(false)), true, id);
    t.field(obj, "hsts.preload", &got["preload"], h.preload.map(|b| json!(b)), Some(json!(false)), true, id);
    t.field(obj, "hsts.force_replace_backend", &got["force_replace_backend"], h.force_replace_backend.map(|b| json!(b)), Some(json!(false)), true, id);
}

fn answers_check(t: &mut Tally, obj: &str, id: &str, got: &Value, want: &BTreeMap<String, Answer>, legacy: &[(u16, String, String)]) {
    for (code, a) in want {
        t.field(obj, "answers", &got[code], Some(json!(a.body)), None, false, id);
    }
    for (code, _, content) in legacy {
        // "they are merged into the new map at load time"
        t.field(obj, "answer_NNN", &got[code.to_string()], Some(json!(content)), None, false, id);
    }
}

pub struct Expect<'a> {
    pub model: &'a Model,
}

fn glob_u64(m: &Model, k: &str) -> Option<u64> {
    m.global.get(k).and_then(|v| v.as_u64())
}

pub fn compare(ex: &Expect, st: &ConfigState, t: &mut Tally) {
    let m = ex.model;
    let activate = m.global.get("activate_listeners").and_then(|v| v.as_bool());
    let want_active = activate.unwrap_or(true); // "by default, all listeners start a TCP listen socket on startup"
    let buffer_size = glob_u64(m, "buffer_size").unwrap_or(16_393);
    let pool = cert_pool();

    // ---------------------------------------------------------------- listeners
    let mut proto_of: BTreeMap<SocketAddr, LProto> = BTreeMap::new();
    let mut listener_cert: BTreeMap<SocketAddr, usize> = BTreeMap::new();
    // frontends on an address no `[[listeners]]` entry declares: when the loader accepts them it
    // creates a default listener; that listener is judged like a declared one with every option
    // unset (documented defaults, activation, and every listener-level validation rule)
    let implicit = implicit_listeners(m);
    let synthesized: Vec<Listener> = implicit.iter().map(|(a, p)| Listener::new(*p, *a)).collect();
    if !implicit.is_empty() {
        t.obs("files_with_implicit_listeners", 1);
        t.obs("frontends_without_declared_listener", implicit.len() as u64);
    }
    for (li, l) in m.listeners.iter().chain(synthesized.iter()).enumerate() {
        let is_implicit = li >= m.listeners.len();
        proto_of.insert(l.addr, l.proto);
        let obj = match l.proto {
            LProto::Http => "http_listener",
            LProto::Https => "https_listener",
            LProto::Tcp => "tcp_listener",
            LProto::Udp => "udp_listener",
        };
        t.obs(&format!("objects.{obj}"), 1);
        t.obs(if l.addr.is_ipv6() { "listener_ipv6" } else { "listener_ipv4" }, 1);
        let id = l.addr.to_string();
        let got: Option<Value> = match l.proto {
            LProto::Http => st.http_listeners.get(&l.addr).and_then(|x| serde_json::to_value(x).ok()),
            LProto::Https => st.https_listeners.get(&l.addr).and_then(|x| serde_json::to_value(x).ok()),
            LProto::Tcp => st.tcp_listeners.get(&l.addr).and_then(|x| serde_json::to_value(x).ok()),
            LProto::Udp => st.udp_listeners.get(&l.addr).and_then(|x| serde_json::to_value(x).ok()),
        };
        let Some(got) = got else {
            if is_implicit {
                t.fail(format!("state/frontend_without_listener/{}", l.proto.name()), format!("a frontend on {id} was loaded although no {} listener exists on that address (neither declared nor created)", l.proto.name()));
            } else {
                t.fail(format!("state/listener_missing/{}", l.proto.name()), format!("{} listener {id} declared in the file is absent from the loaded state", l.proto.name()));
            }
            continue;
        };
        t.obs("listeners_compared", 1);
        if is_implicit {
            t.obs("implicit_listener_created", 1);
            t.obs(&format!("implicit_listeners_compared.{}", l.proto.name()), 1);
            if l.proto == LProto::Https && glob_u64(m, "buffer_size") == Some(16_393) {
                // boundary: the smallest buffer_size an h2-capable listener allows
                t.obs("implicit_https_listener_with_buffer_size_16393", 1);
            }
        }
        if got["active"] != json!(want_active) {
            t.fail(
                format!("state/listener_activation/{}", l.proto.name()),
                format!("listener {id}: activate_listeners = {activate:?} in the file, loaded listener has active = {}", got["active"]),
            );
        }
        t.obs(if want_active { "listeners_expected_active" } else { "listeners_expected_inactive" }, 1);
        let o = |k: &str| l.opts.get(k).map(|v| v.json());
        // public address
        t.field(obj, "public_address", &got["public_address"], l.opts.get("public_address").and_then(|v| v.as_str()).map(addr_json), None, false, &id);
        if l.proto != LProto::Udp {
            t.field(obj, "expect_proxy", &got["expect_proxy"], o("expect_proxy"), Some(json!(false)), false, &id);
        }
        // timeouts: listener value, else the global value, else the documented default
        let tos: &[(&str, u64)] = match l.proto {
            LProto::Http | LProto::Https => &[("front_timeout", 60), ("back_timeout", 30), ("connect_timeout", 3), ("request_timeout", 10)],
            LProto::Tcp => &[("front_timeout", 60), ("back_timeout", 30), ("connect_timeout", 3)],
            LProto::Udp => &[("front_timeout", 30), ("back_timeout", 30)],
        };
        let mut eff_back = 30;
        for (k, d) in tos {
            let glob = glob_u64(m, k);
            let default = if l.proto == LProto::Udp {
                // the UDP section documents its own default (30) and does not say whether the
                // global front/back timeout applies: not judged when the global one is set
                if glob.is_some() { None } else { Some(json!(d)) }
            } else {
                Some(json!(glob.unwrap_or(*d)))
            };
            if *k == "back_timeout" {
                eff_back = l.opts.get(k).and_then(|v| v.as_u64()).or(glob).unwrap_or(*d);
            }
            t.field(obj, k, &got[*k], o(k), default, false, &id);
        }
        if matches!(l.proto, LProto::Http | LProto::Https) {
            t.field(obj, "sticky_name", &got["sticky_name"], o("sticky_name"), Some(json!("SOZUBALANCEID")), false, &id);
            for (k, d, _, _) in H2_KNOBS {
                t.field(obj, k, &got[*k], o(k), Some(json!(d)), true, &id);
            }
            t.field(obj, "h2_stream_idle_timeout_seconds", &got["h2_stream_idle_timeout_seconds"], o("h2_stream_idle_timeout_seconds"), Some(json!(eff_back.max(30))), true, &id);
            t.field(obj, "sozu_id_header", &got["sozu_id_header"], o("sozu_id_header"), Some(json!("Sozu-Id")), true, &id);
            t.field(obj, "elide_x_real_ip", &got["elide_x_real_ip"], o("elide_x_real_ip"), Some(json!(false)), true, &id);
            t.field(obj, "send_x_real_ip", &got["send_x_real_ip"], o("send_x_real_ip"), Some(json!(false)), true, &id);
            answers_check(t, obj, &id, &got["answers"], &l.answers, &l.legacy_answers);
        }
        if l.proto == LProto::Https {
            let alpn_model = match l.opts.get("alpn_protocols") {
                Some(Tv::L(v)) if !v.is_empty() => Some(json!(v)),
                _ => None, // "When alpn_protocols is omitted or empty, the default is used"
            };
            if l.opts.contains_key("alpn_protocols") && alpn_model.is_none() {
                t.obs("alpn_empty_list_means_default", 1);
            }
            t.field(obj, "alpn_protocols", &got["alpn_protocols"], alpn_model, Some(json!(["h2", "http/1.1"])), false, &id);
            if advertises_h2(l) {
                t.obs("https_listeners_advertising_h2", 1);
            } else {
                t.obs("https_listeners_without_h2", 1);
            }
            t.field(obj, "strict_sni_binding", &got["strict_sni_binding"], o("strict_sni_binding"), Some(json!(true)), true, &id);
            t.field(obj, "disable_http11", &got["disable_http11"], o("disable_http11"), Some(json!(false)), true, &id);
            t.field(obj, "send_tls13_tickets", &got["send_tls13_tickets"], o("send_tls13_tickets"), Some(json!(4)), false, &id);
            let versions = match l.opts.get("tls_versions") {
                Some(Tv::L(v)) => Some(json!(v.iter().map(|s| tls_int(s)).collect::<Vec<_>>())),
                _ => None,
            };
            t.field(obj, "tls_versions", &got["versions"], versions, Some(json!([4, 5])), false, &id);
            t.field(obj, "cipher_list", &got["cipher_list"], o("cipher_list"), Some(json!(DEFAULT_CIPHERS)), false, &id);
            t.field(obj, "groups_list", &got["groups_list"], o("groups_list"), Some(json!(DEFAULT_GROUPS)), false, &id);
            match l.cert {
                Some(c) => {
                    listener_cert.insert(l.addr, c);
                    let u = m.cert_use.get(c).cloned().unwrap_or_default();
                    let same = |g: &Value, w: &str| g.as_str().map(|s| s.trim() == w.trim()).unwrap_or(false);
                    t.obs("opt_present.https_listener.certificate", 1);
                    if !same(&got["certificate"], &pool[c].cert) {
                        t.fail("state/https_listener_field_altered/certificate".to_owned(), format!("https listener {id}: default certificate {} not loaded (state holds {})", CERT_FILES[c].0, short(&got["certificate"])));
                    }
                    if !same(&got["key"], &pool[c].key) {
                        t.fail("state/https_listener_field_altered/key".to_owned(), format!("https listener {id}: default key {} not loaded", CERT_FILES[c].1));
                    }
                    if u.with_chain {
                        if let Some(ch) = &pool[c].chain {
                            chain_check(t, "https_listener", &id, &got["certificate_chain"], ch);
                        }
                    }
                }
                None => {
                    t.field(obj, "certificate", &got["certificate"], None, None, false, &id);
                }
            }
            match &l.hsts {
                Some(h) => hsts_check(t, "https_listener", &id, &got["hsts"], h),
                None => {
                    // "Omit the block and no listener-default HSTS is set"
                    t.field(obj, "hsts", &got["hsts"], None, Some(Value::Null), true, &id);
                }
            }
        }
        if l.proto == LProto::Udp {
            let set = l.opts.get("max_rx_datagram_size").and_then(|v| v.as_u64());
            // "a value larger than buffer_size is clamped to it at config-load"
            t.field(obj, "max_rx_datagram_size", &got["max_rx_datagram_size"], set.map(|v| json!(v.min(buffer_size))), Some(json!(1500u64.min(buffer_size))), false, &id);
            if set.map(|v| v > buffer_size).unwrap_or(false) {
                t.obs("udp_max_rx_clamped_to_buffer_size", 1);
            }
            t.field(obj, "max_flows", &got["max_flows"], o("max_flows"), Some(json!(0)), false, &id);
        }
    }
    let n_state_listeners = st.http_listeners.len() + st.https_listeners.len() + st.tcp_listeners.len() + st.udp_listeners.len();
    let n_want = m.listeners.len() + implicit.len();
    if n_state_listeners > n_want {
        let known: BTreeSet<SocketAddr> = proto_of.keys().copied().collect();
        let extra: Vec<String> = st.http_listeners.keys().chain(st.https_listeners.keys()).chain(st.tcp_listeners.keys()).chain(st.udp_listeners.keys()).filter(|a| !known.contains(a)).take(3).map(|a| a.to_string()).collect();
        t.fail("state/listener_unexpected".to_owned(), format!("the loaded state holds {n_state_listeners} listeners, the file declares {n_want}; e.g. {extra:?}"));
    }

    // ---------------------------------------------------------------- clusters
    let g_mcpi = glob_u64(m, "max_connections_per_ip");
    let g_retry = glob_u64(m, "retry_after");
    let mut want_http: Vec<(usize, usize, bool)> = Vec::new(); // (cluster, frontend, https)
    for (ci, c) in m.clusters.iter().enumerate() {
        let obj = if c.http { "http_cluster" } else { "tcp_cluster" };
        t.obs(&format!("objects.{obj}"), 1);
        let id = c.id.clone();
        let Some(gc) = st.clusters.get(&c.id) else {
            t.fail(format!("state/cluster_missing/{}", if c.http { "http" } else { "tcp" }), format!("cluster {id} declared in the file is absent from the loaded state"));
            continue;
        };
        let got = serde_json::to_value(gc).unwrap_or(Value::Null);
        t.obs("clusters_compared", 1);
        let o = |k: &str| c.opts.get(k).map(|v| v.json());
        let lb = c.opts.get("load_balancing").and_then(|v| v.as_str()).map(|s| enum_int(&["ROUND_ROBIN", "RANDOM", "LEAST_LOADED", "POWER_OF_TWO", "HRW", "MAGLEV"], s));
        t.field(obj, "load_balancing", &got["load_balancing"], lb, Some(json!(0)), false, &id);
        let lm = c.opts.get("load_metric").and_then(|v| v.as_str()).map(|s| enum_int(&["CONNECTIONS", "REQUESTS", "CONNECTION_TIME"], s));
        t.field(obj, "load_metric", &got["load_metric"], lm, None, false, &id);
        // "`None` (field absent) inherits the global default"
        t.field(obj, "max_connections_per_ip", &got["max_connections_per_ip"], o("max_connections_per_ip"), Some(json!(g_mcpi.unwrap_or(0))), true, &id);
            match &c.health_check {
            Some((uri, ho)) => {
                let h = &got["health_check"];
                if h.is_null() {
                    t.fail(format!("state/{obj}_health_check_dropped"), format!("cluster {id}: [health_check] declared, none loaded"));
                } else {
                    t.field(obj, "health_check.uri", &h["uri"], Some(json!(uri)), None, false, &id);
                    for (k, d) in [("interval", 10), ("timeout", 5), ("healthy_threshold", 3), ("unhealthy_threshold", 3), ("expected_status", 0)] {
                        t.field(obj, &format!("health_check.{k}"), &h[k], ho.get(k).map(|v| v.json()), Some(json!(d)), false, &id);
                    }
                }
            }
            None => t.field(obj, "health_check", &got["health_check"], None, None, false, &id),
        }
        if !c.http {
            t.field(obj, "retry_after", &got["retry_after"], o("retry_after"), g_retry.map(|v| json!(v)), true, &id);
        }
        if c.http {
            t.field(obj, "sticky_session", &got["sticky_session"], o("sticky_session"), None, false, &id);
            t.field(obj, "https_redirect", &got["https_redirect"], o("https_redirect"), None, false, &id);
            t.field(obj, "http2", &got["http2"], o("http2"), Some(json!(false)), true, &id);
            t.field(obj, "https_redirect_port", &got["https_redirect_port"], o("https_redirect_port"), None, false, &id);
            t.field(obj, "authorized_hashes", &got["authorized_hashes"], o("authorized_hashes"), None, false, &id);
            t.field(obj, "www_authenticate", &got["www_authenticate"], o("www_authenticate"), None, false, &id);
            t.field(obj, "retry_after", &got["retry_after"], o("retry_after"), g_retry.map(|v| json!(v)), true, &id);
            t.field(obj, "answer_503", &got["answer_503"], c.answer_503.as_ref().map(|(_, body)| json!(body)), None, false, &id);
            answers_check(t, obj, &id, &got["answers"], &c.answers, &[]);
            t.field(obj, "proxy_protocol", &got["proxy_protocol"], None, None, false, &id);
        } else {
            // PROXY protocol section of the documentation: send_proxy alone = send, listener
            // expect_proxy alone = expect, both = relay
            let send = c.opts.get("send_proxy").and_then(|v| v.as_bool()).unwrap_or(false);
            let expect = c.frontends.iter().any(|f| {
                m.listeners.iter().any(|l| l.addr == f.addr && l.opts.get("expect_proxy") == Some(&Tv::B(true)))
            });
            let want = match (send, expect) {
                (true, true) => json!(2),
                (true, false) => json!(1),
                (false, true) => json!(0),
                (false, false) => Value::Null,
            };
            t.obs(&format!("tcp_cluster_proxy_protocol.{}", match (send, expect) { (true, true) => "relay", (true, false) => "send", (false, true) => "expect", _ => "none" }), 1);
            if c.opts.contains_key("send_proxy") || expect {
                t.field(obj, "proxy_protocol", &got["proxy_protocol"], Some(want), None, false, &id);
            } else {
                t.field(obj, "proxy_protocol", &got["proxy_protocol"], None, Some(Value::Null), true, &id);
            }
        }
        match &c.udp {
            Some((uo, uh)) => {
                let u = &got["udp"];
                if u.is_null() {
                    t.fail(format!("state/{obj}_udp_block_dropped"), format!("cluster {id}: [udp] block declared, none loaded"));
                } else {
                    let ak = uo.get("affinity_key").and_then(|v| v.as_str()).map(|s| enum_int(&["SOURCE_IP", "SOURCE_IP_PORT"], s));
                    t.field(obj, "udp.affinity_key", &u["affinity_key"], ak, Some(json!(0)), true, &id);
                    t.field(obj, "udp.responses", &u["responses"], uo.get("responses").map(|v| v.json()), Some(json!(0)), true, &id);
                    t.field(obj, "udp.requests", &u["requests"], uo.get("requests").map(|v| v.json()), Some(json!(0)), true, &id);
                    t.field(obj, "udp.send_proxy_protocol", &u["send_proxy_protocol"], uo.get("send_proxy_protocol").map(|v| v.json()), Some(json!(false)), true, &id);
                    t.field(obj, "udp.proxy_protocol_every_datagram", &u["proxy_protocol_every_datagram"], uo.get("proxy_protocol_every_datagram").map(|v| v.json()), Some(json!(false)), true, &id);
                    match uh {
                        Some(h) => {
                            let gh = &u["health"];
                            if gh.is_null() {
                                t.fail(format!("state/{obj}_udp_health_block_dropped"), format!("cluster {id}: [udp.health] block declared, none loaded"));
                            } else {
                                let mode = h.get("mode").and_then(|v| v.as_str()).map(|s| enum_int(&["HEALTH_OFF", "TCP_PROBE", "UDP_PROBE"], s));
                                t.field(obj, "udp.health.mode", &gh["mode"], mode, Some(json!(1)), true, &id);
                                t.field(obj, "udp.health.tcp_port", &gh["tcp_port"], h.get("tcp_port").map(|v| v.json()), None, false, &id);
                                for (k, d) in [("rise", json!(2)), ("fall", json!(3)), ("fail_open", json!(true)), ("probe_interval_seconds", json!(5)), ("probe_timeout_seconds", json!(2))] {
                                    t.field(obj, &format!("udp.health.{k}"), &gh[k], h.get(k).map(|v| v.json()), Some(d), true, &id);
                                }
                                let payload = h.get("udp_probe_payload").and_then(|v| v.as_str()).map(|s| json!(s.as_bytes()));
                                t.field(obj, "udp.health.udp_probe_payload", &gh["udp_probe_payload"], payload, None, false, &id);
                            }
                        }
                        None => t.field(obj, "udp.health", &u["health"], None, None, false, &id),
                    }
                }
            }
            None => t.field(obj, "udp", &got["udp"], None, None, false, &id),
        }
        for (fi, f) in c.frontends.iter().enumerate() {
            if c.http {
                let https = match proto_of.get(&f.addr) {
                    Some(LProto::Https) => true,
                    Some(LProto::Http) => false,
                    _ => continue, // reported above (no listener)
                };
                want_http.push((ci, fi, https));
            }
        }
    }
    if st.clusters.len() > m.clusters.len() {
        let known: BTreeSet<&str> = m.clusters.iter().map(|c| c.id.as_str()).collect();
        let extra: Vec<&String> = st.clusters.keys().filter(|k| !known.contains(k.as_str())).take(3).collect();
        t.fail("state/cluster_unexpected".to_owned(), format!("the loaded state holds {} clusters, the file declares {}; e.g. {extra:?}", st.clusters.len(), m.clusters.len()));
    }

    // ---------------------------------------------------------------- HTTP(S) frontends
    type Key = (bool, SocketAddr, String, Option<String>);
    let mut pool_fronts: HashMap<Key, Vec<&HttpFrontend>> = HashMap::new();
    for f in st.http_fronts.values() {
        pool_fronts.entry((false, f.address, f.hostname.clone(), f.cluster_id.clone())).or_default().push(f);
    }
    for f in st.https_fronts.values() {
        pool_fronts.entry((true, f.address, f.hostname.clone(), f.cluster_id.clone())).or_default().push(f);
    }
    let mut required_certs: BTreeMap<(SocketAddr, usize), ()> = BTreeMap::new();
    for (ci, fi, https) in want_http {
        let c = &m.clusters[ci];
        let f = &c.frontends[fi];
        let kind = if https { "https" } else { "http" };
        let obj = if https { "https_frontend" } else { "http_frontend" };
        t.obs(&format!("objects.{obj}"), 1);
        if https {
            if let Some(cidx) = f.cert {
                required_certs.insert((f.addr, cidx), ());
            }
        }
        let host = f.hostname.clone().unwrap_or_default();
        let id = format!("{}/{}{} on {} ({})", c.id, host, f.path.as_deref().unwrap_or(""), f.addr, kind);
        let want_kind = match (f.path.is_some(), f.path_type) {
            (false, _) => PathRuleKind::Prefix, // no path = "the empty-prefix frontend"
            (true, None) | (true, Some(0)) => PathRuleKind::Prefix, // "defaults to PREFIX"
            (true, Some(1)) => PathRuleKind::Regex,
            (true, _) => PathRuleKind::Equals,
        };
        t.obs(&format!("path_rule.{}", match (f.path.is_some(), want_kind) { (false, _) => "none", (_, PathRuleKind::Prefix) => "prefix", (_, PathRuleKind::Regex) => "regex", _ => "equals" }), 1);
        let want_path = f.path.clone().unwrap_or_default();
        let cands = pool_fronts.get_mut(&(https, f.addr, host.clone(), Some(c.id.clone())));
        let found = cands.and_then(|v| {
            let pos = v.iter().position(|g| {
                let kind_ok = PathRuleKind::try_from(g.path.kind).ok() == Some(want_kind);
                let val_ok = g.path.value == want_path
                    // the documentation says regex rules are anchored since 2.0: an anchored
                    // rendition of the declared pattern is the same rule
                    || (want_kind == PathRuleKind::Regex && g.path.value.contains(&want_path) && (g.path.value.starts_with("\\A") || g.path.value.starts_with('^')));
                kind_ok && val_ok && g.method == f.method
            })?;
            Some(v.swap_remove(pos))
        });
        let Some(g) = found else {
            // is it there under the other kind / another cluster?
            let elsewhere = st.http_fronts.values().chain(st.https_fronts.values()).any(|g| g.address == f.addr && g.hostname == host && g.method == f.method && g.path.value == want_path);
            t.fail(
                format!("state/frontend_missing/{kind}{}", if elsewhere { "/present_but_altered" } else { "" }),
                format!("frontend {id} (path kind {want_kind:?}, method {:?}) declared in the file is absent from the loaded state", f.method),
            );
            continue;
        };
        t.obs("frontends_compared", 1);
        let gj = serde_json::to_value(g).unwrap_or(Value::Null);
        let pos = f.position.map(|p| json!(["PRE", "POST", "TREE"][p as usize]));
        t.field(obj, "position", &gj["position"], pos, None, false, &id);
        match &f.tags {
            Some(tags) => t.field(obj, "tags", &gj["tags"], Some(json!(tags)), None, false, &id),
            None => {
                if !(gj["tags"].is_null() || gj["tags"] == json!({})) {
                    t.fail(format!("state/{obj}_field_altered/tags"), format!("frontend {id}: no tags in the file, loaded {}", gj["tags"]));
                }
                t.obs(&format!("opt_absent.{obj}.tags"), 1);
            }
        }
        let redirect = f.opts.get("redirect").and_then(|v| v.as_str()).map(|s| enum_int(&["forward", "permanent", "unauthorized"], &s.to_ascii_lowercase()));
        t.field(obj, "redirect", &gj["redirect"], redirect, Some(json!(0)), true, &id); // "forward (default)"
        let scheme = f.opts.get("redirect_scheme").and_then(|v| v.as_str()).map(|s| enum_int(&["use-same", "use-http", "use-https"], &s.to_ascii_lowercase()));
        t.field(obj, "redirect_scheme", &gj["redirect_scheme"], scheme, Some(json!(0)), true, &id); // "use-same (default)"
        for k in ["rewrite_host", "rewrite_path", "rewrite_port", "required_auth", "redirect_template"] {
            t.field(obj, k, &gj[k], f.opts.get(k).map(|v| v.json()), None, false, &id);
        }
        if !f.headers.is_empty() {
            let want: Vec<Value> = f.headers.iter().map(|(p, k, v)| json!({"position": enum_int(&["", "request", "response", "both"], &p.to_ascii_lowercase()), "key": k, "val": v})).collect();
            t.field(obj, "headers", &gj["headers"], Some(json!(want)), None, false, &id);
        }
        match &f.hsts {
            Some(h) => hsts_check(t, obj, &id, &gj["hsts"], h),
            None => {
                // "Omit and the frontend inherits the listener default": the per-frontend value
                // stays unset
                t.field(obj, "hsts", &gj["hsts"], None, Some(Value::Null), true, &id);
            }
        }
    }
    for ((https, addr, host, cl), v) in &pool_fronts {
        if let Some(g) = v.first() {
            t.fail(
                format!("state/frontend_unexpected/{}", if *https { "https" } else { "http" }),
                format!("the loaded state holds {} frontend(s) {addr} {host} path {:?} method {:?} cluster {cl:?} that the file does not declare (duplicated or altered)", v.len(), g.path.value, g.method),
            );
        }
    }

    // ---------------------------------------------------------------- TCP / UDP frontends
    for c in m.clusters.iter().filter(|c| !c.http) {
        let mut tcp: Vec<(SocketAddr, BTreeMap<String, String>)> = st.tcp_fronts.get(&c.id).map(|v| v.iter().map(|f| (f.address, f.tags.clone())).collect()).unwrap_or_default();
        let mut udp: Vec<(SocketAddr, BTreeMap<String, String>)> = st.udp_fronts.get(&c.id).map(|v| v.iter().map(|f| (f.address, f.tags.clone())).collect()).unwrap_or_default();
        for f in &c.frontends {
            let is_udp = match proto_of.get(&f.addr) {
                Some(LProto::Udp) => true,
                Some(LProto::Tcp) => false,
                _ => continue,
            };
            let obj = if is_udp { "udp_frontend" } else { "tcp_frontend" };
            t.obs(&format!("objects.{obj}"), 1);
            let list = if is_udp { &mut udp } else { &mut tcp };
            match list.iter().position(|(a, _)| *a == f.addr) {
                None => t.fail(format!("state/frontend_missing/{}", if is_udp { "udp" } else { "tcp" }), format!("{obj} {} of cluster {} declared in the file is absent from the loaded state", f.addr, c.id)),
                Some(p) => {
                    let (_, tags) = list.swap_remove(p);
                    t.obs("frontends_compared", 1);
                    match &f.tags {
                        Some(w) => t.field(obj, "tags", &json!(tags), Some(json!(w)), None, false, &f.addr.to_string()),
                        None => {
                            if !tags.is_empty() {
                                t.fail(format!("state/{obj}_field_altered/tags"), format!("{obj} {}: no tags in the file, loaded {tags:?}", f.addr));
                            }
                        }
                    }
                }
            }
        }
        if !tcp.is_empty() {
            t.fail("state/frontend_unexpected/tcp".to_owned(), format!("cluster {}: {} TCP frontend(s) in the loaded state that the file does not declare (e.g. {})", c.id, tcp.len(), tcp[0].0));
        }
        if !udp.is_empty() {
            t.fail("state/frontend_unexpected/udp".to_owned(), format!("cluster {}: {} UDP frontend(s) in the loaded state that the file does not declare (e.g. {})", c.id, udp.len(), udp[0].0));
        }
    }
    let known: BTreeSet<&str> = m.clusters.iter().filter(|c| !c.http).map(|c| c.id.as_str()).collect();
    for (k, v) in st.tcp_fronts.iter() {
        if !v.is_empty() && !known.contains(k.as_str()) {
            t.fail("state/frontend_unexpected/tcp".to_owned(), format!("TCP frontends loaded for {k}, which is not a TCP cluster of the file"));
        }
    }
    for (k, v) in st.udp_fronts.iter() {
        if !v.is_empty() && !known.contains(k.as_str()) {
            t.fail("state/frontend_unexpected/udp".to_owned(), format!("UDP frontends loaded for {k}, which is not a TCP cluster of the file"));
        }
    }

    // ---------------------------------------------------------------- backends
    let cluster_ids: BTreeSet<&str> = m.clusters.iter().map(|c| c.id.as_str()).collect();
    for (k, v) in &st.backends {
        if !v.is_empty() && !cluster_ids.contains(k.as_str()) {
            t.fail("state/backend_unexpected".to_owned(), format!("backends loaded for cluster {k} which the file does not declare"));
        }
    }
    for c in &m.clusters {
        let got = st.backends.get(&c.id).cloned().unwrap_or_default();
        let mut by_addr: HashMap<SocketAddr, Vec<usize>> = HashMap::new();
        for (i, b) in got.iter().enumerate() {
            if b.cluster_id != c.id {
                t.fail("state/backend_field_altered/cluster_id".to_owned(), format!("backend {} filed under {} carries cluster id {}", b.backend_id, c.id, b.cluster_id));
            }
            by_addr.entry(b.address).or_default().push(i);
        }
        let mut used = vec![false; got.len()];
        // explicit ids first, so that an id-less twin on the same address cannot steal a match
        let mut order: Vec<&Backend> = c.backends.iter().filter(|b| b.backend_id.is_some()).collect();
        order.extend(c.backends.iter().filter(|b| b.backend_id.is_none()));
        for b in order {
            t.obs("objects.backend", 1);
            let score = |g: &sozu_command_lib::response::Backend| -> u32 {
                let mut s = 0;
                if let Some(w) = b.weight {
                    s += (g.load_balancing_parameters.map(|p| p.weight) == Some(w as i32)) as u32;
                }
                if b.sticky_id.is_some() {
                    s += (g.sticky_id == b.sticky_id) as u32;
                }
                if b.backup.is_some() {
                    s += (g.backup == b.backup) as u32;
                }
                s
            };
            let cand = by_addr.get(&b.addr).and_then(|v| {
                v.iter()
                    .copied()
                    .filter(|i| !used[*i] && b.backend_id.as_ref().map(|id| &got[*i].backend_id == id).unwrap_or(true))
                    .max_by_key(|i| score(&got[*i]))
            });
            let Some(i) = cand else {
                t.fail("state/backend_missing".to_owned(), format!("backend {} (id {:?}) of cluster {} declared in the file is absent from the loaded state", b.addr, b.backend_id, c.id));
                continue;
            };
            used[i] = true;
            t.obs("backends_compared", 1);
            let g = &got[i];
            let id = format!("{}@{} of {}", g.backend_id, g.address, c.id);
            t.field("backend", "weight", &json!(g.load_balancing_parameters.map(|p| p.weight)), b.weight.map(|w| json!(w)), None, false, &id);
            t.field("backend", "sticky_id", &json!(g.sticky_id), b.sticky_id.as_ref().map(|s| json!(s)), None, false, &id);
            t.field("backend", "backup", &json!(g.backup), b.backup.map(|x| json!(x)), None, false, &id);
            t.field("backend", "backend_id", &json!(g.backend_id), b.backend_id.as_ref().map(|s| json!(s)), None, false, &id);
        }
        let extra = used.iter().filter(|u| !**u).count();
        if extra > 0 {
            let e = got.iter().zip(used.iter()).find(|(_, u)| !**u).map(|(g, _)| format!("{}@{}", g.backend_id, g.address)).unwrap_or_default();
            t.fail("state/backend_unexpected".to_owned(), format!("cluster {}: {extra} backend(s) in the loaded state that the file does not declare (duplicated or altered), e.g. {e}", c.id));
        }
    }

    // ---------------------------------------------------------------- certificates
    let mut state_certs: Vec<(SocketAddr, &sozu_command_lib::proto::command::CertificateAndKey)> = Vec::new();
    for (a, by_fp) in &st.certificates {
        for ck in by_fp.values() {
            state_certs.push((*a, ck));
        }
    }
    for ((addr, cidx), _) in &required_certs {
        t.obs("objects.certificate", 1);
        let want = pool[*cidx].cert.trim();
        match state_certs.iter().find(|(a, ck)| a == addr && ck.certificate.trim() == want) {
            None => t.fail("state/certificate_missing".to_owned(), format!("certificate {} declared by a frontend on {addr} is absent from the loaded state", CERT_FILES[*cidx].0)),
            Some((_, ck)) => {
                t.obs("certificates_compared", 1);
                if ck.key.trim() != pool[*cidx].key.trim() {
                    t.fail("state/certificate_field_altered/key".to_owned(), format!("certificate {} on {addr}: loaded key differs from {}", CERT_FILES[*cidx].0, CERT_FILES[*cidx].1));
                }
                let u = m.cert_use.get(*cidx).cloned().unwrap_or_default();
                if u.with_chain {
                    if let Some(ch) = &pool[*cidx].chain {
                        chain_check(t, "certificate", &format!("{} on {addr}", CERT_FILES[*cidx].0), &json!(ck.certificate_chain), ch);
                    }
                }
                let v = u.tls_versions.as_ref().map(|v| json!(v.iter().map(|s| tls_int(s)).collect::<Vec<_>>()));
                t.field("certificate", "tls_versions", &json!(ck.versions), v, None, false, &format!("{} on {addr}", CERT_FILES[*cidx].0));
            }
        }
    }
    for (a, ck) in &state_certs {
        let body = ck.certificate.trim();
        let declared = required_certs.keys().any(|(ra, ci)| ra == a && pool[*ci].cert.trim() == body);
        // the default certificate of the listener may be registered for frontends that rely on
        // it: the documentation does not say either way
        let listener_default = listener_cert.get(a).map(|ci| pool[*ci].cert.trim() == body).unwrap_or(false);
        if listener_default && !declared {
            t.obs("exempt.certificate.listener_default_registered", 1);
        }
        if !declared && !listener_default {
            t.fail("state/certificate_unexpected".to_owned(), format!("the loaded state holds a certificate on {a} that no frontend or listener of the file declares for that address"));
        }
    }
}

fn chain_check(t: &mut Tally, obj: &str, id: &str, got: &Value, chain_file: &str) {
    let n = chain_file.matches("-----END CERTIFICATE-----").count();
    let ok = got.as_array().map(|a| a.len() == n && a.iter().all(|c| c.as_str().map(|s| chain_file.contains(s.trim())).unwrap_or(false))).unwrap_or(false);
    t.obs(&format!("opt_present.{obj}.certificate_chain"), 1);
    if !ok {
        t.fail(format!("state/{obj}_field_altered/certificate_chain"), format!("{obj} {id}: the chain file holds {n} certificates, loaded chain is {}", short(got)));
    }
}

fn short(v: &Value) -> String {
    let mut s = v.to_string();
    if s.len() > 80 {
        s.truncate(80);
        s.push('…');
    }
    s
}
