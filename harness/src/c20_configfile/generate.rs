//! C20 — random valid models (every protocol, IPv4/IPv6, optional knobs present or absent,
//! path rule kinds, per-cluster overrides, H2 knobs) and message-count steering.

use std::{
    collections::{BTreeMap, BTreeSet},
    net::{IpAddr, Ipv4Addr, Ipv6Addr, SocketAddr},
};

use super::model::*;
use crate::common::Rng;

/// numeric per-listener H2 knobs of doc/configure.md: (key, documented default, min, max used)
pub const H2_KNOBS: &[(&str, u64, u64, u64)] = &[
    ("h2_max_rst_stream_per_window", 100, 1, 100_000),
    ("h2_max_ping_per_window", 100, 1, 100_000),
    ("h2_max_settings_per_window", 50, 1, 100_000),
    ("h2_max_empty_data_per_window", 100, 1, 100_000),
    ("h2_max_window_update_stream0_per_window", 100, 1, 100_000),
    ("h2_max_continuation_frames", 20, 1, 1_000),
    ("h2_max_glitch_count", 100, 1, 5_000),
    ("h2_initial_connection_window", 1_048_576, 65_535, 2_147_483_647),
    ("h2_max_concurrent_streams", 100, 1, 10_000),
    ("h2_stream_shrink_ratio", 2, 2, 64),
    ("h2_max_header_list_size", 65_536, 1_024, 1_048_576),
    ("h2_max_header_table_size", 65_536, 0, 1_048_576),
    ("h2_max_header_fields", 128, 1, 4_096),
    ("h2_graceful_shutdown_deadline_seconds", 5, 0, 600),
    ("h2_max_rst_stream_lifetime", 10_000, 1, 10_000_000),
    ("h2_max_rst_stream_abusive_lifetime", 50, 1, 100_000),
    ("h2_max_rst_stream_emitted_lifetime", 500, 1, 100_000),
];

pub const DEFAULT_CIPHERS: &[&str] = &[
    "TLS13_AES_256_GCM_SHA384",
    "TLS13_AES_128_GCM_SHA256",
    "TLS13_CHACHA20_POLY1305_SHA256",
    "TLS_ECDHE_ECDSA_WITH_AES_256_GCM_SHA384",
    "TLS_ECDHE_ECDSA_WITH_AES_128_GCM_SHA256",
    "TLS_ECDHE_ECDSA_WITH_CHACHA20_POLY1305_SHA256",
    "TLS_ECDHE_RSA_WITH_AES_256_GCM_SHA384",
    "TLS_ECDHE_RSA_WITH_AES_128_GCM_SHA256",
    "TLS_ECDHE_RSA_WITH_CHACHA20_POLY1305_SHA256",
];
pub const DEFAULT_GROUPS: &[&str] = &["X25519MLKEM768", "x25519", "P-256", "P-384"];

const METHODS: &[&str] = &["GET", "POST", "PUT", "DELETE", "PATCH"];
const LB: &[&str] = &["ROUND_ROBIN", "RANDOM", "LEAST_LOADED", "POWER_OF_TWO", "HRW", "MAGLEV"];
const LOAD_METRICS: &[&str] = &["CONNECTIONS", "REQUESTS", "CONNECTION_TIME"];

#[derive(Clone, Copy, Debug)]
pub struct Sizes {
    pub listeners: usize,
    pub clusters: usize,
    pub max_fronts: usize,
    pub max_backends: usize,
    /// 0..=100: probability (percent) that an optional key is written
    pub density: u64,
    /// may clusters carry frontends on undeclared addresses?
    pub implicit: bool,
}

pub struct Gen<'a> {
    pub rng: &'a mut Rng,
    next_addr: u32,
    host_n: u32,
    density: u64,
}

impl<'a> Gen<'a> {
    pub fn new(rng: &'a mut Rng, density: u64) -> Gen<'a> {
        Gen { rng, next_addr: 0, host_n: 0, density }
    }

    fn opt(&mut self) -> bool {
        self.rng.below(100) < self.density
    }

    /// a fresh socket address (never repeated inside a file): IPv4 loopback/any/private, IPv6
    /// loopback/any/ULA
    pub fn addr(&mut self) -> SocketAddr {
        let n = self.next_addr;
        self.next_addr += 1;
        let port = 1024 + (n % 60_000) as u16;
        let hi = (n / 60_000) as u8;
        let ip: IpAddr = match self.rng.below(8) {
            0 => IpAddr::V4(Ipv4Addr::new(0, 0, 0, 0)),
            1 => IpAddr::V6(Ipv6Addr::UNSPECIFIED),
            2 => IpAddr::V6(Ipv6Addr::LOCALHOST),
            3 => IpAddr::V6(Ipv6Addr::new(0xfd00, 0, 0, 0, 0, 0, hi as u16, (n & 0xffff) as u16)),
            4 => IpAddr::V4(Ipv4Addr::new(10, hi, (n >> 8) as u8, n as u8)),
            _ => IpAddr::V4(Ipv4Addr::new(127, hi, (n >> 8) as u8, (n as u8).max(1))),
        };
        // uniqueness: the port alone is unique below 60 000 addresses, above that `hi` differs
        // for the address families that embed it; the wildcard/loopback families are only
        // used while n < 60 000
        if n >= 60_000 && matches!(ip, IpAddr::V4(a) if a.octets()[0] == 0) || (n >= 60_000 && matches!(ip, IpAddr::V6(a) if a.segments()[0] == 0)) {
            return SocketAddr::new(IpAddr::V4(Ipv4Addr::new(127, hi, (n >> 8) as u8, (n as u8).max(1))), port);
        }
        SocketAddr::new(ip, port)
    }

    fn backend_addr(&mut self) -> SocketAddr {
        let n = self.rng.below(1 << 24) as u32;
        let port = 1 + self.rng.below(65_535) as u16;
        if self.rng.chance(1, 5) {
            SocketAddr::new(IpAddr::V6(Ipv6Addr::new(0xfd01, 0, 0, 0, 0, 0, (n >> 16) as u16, n as u16)), port)
        } else {
            SocketAddr::new(IpAddr::V4(Ipv4Addr::new(10, (n >> 16) as u8, (n >> 8) as u8, n as u8)), port)
        }
    }

    fn word(&mut self) -> String {
        const W: &[&str] = &["alpha", "beta", "gamma", "delta", "edge", "api", "www", "static", "blue", "green"];
        format!("{}{}", self.rng.pick(W), self.rng.below(1000))
    }

    pub fn hsts(&mut self) -> Hsts {
        let enabled = !self.rng.chance(1, 4);
        Hsts {
            enabled: Some(enabled),
            max_age: if self.rng.bool() { Some(*self.rng.pick(&[0u32, 86_400, 31_536_000, 63_072_000, 300])) } else { None },
            include_subdomains: if self.rng.bool() { Some(self.rng.bool()) } else { None },
            preload: if self.rng.chance(1, 3) { Some(self.rng.bool()) } else { None },
            force_replace_backend: if self.rng.chance(1, 4) { Some(self.rng.bool()) } else { None },
        }
    }

    fn answers(&mut self) -> BTreeMap<String, Answer> {
        let mut m = BTreeMap::new();
        for code in ["404", "503", "401", "502"] {
            if self.rng.chance(1, 3) {
                if self.rng.chance(1, 3) {
                    let (p, body) = if code == "404" {
                        ("/repo/command/assets/custom_404.html", asset("/repo/command/assets/custom_404.html"))
                    } else {
                        ("/repo/command/assets/custom_503.html", asset("/repo/command/assets/custom_503.html"))
                    };
                    m.insert(code.to_owned(), Answer { toml_value: toml_str(&format!("file://{p}")), body });
                } else {
                    let body = format!("HTTP/1.1 {code} X\r\nConnection: close\r\nContent-Length: 4\r\n\r\n{:04}", self.rng.below(10_000));
                    m.insert(code.to_owned(), Answer { toml_value: toml_str(&body), body });
                }
            }
        }
        m
    }

    pub fn listener(&mut self, proto: LProto, addr: SocketAddr, may_have_h2: bool) -> Listener {
        let mut l = Listener::new(proto, addr);
        let http_like = matches!(proto, LProto::Http | LProto::Https);
        if proto != LProto::Udp && self.opt() {
            l.opts.insert("expect_proxy", Tv::B(self.rng.bool()));
        }
        if self.opt() && l.opts.get("expect_proxy") != Some(&Tv::B(true)) {
            let pa = SocketAddr::new(IpAddr::V4(Ipv4Addr::new(203, 0, 113, self.rng.below(250) as u8 + 1)), 80 + self.rng.below(1000) as u16);
            l.opts.insert("public_address", Tv::S(pa.to_string()));
        }
        for k in ["front_timeout", "back_timeout", "connect_timeout", "request_timeout"] {
            let applies = match proto {
                LProto::Http | LProto::Https => true,
                LProto::Tcp => k != "request_timeout",
                LProto::Udp => k == "front_timeout" || k == "back_timeout",
            };
            if applies && self.opt() {
                l.opts.insert(k, Tv::I(1 + self.rng.below(600)));
            }
        }
        if http_like {
            if self.opt() {
                l.opts.insert("sticky_name", Tv::S(format!("STICKY{}", self.rng.below(100))));
            }
            for (k, _d, lo, hi) in H2_KNOBS {
                if self.opt() {
                    l.opts.insert(k, Tv::I(self.rng.range(*lo, *hi)));
                }
            }
            if self.opt() {
                l.opts.insert("h2_stream_idle_timeout_seconds", Tv::I(1 + self.rng.below(300)));
            }
            if self.opt() {
                l.opts.insert("sozu_id_header", Tv::S((*self.rng.pick(&["X-Edge-Id", "X-Request-Trace", "Sozu-Id", "x-corr.id_1"])).to_owned()));
            }
            if self.opt() {
                l.opts.insert("elide_x_real_ip", Tv::B(self.rng.bool()));
            }
            if self.opt() {
                l.opts.insert("send_x_real_ip", Tv::B(self.rng.bool()));
            }
            if self.rng.chance(1, 4) {
                l.answers = self.answers();
                l.answers_syntax = if self.rng.bool() { Syntax::Table } else { Syntax::Inline };
            }
            if self.rng.chance(1, 6) {
                let code = *self.rng.pick(&[404u16, 503]);
                let p = if code == 404 { "/repo/command/assets/custom_404.html" } else { "/repo/command/assets/custom_503.html" };
                if !l.answers.contains_key(&code.to_string()) {
                    l.legacy_answers.push((code, p.to_owned(), asset(p)));
                }
            }
        }
        if proto == LProto::Https {
            let alpn: Option<Vec<&str>> = if self.opt() {
                Some(if may_have_h2 {
                    self.rng.pick(&[vec!["h2", "http/1.1"], vec!["http/1.1", "h2"], vec!["h2"], vec!["http/1.1"], vec![]]).clone()
                } else {
                    vec!["http/1.1"]
                })
            } else if may_have_h2 {
                None
            } else {
                Some(vec!["http/1.1"])
            };
            let h2_only = alpn.as_deref() == Some(&["h2"][..]);
            if let Some(a) = alpn {
                l.opts.insert("alpn_protocols", Tv::L(a.iter().map(|s| (*s).to_owned()).collect()));
            }
            if self.opt() {
                l.opts.insert("disable_http11", Tv::B(h2_only && self.rng.bool()));
            }
            if self.opt() {
                l.opts.insert("strict_sni_binding", Tv::B(self.rng.bool()));
            }
            if self.opt() {
                l.opts.insert("send_tls13_tickets", Tv::I(self.rng.below(9)));
            }
            if self.opt() {
                let v = self.rng.pick(&[vec!["TLS_V12", "TLS_V13"], vec!["TLS_V13"], vec!["TLS_V12"]]).clone();
                l.opts.insert("tls_versions", Tv::L(v.iter().map(|s| (*s).to_owned()).collect()));
            }
            if self.opt() {
                let n = 1 + self.rng.usize_below(DEFAULT_CIPHERS.len());
                let mut c: Vec<String> = DEFAULT_CIPHERS.iter().map(|s| (*s).to_owned()).collect();
                self.rng.shuffle(&mut c);
                c.truncate(n);
                l.opts.insert("cipher_list", Tv::L(c));
            }
            if self.opt() {
                let v = self.rng.pick(&[vec!["x25519", "P-256", "P-384"], vec!["P-256", "P-384"], vec!["X25519MLKEM768", "x25519"]]).clone();
                l.opts.insert("groups_list", Tv::L(v.iter().map(|s| (*s).to_owned()).collect()));
            }
            if self.rng.chance(1, 2) {
                l.cert = Some(self.rng.usize_below(CERT_FILES.len()));
            }
            if self.rng.chance(1, 4) {
                l.hsts = Some(self.hsts());
                l.hsts_syntax = if self.rng.bool() { Syntax::Table } else { Syntax::Inline };
            }
        }
        if proto == LProto::Udp {
            if self.opt() {
                l.opts.insert("max_rx_datagram_size", Tv::I(*self.rng.pick(&[512u64, 1500, 4096, 9000, 16_393, 16_394, 65_535])));
            }
            if self.opt() {
                l.opts.insert("max_flows", Tv::I(*self.rng.pick(&[0u64, 1, 100, 500])));
            }
        }
        l
    }

    pub fn backend(&mut self, explicit_id: Option<String>) -> Backend {
        Backend {
            addr: self.backend_addr(),
            weight: if self.opt() { Some(self.rng.below(256) as u8) } else { None },
            sticky_id: if self.opt() { Some(format!("st-{}", self.rng.below(100_000))) } else { None },
            backup: if self.opt() { Some(self.rng.bool()) } else { None },
            backend_id: explicit_id,
        }
    }

    /// an HTTP(S) frontend on `l`; `keys` holds the route keys already used in the file
    pub fn http_frontend(&mut self, l: &Listener, keys: &mut BTreeSet<String>) -> Frontend {
        loop {
            let mut f = Frontend::new(l.addr);
            self.host_n += 1;
            let fresh = !self.rng.chance(1, 4) || self.host_n < 3;
            let n = if fresh { self.host_n } else { 1 + self.rng.below(self.host_n as u64) as u32 };
            f.hostname = Some(match self.rng.below(6) {
                0 => format!("*.w{n}.example.org"),
                _ => format!("h{n}.example.com"),
            });
            if self.opt() || !fresh {
                f.path = Some((*self.rng.pick(&["/", "/api", "/api/v1", "/static/", "/.well-known/acme-challenge", "/a.*", "/[ab]+/x"])).to_owned());
                if self.opt() {
                    f.path_type = Some(self.rng.below(3) as u8);
                }
            }
            if self.opt() {
                f.method = Some((*self.rng.pick(METHODS)).to_owned());
            }
            if self.opt() {
                f.position = Some(self.rng.below(3) as u8);
            }
            if self.opt() {
                let mut t = BTreeMap::new();
                for _ in 0..self.rng.below(3) {
                    t.insert(self.word(), self.word());
                }
                f.tags = Some(t);
            }
            if l.proto == LProto::Https {
                if l.cert.is_none() || self.rng.chance(2, 3) {
                    // never the listener's own default certificate: a certificate is declared
                    // one way per address (sozu documents that an already loaded certificate is
                    // skipped)
                    let mut c = self.rng.usize_below(CERT_FILES.len());
                    if Some(c) == l.cert {
                        c = (c + 1) % CERT_FILES.len();
                    }
                    f.cert = Some(c);
                }
                if f.cert.is_some() && self.rng.chance(1, 5) {
                    f.hsts = Some(self.hsts());
                }
            }
            if self.rng.below(100) < self.density / 3 {
                f.opts.insert("redirect", Tv::S((*self.rng.pick(&["forward", "permanent", "unauthorized", "PERMANENT"])).to_owned()));
            }
            if self.rng.below(100) < self.density / 3 {
                f.opts.insert("redirect_scheme", Tv::S((*self.rng.pick(&["use-same", "use-http", "use-https"])).to_owned()));
            }
            if self.rng.below(100) < self.density / 4 {
                f.opts.insert("rewrite_host", Tv::S(format!("new{}.example.com", self.rng.below(100))));
            }
            if self.rng.below(100) < self.density / 4 {
                f.opts.insert("rewrite_path", Tv::S("/v2$PATH[0]".to_owned()));
            }
            if self.rng.below(100) < self.density / 4 {
                f.opts.insert("rewrite_port", Tv::I(1 + self.rng.below(65_535)));
            }
            if self.rng.below(100) < self.density / 4 {
                f.opts.insert("required_auth", Tv::B(self.rng.bool()));
            }
            if self.rng.below(100) < self.density / 4 {
                for _ in 0..1 + self.rng.below(2) {
                    f.headers.push((
                        (*self.rng.pick(&["request", "response", "both", "Request"])).to_owned(),
                        format!("X-Custom-{}", self.rng.below(50)),
                        if self.rng.chance(1, 4) { String::new() } else { self.word() },
                    ));
                }
            }
            let key = route_key(&f);
            if keys.insert(key) {
                return f;
            }
        }
    }
}

pub fn route_key(f: &Frontend) -> String {
    format!(
        "{};{};{};{};{}",
        f.addr,
        f.hostname.as_deref().unwrap_or(""),
        if f.path.is_some() { f.path_type.unwrap_or(0) } else { 0 },
        f.path.as_deref().unwrap_or(""),
        f.method.as_deref().unwrap_or("")
    )
}

pub fn asset(p: &str) -> String {
    std::fs::read_to_string(p).unwrap_or_default()
}

/// does this HTTPS listener advertise h2 according to the documentation (default list, empty
/// list = default, or an explicit list containing "h2")?
pub fn advertises_h2(l: &Listener) -> bool {
    match l.opts.get("alpn_protocols") {
        None => true,
        Some(Tv::L(v)) => v.is_empty() || v.iter().any(|p| p == "h2"),
        _ => true,
    }
}

/// listeners the file does not declare but its frontends need: address -> protocol (HTTP cluster
/// frontend with certificate => HTTPS, without => HTTP, TCP cluster frontend => TCP)
pub fn implicit_listeners(m: &Model) -> BTreeMap<SocketAddr, LProto> {
    let declared: BTreeSet<SocketAddr> = m.listeners.iter().map(|l| l.addr).collect();
    let mut out = BTreeMap::new();
    for c in &m.clusters {
        for f in &c.frontends {
            if !declared.contains(&f.addr) {
                let has_cert = f.cert.is_some() || f.opts.contains_key("certificate");
                let p = if !c.http { LProto::Tcp } else if has_cert { LProto::Https } else { LProto::Http };
                out.entry(f.addr).or_insert(p);
            }
        }
    }
    out
}

/// The documented HTTP/2 rule, on the model: "Sōzu rejects start-up if buffer_size < 16393 and
/// any HTTPS listener advertises h2 in its ALPN list". It holds for every HTTPS listener of the
/// resulting configuration: the declared ones and the default ones created for frontends on
/// undeclared addresses (those advertise the default ALPN list, h2 first). Returns which kind of
/// listener breaks the rule.
pub fn h2_rule_broken(m: &Model) -> Option<&'static str> {
    let buffer = m.global.get("buffer_size").and_then(|v| v.as_u64()).unwrap_or(16_393);
    if buffer >= 16_393 {
        return None;
    }
    if m.listeners.iter().any(|l| l.proto == LProto::Https && l.proto_text.as_deref() == Some("https") && advertises_h2(l)) {
        return Some("declared");
    }
    if implicit_listeners(m).values().any(|p| *p == LProto::Https) {
        return Some("implicit");
    }
    None
}

/// build a valid model of roughly the requested sizes
pub fn valid_model(rng: &mut Rng, sz: Sizes) -> Model {
    let mut m = Model::default();
    m.comments = rng.bool();
    m.clusters_first = rng.chance(1, 4);
    m.clusters_header = rng.chance(1, 3);
    for _ in 0..CERT_FILES.len() {
        m.cert_use.push(CertUse {
            with_chain: rng.bool(),
            tls_versions: if rng.chance(1, 4) { Some(vec!["TLS_V13".to_owned()]) } else if rng.chance(1, 6) { Some(vec!["TLS_V12".to_owned(), "TLS_V13".to_owned()]) } else { None },
            copied: rng.chance(1, 4),
        });
    }
    let density = sz.density;
    // global section
    let small_buffer = rng.chance(1, 8);
    let dens = |rng: &mut Rng| rng.below(100) < density;
    if dens(rng) {
        m.global.insert("activate_listeners", Tv::B(!rng.chance(1, 3)));
    }
    if small_buffer {
        m.global.insert("buffer_size", Tv::I(*rng.pick(&[16_392u64, 8_192, 4_096, 1])));
    } else if dens(rng) {
        m.global.insert("buffer_size", Tv::I(*rng.pick(&[16_393u64, 16_394, 32_768, 65_536])));
    }
    for k in ["front_timeout", "back_timeout", "connect_timeout", "request_timeout"] {
        if rng.below(100) < density / 2 {
            m.global.insert(k, Tv::I(1 + rng.below(900)));
        }
    }
    if dens(rng) {
        m.global.insert("max_connections_per_ip", Tv::I(rng.below(1000)));
    }
    if dens(rng) {
        m.global.insert("retry_after", Tv::I(rng.below(600)));
    }
    if rng.chance(1, 6) {
        m.global.insert("disable_cluster_metrics", Tv::B(rng.chance(2, 3)));
    }
    if dens(rng) {
        m.global.insert("worker_count", Tv::I(1 + rng.below(8)));
    }
    if dens(rng) {
        m.global.insert("log_level", Tv::S((*rng.pick(&["info", "error", "debug"])).to_owned()));
    }
    if dens(rng) {
        m.global.insert("max_connections", Tv::I(100 + rng.below(10_000)));
    }
    if dens(rng) {
        m.global.insert("command_socket", Tv::S("./sozu.sock".to_owned()));
    }

    let mut g = Gen::new(rng, density);
    // listeners
    for _ in 0..sz.listeners {
        let proto = match g.rng.below(10) {
            0..=3 => LProto::Http,
            4..=6 => LProto::Https,
            7..=8 => LProto::Tcp,
            _ => LProto::Udp,
        };
        let a = g.addr();
        let l = g.listener(proto, a, !small_buffer);
        m.listeners.push(l);
    }
    // clusters
    let http_ls: Vec<usize> = (0..m.listeners.len()).filter(|i| matches!(m.listeners[*i].proto, LProto::Http | LProto::Https)).collect();
    let mut free_l4: Vec<usize> = (0..m.listeners.len()).filter(|i| matches!(m.listeners[*i].proto, LProto::Tcp | LProto::Udp)).collect();
    g.rng.shuffle(&mut free_l4);
    let mut keys = BTreeSet::new();
    let implicit_share: u64 = if sz.implicit { *g.rng.pick(&[0u64, 0, 15, 40, 100]) } else { 0 };
    let mut implicit_http: Vec<SocketAddr> = Vec::new();
    let mut implicit_https: Vec<SocketAddr> = Vec::new();
    for ci in 0..sz.clusters {
        let want_http = g.rng.chance(2, 3);
        let id = match g.rng.below(8) {
            0 => format!("my.cluster {ci}"),
            1 => format!("Cluster_{ci}"),
            _ => format!("c{ci}"),
        };
        let mut c = Cluster::new(id, want_http);
        c.fronts_inline = g.rng.chance(2, 3);
        c.backends_inline = g.rng.chance(2, 3);
        c.sub_inline = g.rng.chance(1, 3);
        let nf = if sz.max_fronts == 0 { 0 } else { g.rng.usize_below(sz.max_fronts + 1) };
        if want_http {
            if !http_ls.is_empty() {
                for _ in 0..nf {
                    let li = *g.rng.pick(&http_ls);
                    let f = g.http_frontend(&m.listeners[li], &mut keys);
                    c.frontends.push(f);
                }
            }
            if g.opt() {
                c.opts.insert("sticky_session", Tv::B(g.rng.bool()));
            }
            if g.opt() {
                c.opts.insert("https_redirect", Tv::B(g.rng.bool()));
            }
            if g.opt() {
                c.opts.insert("http2", Tv::B(g.rng.bool()));
            }
            if g.opt() {
                c.opts.insert("https_redirect_port", Tv::I(1 + g.rng.below(65_535)));
            }
            if g.opt() {
                c.opts.insert("authorized_hashes", Tv::L(vec!["admin:2bb80d537b1da3e38bd30361aa855686bde0eacd7162fef6a25fe97bf527a25b".to_owned()]));
                c.opts.insert("www_authenticate", Tv::S(format!("Basic realm=\"r{ci}\"")));
            }
            if g.opt() {
                c.opts.insert("retry_after", Tv::I(g.rng.below(600)));
            }
            if g.rng.chance(1, 6) {
                let p = "/repo/command/assets/custom_503.html";
                c.answer_503 = Some((p.to_owned(), asset(p)));
            }
            if g.rng.chance(1, 5) {
                c.answers = g.answers();
            }
        } else {
            // all frontends of a TCP cluster agree on expect_proxy (documented incompatibility)
            let mut expect: Option<bool> = None;
            let mut has_udp = false;
            let mut k = 0;
            while k < nf && !free_l4.is_empty() {
                k += 1;
                let li = free_l4[free_l4.len() - 1];
                let l = &m.listeners[li];
                let e = l.opts.get("expect_proxy") == Some(&Tv::B(true));
                if expect.is_some() && expect != Some(e) {
                    break;
                }
                expect = Some(e);
                free_l4.pop();
                has_udp |= l.proto == LProto::Udp;
                let mut f = Frontend::new(l.addr);
                if g.opt() {
                    let mut t = BTreeMap::new();
                    t.insert("owner".to_owned(), g.word());
                    f.tags = Some(t);
                }
                c.frontends.push(f);
            }
            if g.opt() {
                c.opts.insert("send_proxy", Tv::B(g.rng.bool()));
            }
            if has_udp || g.rng.chance(1, 10) {
                let mut uo = Opts::new();
                if g.opt() {
                    uo.insert("affinity_key", Tv::S((*g.rng.pick(&["SOURCE_IP", "SOURCE_IP_PORT"])).to_owned()));
                }
                if g.opt() {
                    uo.insert("responses", Tv::I(g.rng.below(4)));
                }
                if g.opt() {
                    uo.insert("requests", Tv::I(g.rng.below(4)));
                }
                if g.opt() {
                    uo.insert("send_proxy_protocol", Tv::B(g.rng.bool()));
                }
                if g.opt() {
                    uo.insert("proxy_protocol_every_datagram", Tv::B(g.rng.bool()));
                }
                let uh = if g.rng.bool() {
                    let mut h = Opts::new();
                    if g.opt() {
                        h.insert("mode", Tv::S((*g.rng.pick(&["HEALTH_OFF", "TCP_PROBE", "UDP_PROBE"])).to_owned()));
                    }
                    if g.opt() {
                        h.insert("tcp_port", Tv::I(1 + g.rng.below(65_535)));
                    }
                    for k in ["rise", "fall", "probe_interval_seconds", "probe_timeout_seconds"] {
                        if g.opt() {
                            h.insert(k, Tv::I(1 + g.rng.below(10)));
                        }
                    }
                    if g.opt() {
                        h.insert("fail_open", Tv::B(g.rng.bool()));
                    }
                    if g.opt() {
                        h.insert("udp_probe_payload", Tv::S("ping".to_owned()));
                    }
                    Some(h)
                } else {
                    None
                };
                if has_udp || !uo.is_empty() || uh.is_some() {
                    c.udp = Some((uo, uh));
                }
            }
        }
        // a [health_check] block is cluster-level grammar: HTTP, TCP and UDP-fronted clusters
            if g.rng.chance(1, 4) {
            let mut ho = Opts::new();
            for k in ["interval", "timeout", "healthy_threshold", "unhealthy_threshold"] {
                if g.opt() {
                    ho.insert(k, Tv::I(1 + g.rng.below(60)));
                }
            }
            if g.opt() {
                ho.insert("expected_status", Tv::I(*g.rng.pick(&[0u64, 200, 204])));
            }
            c.health_check = Some(((*g.rng.pick(&["/health", "/", "/ready?x=1"])).to_owned(), ho));
        }
        if !want_http && g.opt() {
            c.opts.insert("retry_after", Tv::I(g.rng.below(600)));
        }
        // frontends on addresses no `[[listeners]]` entry declares (lexicon: a frontend "should be
        // defined with a matching listener"; the loader creates a default one): HTTP without
        // certificate, HTTPS with certificate (its default ALPN offers h2: only with a buffer_size
        // of at least 16393), TCP (never on a cluster whose listeners expect PROXY headers)
        if implicit_share > 0 && g.rng.below(100) < implicit_share {
            for _ in 0..1 + g.rng.below(3) {
                if want_http {
                    let https = !small_buffer && g.rng.bool();
                    let pool = if https { &mut implicit_https } else { &mut implicit_http };
                    let a = if !pool.is_empty() && g.rng.chance(1, 3) {
                        *g.rng.pick(pool.as_slice())
                    } else {
                        let a = g.addr();
                        pool.push(a);
                        a
                    };
                    let mut ghost = Listener::new(if https { LProto::Https } else { LProto::Http }, a);
                    ghost.cert = None;
                    let mut f = g.http_frontend(&ghost, &mut keys);
                    if !https {
                        f.cert = None;
                        f.hsts = None;
                    }
                    c.frontends.push(f);
                } else {
                    let expects = c.frontends.iter().any(|f| m.listeners.iter().any(|l| l.addr == f.addr && l.opts.get("expect_proxy") == Some(&Tv::B(true))));
                    if !expects {
                        let a = g.addr();
                        c.frontends.push(Frontend::new(a));
                    }
                }
            }
        }
        if g.opt() {
            c.opts.insert("load_balancing", Tv::S((*g.rng.pick(LB)).to_owned()));
        }
        if g.opt() {
            c.opts.insert("load_metric", Tv::S((*g.rng.pick(LOAD_METRICS)).to_owned()));
        }
        if g.opt() {
            c.opts.insert("max_connections_per_ip", Tv::I(g.rng.below(500)));
        }
        let nb = if sz.max_backends == 0 { 0 } else { g.rng.usize_below(sz.max_backends + 1) };
        for bi in 0..nb {
            let id = if g.opt() { Some(format!("{}-b{bi}", c.id)) } else { None };
            let b = g.backend(id);
            c.backends.push(b);
        }
        // two backend ids on one address (legitimate: the state is keyed on (id, address))
        if nb >= 2 && g.rng.chance(1, 6) {
            let a = c.backends[0].addr;
            c.backends[1].addr = a;
            c.backends[0].backend_id = Some(format!("{}-twin0", c.id));
            c.backends[1].backend_id = Some(format!("{}-twin1", c.id));
        }
        m.clusters.push(c);
    }
    m
}

/// number of messages the documentation lets one expect: one per listener, one per cluster, one
/// per frontend (+ one certificate message per HTTPS frontend), one per backend, one activation
/// per listener when listeners are activated, one metrics message when cluster metrics are
/// disabled. Used for steering and for the histogram only — never as a verdict.
pub fn predicted_messages(m: &Model) -> usize {
    let mut n = m.listeners.len();
    let proto_of: BTreeMap<SocketAddr, LProto> = m.listeners.iter().map(|l| (l.addr, l.proto)).collect();
    let mut implicit: BTreeSet<SocketAddr> = BTreeSet::new();
    for c in &m.clusters {
        n += 1 + c.backends.len();
        for f in &c.frontends {
            n += 1;
            match proto_of.get(&f.addr) {
                Some(LProto::Https) if c.http => n += 1,
                None => {
                    implicit.insert(f.addr);
                    if c.http && f.cert.is_some() {
                        n += 1;
                    }
                }
                _ => {}
            }
        }
    }
    n += implicit.len();
    if m.global.get("activate_listeners").and_then(|v| v.as_bool()).unwrap_or(true) {
        n += m.listeners.len() + implicit.len();
    }
    if m.global.get("disable_cluster_metrics").and_then(|v| v.as_bool()).unwrap_or(false) {
        n += 1;
    }
    n
}

/// grow the model until `predicted_messages == target` (when it is below)
pub fn steer_to(rng: &mut Rng, m: &mut Model, target: usize) {
    let density = 30;
    let activate = m.global.get("activate_listeners").and_then(|v| v.as_bool()).unwrap_or(true);
    let mut keys: BTreeSet<String> = m.clusters.iter().flat_map(|c| c.frontends.iter().map(route_key)).collect();
    let mut guard = 0;
    loop {
        let p = predicted_messages(m);
        if p >= target || guard > 10_000_000 {
            return;
        }
        guard += 1;
        let room = target - p;
        let mut g = Gen::new(rng, density);
        g.next_addr = 30_000 + guard as u32;
        g.host_n = 1_000_000 + guard as u32 * 3;
        match g.rng.below(10) {
            0 if room >= 2 || !activate => {
                let a = g.addr();
                let proto = *g.rng.pick(&[LProto::Http, LProto::Tcp, LProto::Udp]);
                let l = g.listener(proto, a, true);
                m.listeners.push(l);
            }
            1 if room >= 1 => {
                let n = m.clusters.len();
                m.clusters.push(Cluster::new(format!("s{n}"), g.rng.bool()));
            }
            2 | 3 => {
                // an HTTP frontend (1 message) or an HTTPS frontend (2 messages)
                let cands: Vec<usize> = (0..m.listeners.len())
                    .filter(|i| match m.listeners[*i].proto {
                        LProto::Http => true,
                        LProto::Https => room >= 2,
                        _ => false,
                    })
                    .collect();
                let cl: Vec<usize> = (0..m.clusters.len()).filter(|i| m.clusters[*i].http).collect();
                if !cands.is_empty() && !cl.is_empty() {
                    let li = *g.rng.pick(&cands);
                    let f = g.http_frontend(&m.listeners[li], &mut keys);
                    let ci = *g.rng.pick(&cl);
                    m.clusters[ci].frontends.push(f);
                }
            }
            _ => {
                if m.clusters.is_empty() {
                    m.clusters.push(Cluster::new("s0".to_owned(), true));
                } else {
                    let ci = g.rng.usize_below(m.clusters.len());
                    let b = g.backend(None);
                    m.clusters[ci].backends.push(b);
                }
            }
        }
    }
}
