//! C20 — abstract model of a configuration file and its TOML rendering.
//!
//! The model is built first (by `gen.rs`), the TOML text is rendered from it here, and the
//! expected final state is derived from the model in `check.rs`. Nothing in this file looks at
//! sozu's loader.

use std::{collections::BTreeMap, fmt::Write as _, net::SocketAddr};

use serde_json::{Value, json};

use crate::common::Rng;

/// a TOML scalar / string list the model sets for an optional key
#[derive(Clone, Debug, PartialEq)]
pub enum Tv {
    I(u64),
    B(bool),
    S(String),
    L(Vec<String>),
    /// raw TOML text (constraint neighbours only)
    Raw(String),
}

impl Tv {
    pub fn json(&self) -> Value {
        match self {
            Tv::I(n) => json!(n),
            Tv::B(b) => json!(b),
            Tv::S(s) => json!(s),
            Tv::L(l) => json!(l),
            Tv::Raw(s) => json!(s),
        }
    }
    pub fn render(&self) -> String {
        match self {
            Tv::I(n) => n.to_string(),
            Tv::B(b) => b.to_string(),
            Tv::S(s) => toml_str(s),
            Tv::L(l) => format!("[{}]", l.iter().map(|s| toml_str(s)).collect::<Vec<_>>().join(", ")),
            Tv::Raw(s) => s.clone(),
        }
    }
    pub fn as_u64(&self) -> Option<u64> {
        if let Tv::I(n) = self { Some(*n) } else { None }
    }
    pub fn as_bool(&self) -> Option<bool> {
        if let Tv::B(b) = self { Some(*b) } else { None }
    }
    pub fn as_str(&self) -> Option<&str> {
        if let Tv::S(s) = self { Some(s) } else { None }
    }
}

pub type Opts = BTreeMap<&'static str, Tv>;

#[derive(Clone, Copy, Debug, PartialEq, Eq, PartialOrd, Ord, Hash)]
pub enum LProto {
    Http,
    Https,
    Tcp,
    Udp,
}

impl LProto {
    pub fn name(self) -> &'static str {
        match self {
            LProto::Http => "http",
            LProto::Https => "https",
            LProto::Tcp => "tcp",
            LProto::Udp => "udp",
        }
    }
}

#[derive(Clone, Debug, Default, PartialEq)]
pub struct Hsts {
    pub enabled: Option<bool>,
    pub max_age: Option<u32>,
    pub include_subdomains: Option<bool>,
    pub preload: Option<bool>,
    pub force_replace_backend: Option<bool>,
}

impl Hsts {
    fn pairs(&self) -> Vec<(String, String)> {
        let mut v = Vec::new();
        if let Some(b) = self.enabled {
            v.push(("enabled".to_owned(), b.to_string()));
        }
        if let Some(n) = self.max_age {
            v.push(("max_age".to_owned(), n.to_string()));
        }
        if let Some(b) = self.include_subdomains {
            v.push(("include_subdomains".to_owned(), b.to_string()));
        }
        if let Some(b) = self.preload {
            v.push(("preload".to_owned(), b.to_string()));
        }
        if let Some(b) = self.force_replace_backend {
            v.push(("force_replace_backend".to_owned(), b.to_string()));
        }
        v
    }
    pub fn json(&self) -> Value {
        json!({"enabled": self.enabled, "max_age": self.max_age, "include_subdomains": self.include_subdomains,
               "preload": self.preload, "force_replace_backend": self.force_replace_backend})
    }
}

/// how a sub-table is written (`Table` is the form doc/configure.md shows for listener HSTS:
/// `[listeners.hsts]` after the `[[listeners]]` entry)
#[derive(Clone, Copy, Debug, PartialEq, Eq)]
pub enum Syntax {
    /// `[parent.child]` after the parent's plain keys
    Table,
    /// `child = { ... }`
    Inline,
}

/// an answer template: inline literal or `file://` path (body = the file's content)
#[derive(Clone, Debug, PartialEq)]
pub struct Answer {
    pub toml_value: String,
    pub body: String,
}

#[derive(Clone, Debug)]
pub struct Listener {
    pub proto: LProto,
    /// text of the `protocol` key; None = key omitted (neighbour)
    pub proto_text: Option<String>,
    pub addr: SocketAddr,
    pub opts: Opts,
    /// index into the certificate pool: default certificate of an HTTPS listener
    pub cert: Option<usize>,
    /// overrides the certificate path (neighbour: missing file)
    pub cert_path_override: Option<String>,
    pub hsts: Option<Hsts>,
    pub hsts_syntax: Syntax,
    pub answers: BTreeMap<String, Answer>,
    pub answers_syntax: Syntax,
    /// legacy `answer_NNN = "/path"`: (code, path, content)
    pub legacy_answers: Vec<(u16, String, String)>,
}

impl Listener {
    pub fn new(proto: LProto, addr: SocketAddr) -> Listener {
        Listener {
            proto,
            proto_text: Some(proto.name().to_owned()),
            addr,
            opts: Opts::new(),
            cert: None,
            cert_path_override: None,
            hsts: None,
            hsts_syntax: Syntax::Table,
            answers: BTreeMap::new(),
            answers_syntax: Syntax::Table,
            legacy_answers: Vec::new(),
        }
    }
}

#[derive(Clone, Debug)]
pub struct Frontend {
    pub addr: SocketAddr,
    pub hostname: Option<String>,
    pub path: Option<String>,
    /// 0 PREFIX, 1 REGEX, 2 EQUALS
    pub path_type: Option<u8>,
    pub method: Option<String>,
    /// 0 PRE, 1 POST, 2 TREE
    pub position: Option<u8>,
    pub tags: Option<BTreeMap<String, String>>,
    pub cert: Option<usize>,
    pub hsts: Option<Hsts>,
    /// redirect, redirect_scheme, redirect_template, rewrite_host, rewrite_path, rewrite_port,
    /// required_auth
    pub opts: Opts,
    /// (position, key, value)
    pub headers: Vec<(String, String, String)>,
}

impl Frontend {
    pub fn new(addr: SocketAddr) -> Frontend {
        Frontend {
            addr,
            hostname: None,
            path: None,
            path_type: None,
            method: None,
            position: None,
            tags: None,
            cert: None,
            hsts: None,
            opts: Opts::new(),
            headers: Vec::new(),
        }
    }
}

#[derive(Clone, Debug)]
pub struct Backend {
    pub addr: SocketAddr,
    pub weight: Option<u8>,
    pub sticky_id: Option<String>,
    pub backup: Option<bool>,
    pub backend_id: Option<String>,
}

#[derive(Clone, Debug)]
pub struct Cluster {
    pub id: String,
    pub http: bool,
    pub proto_text: String,
    pub frontends: Vec<Frontend>,
    pub backends: Vec<Backend>,
    pub opts: Opts,
    /// (path, content)
    pub answer_503: Option<(String, String)>,
    pub answers: BTreeMap<String, Answer>,
    /// uri + optional interval/timeout/healthy_threshold/unhealthy_threshold/expected_status
    pub health_check: Option<(String, Opts)>,
    /// `[clusters.<id>.udp]` keys, and the optional `[clusters.<id>.udp.health]` keys
    pub udp: Option<(Opts, Option<Opts>)>,
    pub fronts_inline: bool,
    pub backends_inline: bool,
    pub sub_inline: bool,
}

impl Cluster {
    pub fn new(id: String, http: bool) -> Cluster {
        Cluster {
            id,
            http,
            proto_text: if http { "http" } else { "tcp" }.to_owned(),
            frontends: Vec::new(),
            backends: Vec::new(),
            opts: Opts::new(),
            answer_503: None,
            answers: BTreeMap::new(),
            health_check: None,
            udp: None,
            fronts_inline: true,
            backends_inline: true,
            sub_inline: false,
        }
    }
}

/// per-file facts about a pool certificate (so that one certificate is always declared the same
/// way inside a file: sozu documents that a certificate already loaded on an address is skipped)
#[derive(Clone, Debug, Default)]
pub struct CertUse {
    pub with_chain: bool,
    pub tls_versions: Option<Vec<String>>,
    /// path prefix override: Some(dir) = reference the copy written into the run directory
    pub copied: bool,
}

#[derive(Clone, Debug, Default)]
pub struct Model {
    pub global: Opts,
    pub listeners: Vec<Listener>,
    pub clusters: Vec<Cluster>,
    pub cert_use: Vec<CertUse>,
    pub clusters_first: bool,
    pub comments: bool,
    /// write `[clusters]` even when empty
    pub clusters_header: bool,
}

// ------------------------------------------------------------------------------------------
// certificate pool

pub const CERT_FILES: &[(&str, &str, Option<&str>)] = &[
    ("/repo/lib/assets/certificate.pem", "/repo/lib/assets/key.pem", Some("/repo/lib/assets/certificate_chain.pem")),
    ("/repo/lib/assets/local-certificate.pem", "/repo/lib/assets/local-key.pem", None),
    ("/repo/lib/assets/cert_test.pem", "/repo/lib/assets/key_test.pem", None),
    ("/repo/lib/assets/cn-ne-san-cert.pem", "/repo/lib/assets/cn-ne-san-key.pem", Some("/repo/lib/assets/certificate_chain.pem")),
    ("/repo/lib/assets/multi-sni-cert.pem", "/repo/lib/assets/multi-sni-key.pem", None),
    ("/repo/command/assets/certificate.pem", "/repo/command/assets/key.pem", None),
];

pub struct CertData {
    pub cert: String,
    pub key: String,
    pub chain: Option<String>,
}

pub fn cert_pool() -> &'static Vec<CertData> {
    static P: std::sync::OnceLock<Vec<CertData>> = std::sync::OnceLock::new();
    P.get_or_init(|| {
        CERT_FILES
            .iter()
            .map(|(c, k, ch)| CertData {
                cert: std::fs::read_to_string(c).unwrap_or_default(),
                key: std::fs::read_to_string(k).unwrap_or_default(),
                chain: ch.map(|p| std::fs::read_to_string(p).unwrap_or_default()),
            })
            .collect()
    })
}

// ------------------------------------------------------------------------------------------
// rendering

pub fn toml_str(s: &str) -> String {
    let mut o = String::with_capacity(s.len() + 2);
    o.push('"');
    for c in s.chars() {
        match c {
            '"' => o.push_str("\\\""),
            '\\' => o.push_str("\\\\"),
            '\n' => o.push_str("\\n"),
            '\r' => o.push_str("\\r"),
            '\t' => o.push_str("\\t"),
            c if (c as u32) < 0x20 || c as u32 == 0x7f => {
                let _ = write!(o, "\\u{:04X}", c as u32);
            }
            c => o.push(c),
        }
    }
    o.push('"');
    o
}

fn toml_key(k: &str) -> String {
    if !k.is_empty() && k.bytes().all(|b| b.is_ascii_alphanumeric() || b == b'_' || b == b'-') {
        k.to_owned()
    } else {
        toml_str(k)
    }
}

fn inline_map(m: &BTreeMap<String, String>) -> String {
    let body: Vec<String> = m.iter().map(|(k, v)| format!("{} = {}", toml_key(k), toml_str(v))).collect();
    if body.is_empty() { "{}".to_owned() } else { format!("{{ {} }}", body.join(", ")) }
}

fn inline_pairs(p: &[(String, String)]) -> String {
    if p.is_empty() {
        return "{}".to_owned();
    }
    format!("{{ {} }}", p.iter().map(|(k, v)| format!("{k} = {v}")).collect::<Vec<_>>().join(", "))
}

fn opts_pairs(o: &Opts) -> Vec<(String, String)> {
    o.iter().map(|(k, v)| ((*k).to_owned(), v.render())).collect()
}

pub struct Paths<'a> {
    /// directory holding copies of the pool certificates (`c<idx>.pem`, `k<idx>.pem`, `ch<idx>.pem`)
    pub copy_dir: &'a str,
}

impl Model {
    pub fn cert_paths(&self, idx: usize, paths: &Paths) -> (String, String, Option<String>) {
        let (c, k, ch) = CERT_FILES[idx];
        let u = self.cert_use.get(idx).cloned().unwrap_or_default();
        let chain = if u.with_chain { ch } else { None };
        if u.copied {
            (
                format!("{}/c{idx}.pem", paths.copy_dir),
                format!("{}/k{idx}.pem", paths.copy_dir),
                chain.map(|_| format!("{}/ch{idx}.pem", paths.copy_dir)),
            )
        } else {
            (c.to_owned(), k.to_owned(), chain.map(|s| s.to_owned()))
        }
    }

    fn frontend_pairs(&self, f: &Frontend, paths: &Paths, with_sub: bool) -> Vec<(String, String)> {
        let mut p: Vec<(String, String)> = vec![("address".to_owned(), toml_str(&f.addr.to_string()))];
        if let Some(h) = &f.hostname {
            p.push(("hostname".to_owned(), toml_str(h)));
        }
        if let Some(x) = &f.path {
            p.push(("path".to_owned(), toml_str(x)));
        }
        if let Some(t) = f.path_type {
            p.push(("path_type".to_owned(), toml_str(["PREFIX", "REGEX", "EQUALS"][t as usize])));
        }
        if let Some(m) = &f.method {
            p.push(("method".to_owned(), toml_str(m)));
        }
        if let Some(t) = f.position {
            p.push(("position".to_owned(), toml_str(["PRE", "POST", "TREE"][t as usize])));
        }
        if let Some(t) = &f.tags {
            p.push(("tags".to_owned(), inline_map(t)));
        }
        if let Some(c) = f.cert {
            let (cp, kp, chp) = self.cert_paths(c, paths);
            p.push(("certificate".to_owned(), toml_str(&cp)));
            p.push(("key".to_owned(), toml_str(&kp)));
            if let Some(ch) = chp {
                p.push(("certificate_chain".to_owned(), toml_str(&ch)));
            }
            if let Some(v) = self.cert_use.get(c).and_then(|u| u.tls_versions.clone()) {
                p.push(("tls_versions".to_owned(), Tv::L(v).render()));
            }
        }
        p.extend(opts_pairs(&f.opts));
        if with_sub {
            if let Some(h) = &f.hsts {
                p.push(("hsts".to_owned(), inline_pairs(&h.pairs())));
            }
            if !f.headers.is_empty() {
                let hs: Vec<String> = f
                    .headers
                    .iter()
                    .map(|(pos, k, v)| {
                        format!("{{ position = {}, key = {}, value = {} }}", toml_str(pos), toml_str(k), toml_str(v))
                    })
                    .collect();
                p.push(("headers".to_owned(), format!("[{}]", hs.join(", "))));
            }
        }
        p
    }

    pub fn render(&self, rng: &mut Rng, paths: &Paths) -> String {
        let mut o = String::new();
        if self.comments {
            o.push_str("# generated by vh C20\n\n");
        }
        let mut g = opts_pairs(&self.global);
        rng.shuffle(&mut g);
        for (k, v) in g {
            let _ = writeln!(o, "{k} = {v}");
        }
        o.push('\n');
        let mut ls = String::new();
        for l in &self.listeners {
            ls.push_str("[[listeners]]\n");
            let mut p: Vec<(String, String)> = Vec::new();
            if let Some(t) = &l.proto_text {
                p.push(("protocol".to_owned(), toml_str(t)));
            }
            p.push(("address".to_owned(), toml_str(&l.addr.to_string())));
            p.extend(opts_pairs(&l.opts));
            if let Some(c) = l.cert {
                let (cp, kp, chp) = self.cert_paths(c, paths);
                let cp = l.cert_path_override.clone().unwrap_or(cp);
                p.push(("certificate".to_owned(), toml_str(&cp)));
                p.push(("key".to_owned(), toml_str(&kp)));
                if let Some(ch) = chp {
                    p.push(("certificate_chain".to_owned(), toml_str(&ch)));
                }
            }
            for (code, path, _) in &l.legacy_answers {
                p.push((format!("answer_{code}"), toml_str(path)));
            }
            if let (Some(h), Syntax::Inline) = (&l.hsts, l.hsts_syntax) {
                p.push(("hsts".to_owned(), inline_pairs(&h.pairs())));
            }
            if !l.answers.is_empty() && l.answers_syntax == Syntax::Inline {
                let m: Vec<(String, String)> =
                    l.answers.iter().map(|(k, a)| (toml_str(k), a.toml_value.clone())).collect();
                p.push(("answers".to_owned(), inline_pairs(&m)));
            }
            rng.shuffle(&mut p);
            for (k, v) in p {
                let _ = writeln!(ls, "{k} = {v}");
            }
            if !l.answers.is_empty() && l.answers_syntax != Syntax::Inline {
                ls.push_str("[listeners.answers]\n");
                for (k, a) in &l.answers {
                    let _ = writeln!(ls, "{} = {}", toml_str(k), a.toml_value);
                }
            }
            if let (Some(h), Syntax::Table) = (&l.hsts, l.hsts_syntax) {
                ls.push_str("[listeners.hsts]\n");
                for (k, v) in h.pairs() {
                    let _ = writeln!(ls, "{k} = {v}");
                }
            }
            ls.push('\n');
        }
        let mut cs = String::new();
        if self.clusters_header || (!self.clusters.is_empty() && rng.bool()) {
            cs.push_str("[clusters]\n\n");
        }
        for c in &self.clusters {
            let cid = toml_key(&c.id);
            let _ = writeln!(cs, "[clusters.{cid}]");
            let mut p: Vec<(String, String)> = vec![("protocol".to_owned(), toml_str(&c.proto_text))];
            p.extend(opts_pairs(&c.opts));
            if let Some((path, _)) = &c.answer_503 {
                p.push(("answer_503".to_owned(), toml_str(path)));
            }
            if c.fronts_inline || c.frontends.is_empty() {
                let fs: Vec<String> = c
                    .frontends
                    .iter()
                    .map(|f| format!("  {},\n", inline_pairs(&self.frontend_pairs(f, paths, true))))
                    .collect();
                p.push(("frontends".to_owned(), if fs.is_empty() { "[]".to_owned() } else { format!("[\n{}]", fs.concat()) }));
            }
            if c.backends_inline || c.backends.is_empty() {
                let bs: Vec<String> =
                    c.backends.iter().map(|b| format!("  {},\n", inline_pairs(&backend_pairs(b)))).collect();
                p.push(("backends".to_owned(), if bs.is_empty() { "[]".to_owned() } else { format!("[\n{}]", bs.concat()) }));
            }
            if c.sub_inline {
                if let Some((uri, ho)) = &c.health_check {
                    let mut hp = vec![("uri".to_owned(), toml_str(uri))];
                    hp.extend(opts_pairs(ho));
                    p.push(("health_check".to_owned(), inline_pairs(&hp)));
                }
                if !c.answers.is_empty() {
                    let m: Vec<(String, String)> =
                        c.answers.iter().map(|(k, a)| (toml_str(k), a.toml_value.clone())).collect();
                    p.push(("answers".to_owned(), inline_pairs(&m)));
                }
                if let Some((uo, uh)) = &c.udp {
                    let mut up = opts_pairs(uo);
                    if let Some(h) = uh {
                        up.push(("health".to_owned(), inline_pairs(&opts_pairs(h))));
                    }
                    p.push(("udp".to_owned(), inline_pairs(&up)));
                }
            }
            rng.shuffle(&mut p);
            for (k, v) in p {
                let _ = writeln!(cs, "{k} = {v}");
            }
            if !c.sub_inline {
                if let Some((uri, ho)) = &c.health_check {
                    let _ = writeln!(cs, "[clusters.{cid}.health_check]\nuri = {}", toml_str(uri));
                    for (k, v) in opts_pairs(ho) {
                        let _ = writeln!(cs, "{k} = {v}");
                    }
                }
                if !c.answers.is_empty() {
                    let _ = writeln!(cs, "[clusters.{cid}.answers]");
                    for (k, a) in &c.answers {
                        let _ = writeln!(cs, "{} = {}", toml_str(k), a.toml_value);
                    }
                }
                if let Some((uo, uh)) = &c.udp {
                    let _ = writeln!(cs, "[clusters.{cid}.udp]");
                    for (k, v) in opts_pairs(uo) {
                        let _ = writeln!(cs, "{k} = {v}");
                    }
                    if let Some(h) = uh {
                        let _ = writeln!(cs, "[clusters.{cid}.udp.health]");
                        for (k, v) in opts_pairs(h) {
                            let _ = writeln!(cs, "{k} = {v}");
                        }
                    }
                }
            }
            if !c.fronts_inline {
                for f in &c.frontends {
                    let _ = writeln!(cs, "[[clusters.{cid}.frontends]]");
                    for (k, v) in self.frontend_pairs(f, paths, false) {
                        let _ = writeln!(cs, "{k} = {v}");
                    }
                    if let Some(h) = &f.hsts {
                        let _ = writeln!(cs, "[clusters.{cid}.frontends.hsts]");
                        for (k, v) in h.pairs() {
                            let _ = writeln!(cs, "{k} = {v}");
                        }
                    }
                    for (pos, k, v) in &f.headers {
                        let _ = writeln!(
                            cs,
                            "[[clusters.{cid}.frontends.headers]]\nposition = {}\nkey = {}\nvalue = {}",
                            toml_str(pos),
                            toml_str(k),
                            toml_str(v)
                        );
                    }
                }
            }
            if !c.backends_inline {
                for b in &c.backends {
                    let _ = writeln!(cs, "[[clusters.{cid}.backends]]");
                    for (k, v) in backend_pairs(b) {
                        let _ = writeln!(cs, "{k} = {v}");
                    }
                }
            }
            cs.push('\n');
        }
        if self.clusters_first {
            o.push_str(&cs);
            o.push_str(&ls);
        } else {
            o.push_str(&ls);
            o.push_str(&cs);
        }
        o
    }
}

fn backend_pairs(b: &Backend) -> Vec<(String, String)> {
    let mut p = vec![("address".to_owned(), toml_str(&b.addr.to_string()))];
    if let Some(w) = b.weight {
        p.push(("weight".to_owned(), w.to_string()));
    }
    if let Some(s) = &b.sticky_id {
        p.push(("sticky_id".to_owned(), toml_str(s)));
    }
    if let Some(x) = b.backup {
        p.push(("backup".to_owned(), x.to_string()));
    }
    if let Some(s) = &b.backend_id {
        p.push(("backend_id".to_owned(), toml_str(s)));
    }
    p
}
