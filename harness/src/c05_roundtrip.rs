//! C05 — a configuration survives every save / replay path unchanged.
//!
//! Direct lab on `sozu_command_lib::state::ConfigState`. Reachable states are built by random
//! command histories (`cops::gen_history`), by a field-coverage builder and by a "large value"
//! builder; each state S goes through the four real encode/replay paths:
//!   (a) `produce_initial_state()` -> dispatch on a fresh state (worker bootstrap),
//!   (b) `write_requests_to_file` -> whole-file `parse_several_requests` -> dispatch, and for a
//!       few hundred states per run the REAL `load_state` of an in-process `CommandHub` (hub lab
//!       of C09, scripted workers acknowledging everything), read back through the real
//!       `SaveState`,
//!       plus the history "SaveState(P); configuration shrinks / grows / becomes empty (commands sent
//!       to the hub); SaveState(P) again" with 2-4 saves on the SAME path: after each save the file
//!       must be exactly the requests of the current configuration (whole-file parse, no trailing
//!       byte) and `LoadState(P)` into a fresh hub must succeed and reproduce it,
//!   (c) `write_initial_state_to_file` -> `read_initial_state_from_file` -> dispatch,
//!   (d) `serde_json` of `sozu::command::upgrade::UpgradeData { state: S, .. }` and back.
//! Oracle: no replayed command is rejected and the result equals S on every configuration map
//! (`request_counts` ignored). S is also rebuilt from its objects in two shuffled insertion
//! orders; the rebuilds must replay to the same configuration.
//!
//! The generators (`cgen`, `cops`) and the state comparison (`cmp`) are shared with C06 / C07.

pub mod cgen;
pub mod cmp;
pub mod cops;

use std::{
    collections::BTreeMap,
    fs::File,
    io::{Read, Seek, SeekFrom, Write},
    sync::Mutex,
};

use serde_json::{Value, json};
use sozu::command::upgrade::UpgradeData;
use sozu_command_lib::{
    config::Config,
    parser::parse_several_requests,
    proto::command::{
        ActivateListener, AddCertificate, CertificateAndKey, ListenerType, ReplaceCertificate,
        Request, SocketAddress, WorkerRequest, request::RequestType,
    },
    request::read_initial_state_from_file,
    state::ConfigState,
};

use self::{
    cgen::{CERT_FIXTURES, CHAIN_PEM, FRONT_ADDRS, G, Op, ops_json, req, req_json, sa, verb},
    cmp::{Delta, Mode, compare, object_count, state_sizes},
    cops::{Fx, apply, extend_history, fingerprint_hex, fixtures},
};
use crate::common::{Ctx, Report, Rng, guard, par_cases};

// ---------------------------------------------------------------- helpers shared with C06/C07

/// redirect fd 1 to /dev/null while alive (`write_initial_state_to_file` prints one line per
/// call on stdout, which would drown the verdict lines)
pub struct StdoutGag {
    saved: i32,
}

impl StdoutGag {
    pub fn new() -> StdoutGag {
        let _ = std::io::stdout().flush();
        unsafe {
            let saved = libc::dup(1);
            let null = libc::open(c"/dev/null".as_ptr(), libc::O_WRONLY);
            if saved >= 0 && null >= 0 {
                libc::dup2(null, 1);
            }
            if null >= 0 {
                libc::close(null);
            }
            StdoutGag { saved }
        }
    }
}

impl Drop for StdoutGag {
    fn drop(&mut self) {
        let _ = std::io::stdout().flush();
        unsafe {
            if self.saved >= 0 {
                libc::dup2(self.saved, 1);
                libc::close(self.saved);
            }
        }
    }
}

pub fn count_ops(rep: &mut Report, ops: &[Op]) {
    for o in ops {
        rep.obs(&format!("op:{}:{}", verb(&o.req), if o.ok { "accepted" } else { "rejected" }), 1);
        if !o.ok {
            rep.obs("rejected_ops", 1);
        }
    }
}

/// (context carrying the seed stored in the replay file, case numbers of its witnesses)
pub fn replay_cases(ctx: &Ctx) -> Option<(Ctx, Vec<u64>)> {
    let path = ctx.replay.as_ref()?;
    let v: Value = serde_json::from_str(&std::fs::read_to_string(path).unwrap_or_default()).unwrap_or(Value::Null);
    let mut c = ctx.clone();
    if let Some(seed) = v["seed"].as_u64() {
        c.seed = seed;
    }
    let cases = v["witnesses"]
        .as_array()
        .map(|a| a.iter().filter_map(|w| w["case"].as_u64()).collect())
        .unwrap_or_default();
    Some((c, cases))
}

fn tmpfile() -> std::io::Result<File> {
    if std::path::Path::new("/dev/shm").is_dir() {
        if let Ok(f) = tempfile::tempfile_in("/dev/shm") {
            return Ok(f);
        }
    }
    tempfile::tempfile()
}

// ---------------------------------------------------------------- the four paths

struct Replayed {
    state: ConfigState,
    /// (index, verb, error) of replayed commands that were rejected
    rejected: Vec<(usize, String, String)>,
}

fn replay<'a>(requests: impl Iterator<Item = &'a Request>) -> Replayed {
    let mut state = ConfigState::new();
    let mut rejected = Vec::new();
    for (i, r) in requests.enumerate() {
        if let Err(e) = state.dispatch(r) {
            rejected.push((i, verb(r).to_owned(), e.to_string()));
        }
    }
    Replayed { state, rejected }
}

fn first_altered(a: &[WorkerRequest], b: &[WorkerRequest]) -> Option<(usize, String)> {
    if a.len() != b.len() {
        return Some((a.len().min(b.len()), "count".to_owned()));
    }
    a.iter().zip(b).position(|(x, y)| x != y).map(|i| (i, verb(&a[i].content).to_owned()))
}

struct CaseInfo<'a> {
    case: u64,
    kind: &'static str,
    ops: &'a [Op],
    at: usize,
}

fn witness(ctx: &Ctx, ci: &CaseInfo, path: &str, extra: Value) -> Value {
    json!({"case": ci.case, "seed": ctx.seed, "kind": ci.kind, "checked_after_ops": ci.at, "path": path,
           "detail": extra, "history": ops_json(&ci.ops[..ci.at.min(ci.ops.len())])})
}

/// judge one replayed state against S; returns the difference classes (for cross-path folding)
fn judge(
    ctx: &Ctx,
    rep: &mut Report,
    ci: &CaseInfo,
    path: &str,
    s: &ConfigState,
    r: &Replayed,
    report: bool,
    strict_buckets: bool,
) -> Vec<String> {
    let mut classes = Vec::new();
    for (i, v, e) in &r.rejected {
        classes.push(format!("replay_rejected/{v}"));
        if report {
            rep.violation(
                &format!("roundtrip/{path}/replay_rejected/{v}"),
                &format!("replaying the commands generated from a reachable state: command #{i} ({v}) was rejected: {e}"),
                witness(ctx, ci, path, json!({"command_index": i, "verb": v, "error": e})),
            );
        }
    }
    let deltas: Vec<Delta> = compare(s, &r.state, Mode::Strict);
    let mut seen = Vec::new();
    for d in &deltas {
        if d.is_bucket_only() && !strict_buckets {
            rep.obs(&format!("exempt:empty_bucket_not_replayed:{}", d.map), 1);
            continue;
        }
        let class = d.class();
        if seen.contains(&class) {
            continue;
        }
        seen.push(class.clone());
        classes.push(format!("state_differs/{class}"));
        if report {
            rep.violation(
                &format!("roundtrip/{path}/state_differs/{class}"),
                &format!("state replayed through path '{path}' differs from the original on map {} (key {}, {})", d.map, d.key, d.kind),
                witness(ctx, ci, path, json!({"expected_is_left": true, "difference": d.to_json(),
                    "all_differences": deltas.iter().take(8).map(|d| json!({"map": d.map, "key": d.key, "kind": d.kind, "fields": d.fields})).collect::<Vec<_>>()})),
            );
        }
    }
    if classes.is_empty() {
        rep.obs(&format!("path:{path}:ok"), 1);
    } else {
        rep.obs(&format!("path:{path}:failed"), 1);
    }
    classes
}

fn check_paths(ctx: &Ctx, rep: &mut Report, ci: &CaseInfo, s: &ConfigState) {
    let strict_buckets = ctx.opt_u64("strict_buckets", 0) == 1;
    rep.obs("states_checked", 1);
    rep.obs_max("objects_in_state", object_count(s) as u64);

    // (a) in-memory bootstrap
    let init = s.produce_initial_state();
    rep.obs("commands_generated", init.requests.len() as u64);
    rep.obs_max("commands_generated_per_state", init.requests.len() as u64);
    let ra = replay(init.requests.iter().map(|w| &w.content));
    let classes_a = judge(ctx, rep, ci, "bootstrap", s, &ra, true, strict_buckets);

    // (b) JSON state file
    match tmpfile() {
        Err(e) => rep.inconclusive(&format!("cannot create temp file: {e}")),
        Ok(mut file) => match s.write_requests_to_file(&mut file) {
            Err(e) => rep.violation(
                "roundtrip/state_file/write_failed",
                &format!("write_requests_to_file failed: {e}"),
                witness(ctx, ci, "state_file", json!({"error": e.to_string()})),
            ),
            Ok(count) => {
                let _ = file.seek(SeekFrom::Start(0));
                let mut all = Vec::new();
                let _ = file.read_to_end(&mut all);
                rep.obs_max("state_file_bytes", all.len() as u64);
                let longest = all.split(|b| *b == 0).map(|c| c.len()).max().unwrap_or(0);
                rep.obs_max("state_file_longest_record", longest as u64);
                // independent whole-file parse
                let whole = match parse_several_requests::<WorkerRequest>(&all) {
                    Ok((rest, reqs)) if rest.is_empty() => Some(reqs),
                    _ => None,
                };
                if whole.is_none() || whole.as_ref().map(|w| w.len()) != Some(count) {
                    rep.violation(
                        "roundtrip/state_file/parse_failed",
                        "parse_several_requests could not parse back the whole file written by write_requests_to_file",
                        witness(ctx, ci, "state_file", json!({"written": count, "parsed": whole.as_ref().map(|w| w.len()), "file_bytes": all.len()})),
                    );
                }
                if longest + 1 > 200000 {
                    rep.obs("state_file_record_larger_than_200000_bytes", 1);
                }
                match whole {
                    None => rep.obs("path:state_file:failed", 1),
                    Some(reqs) => {
                        let altered = first_altered(&init.requests, &reqs);
                        if let Some((i, v)) = &altered {
                            rep.violation(
                                &format!("roundtrip/state_file/requests_altered_by_encoding/{v}"),
                                &format!("command #{i} read back from the state file differs from the command that was written"),
                                witness(ctx, ci, "state_file", json!({"index": i, "written": init.requests.get(*i).map(|w| req_json(&w.content)), "read": reqs.get(*i).map(|w| req_json(&w.content)), "written_count": init.requests.len(), "read_count": reqs.len()})),
                            );
                        }
                        let rb = replay(reqs.iter().map(|w| &w.content));
                        // same commands as (a) => same outcome: reported once under (a)
                        let classes_b = judge(ctx, rep, ci, "state_file", s, &rb, altered.is_some(), strict_buckets);
                        if altered.is_none() && classes_b != classes_a {
                            rep.violation(
                                "roundtrip/state_file/nondeterministic_replay",
                                "the same command list replayed twice gave different outcomes",
                                witness(ctx, ci, "state_file", json!({"bootstrap": classes_a, "state_file": classes_b})),
                            );
                        }
                    }
                }
            }
        },
    }

    // (c) protobuf bootstrap blob
    match tmpfile() {
        Err(e) => rep.inconclusive(&format!("cannot create temp file: {e}")),
        Ok(mut file) => match s.write_initial_state_to_file(&mut file) {
            Err(e) => rep.violation(
                "roundtrip/proto_blob/write_failed",
                &format!("write_initial_state_to_file failed: {e}"),
                witness(ctx, ci, "proto_blob", json!({"error": e.to_string()})),
            ),
            Ok(_) => {
                let _ = file.seek(SeekFrom::Start(0));
                match read_initial_state_from_file(&mut file) {
                    Err(e) => {
                        rep.obs("path:proto_blob:failed", 1);
                        rep.violation(
                            "roundtrip/proto_blob/decode_failed",
                            &format!("read_initial_state_from_file failed on the blob written by write_initial_state_to_file: {e}"),
                            witness(ctx, ci, "proto_blob", json!({"error": e.to_string()})),
                        );
                    }
                    Ok(decoded) => {
                        let altered = first_altered(&init.requests, &decoded.requests);
                        if let Some((i, v)) = &altered {
                            rep.violation(
                                &format!("roundtrip/proto_blob/requests_altered_by_encoding/{v}"),
                                &format!("command #{i} decoded from the protobuf blob differs from the command that was encoded"),
                                witness(ctx, ci, "proto_blob", json!({"index": i, "written": init.requests.get(*i).map(|w| req_json(&w.content)), "read": decoded.requests.get(*i).map(|w| req_json(&w.content))})),
                            );
                        }
                        let rc = replay(decoded.requests.iter().map(|w| &w.content));
                        let classes_c = judge(ctx, rep, ci, "proto_blob", s, &rc, altered.is_some(), strict_buckets);
                        if altered.is_none() && classes_c != classes_a {
                            rep.violation(
                                "roundtrip/proto_blob/nondeterministic_replay",
                                "the same command list replayed twice gave different outcomes",
                                witness(ctx, ci, "proto_blob", json!({"bootstrap": classes_a, "proto_blob": classes_c})),
                            );
                        }
                    }
                }
            }
        },
    }

    // (d) JSON upgrade payload
    let data = UpgradeData {
        command_socket_fd: 3,
        config: Config::default(),
        next_client_id: 1,
        next_session_id: 2,
        next_task_id: 3,
        next_worker_id: 4,
        workers: vec![],
        state: s.clone(),
        boot_generation: 1,
    };
    match serde_json::to_string(&data) {
        Err(e) => {
            rep.obs("path:upgrade_json:failed", 1);
            rep.violation(
                "roundtrip/upgrade_json/encode_failed",
                &format!("serde_json::to_string(UpgradeData) failed: {e}"),
                witness(ctx, ci, "upgrade_json", json!({"error": e.to_string()})),
            );
        }
        Ok(text) => {
            rep.obs_max("upgrade_json_bytes", text.len() as u64);
            match serde_json::from_str::<UpgradeData>(&text) {
                Err(e) => {
                    rep.obs("path:upgrade_json:failed", 1);
                    rep.violation(
                        "roundtrip/upgrade_json/decode_failed",
                        &format!("the JSON upgrade payload cannot be read back: {e}"),
                        witness(ctx, ci, "upgrade_json", json!({"error": e.to_string()})),
                    );
                }
                Ok(back) => {
                    // the state is carried verbatim: strict equality, buckets included
                    let rd = Replayed { state: back.state, rejected: vec![] };
                    judge(ctx, rep, ci, "upgrade_json", s, &rd, true, true);
                }
            }
        }
    }
}

// ---------------------------------------------------------------- rebuilds

/// S as commands derived from its public maps (not from `generate_requests`), in groups that
/// must stay together; shuffled by the caller
fn object_commands(s: &ConfigState, rng: &mut Rng, fx: &Fx) -> Vec<Vec<Request>> {
    let mut groups: Vec<Vec<Request>> = Vec::new();
    macro_rules! listeners {
        ($map:expr, $add:path, $kind:expr) => {
            for l in $map.values() {
                let mut l = l.clone();
                if l.active && rng.bool() {
                    l.active = false;
                    let address = l.address;
                    groups.push(vec![
                        req($add(l)),
                        req(RequestType::ActivateListener(ActivateListener { address, proxy: $kind as i32, from_scm: false })),
                    ]);
                } else {
                    groups.push(vec![req($add(l))]);
                }
            }
        };
    }
    listeners!(s.http_listeners, RequestType::AddHttpListener, ListenerType::Http);
    listeners!(s.https_listeners, RequestType::AddHttpsListener, ListenerType::Https);
    listeners!(s.tcp_listeners, RequestType::AddTcpListener, ListenerType::Tcp);
    listeners!(s.udp_listeners, RequestType::AddUdpListener, ListenerType::Udp);
    for c in s.clusters.values() {
        groups.push(vec![req(RequestType::AddCluster(c.clone()))]);
    }
    for b in s.backends.values().flatten() {
        groups.push(vec![req(RequestType::AddBackend(b.clone().to_add_backend()))]);
    }
    for f in s.http_fronts.values() {
        groups.push(vec![req(RequestType::AddHttpFrontend(f.clone().into()))]);
    }
    for f in s.https_fronts.values() {
        groups.push(vec![req(RequestType::AddHttpsFrontend(f.clone().into()))]);
    }
    for f in s.tcp_fronts.values().flatten() {
        groups.push(vec![req(RequestType::AddTcpFrontend(f.clone().into()))]);
    }
    for f in s.udp_fronts.values().flatten() {
        groups.push(vec![req(RequestType::AddUdpFrontend(f.clone().into()))]);
    }
    for (addr, certs) in &s.certificates {
        let address = SocketAddress::from(*addr);
        for c in certs.values() {
            if !c.names.is_empty() || c.get_overriding_names().map(|n| n.is_empty()).unwrap_or(true) {
                groups.push(vec![req(RequestType::AddCertificate(AddCertificate { address, certificate: c.clone(), expired_at: None }))]);
            } else {
                // stored without names: only reachable through ReplaceCertificate
                let present: Vec<String> = certs.values().map(fingerprint_hex).collect();
                let dummy = fx.certs.iter().map(|i| &CERT_FIXTURES[*i]).find(|fx| {
                    let d = CertificateAndKey { certificate: fx.cert.to_owned(), certificate_chain: vec![], key: String::new(), versions: vec![], names: vec!["d".to_owned()] };
                    !present.contains(&fingerprint_hex(&d))
                });
                let Some(dummy) = dummy else { continue };
                let d = CertificateAndKey { certificate: dummy.cert.to_owned(), certificate_chain: vec![], key: String::new(), versions: vec![], names: vec!["d".to_owned()] };
                let old = fingerprint_hex(&d);
                groups.push(vec![
                    req(RequestType::AddCertificate(AddCertificate { address, certificate: d, expired_at: None })),
                    req(RequestType::ReplaceCertificate(ReplaceCertificate { address, new_certificate: c.clone(), old_fingerprint: old, new_expired_at: None })),
                ]);
            }
        }
    }
    groups
}

fn request_multiset(s: &ConfigState) -> Vec<String> {
    let mut v: Vec<String> = s.produce_initial_state().requests.iter().map(|w| format!("{:?}", w.content)).collect();
    v.sort();
    v
}

fn check_rebuilds(ctx: &Ctx, rep: &mut Report, ci: &CaseInfo, s: &ConfigState, rng: &mut Rng) {
    let fx = fixtures();
    let reference = request_multiset(s);
    // what S itself replays to (judged by check_paths); the rebuilds must replay to the same
    let s_replayed = replay(s.produce_initial_state().requests.iter().map(|w| &w.content));
    for round in 0..2 {
        let mut groups = object_commands(s, rng, fx);
        rng.shuffle(&mut groups);
        let mut r = ConfigState::new();
        let mut failed = false;
        for q in groups.iter().flatten() {
            if r.dispatch(q).is_err() {
                failed = true;
            }
        }
        if failed || !compare(s, &r, Mode::Loose).is_empty() {
            // the harness could not rebuild S from its objects: nothing to judge
            rep.obs("rebuild_not_equal_skipped", 1);
            continue;
        }
        rep.obs("rebuild_equal", 1);
        if !cmp::strictly_equal(s, &r) {
            rep.obs("rebuild_equal_up_to_bucket_order_or_empty_buckets", 1);
        }
        let replayed = replay(r.produce_initial_state().requests.iter().map(|w| &w.content));
        let deltas = compare(&s_replayed.state, &replayed.state, Mode::Loose);
        if let Some(d) = deltas.first() {
            rep.violation(
                &format!("roundtrip/rebuild/replay_differs/{}", d.class()),
                "the same configuration rebuilt in another insertion order replays to a different configuration",
                witness(ctx, ci, "rebuild", json!({"round": round, "difference": d.to_json()})),
            );
        } else if request_multiset(&r) != reference {
            rep.violation(
                "roundtrip/rebuild/generated_commands_differ",
                "two instances holding the same configuration (built in different orders) generate different command sets",
                witness(ctx, ci, "rebuild", json!({"round": round})),
            );
        } else {
            rep.obs("rebuild_replays_identically", 1);
        }
    }
}

// ---------------------------------------------------------------- field coverage

static FIELD_CLASSES: Mutex<BTreeMap<String, [u64; 3]>> = Mutex::new(BTreeMap::new());

/// proto default: false, 0, "", empty list/map, or a message whose fields are all absent/default
fn zeroish(v: &Value) -> bool {
    match v {
        Value::Null => true,
        Value::Bool(b) => !*b,
        Value::Number(n) => n.as_u64() == Some(0),
        Value::String(s) => s.is_empty(),
        Value::Array(a) => a.is_empty(),
        Value::Object(m) => m.values().all(zeroish),
    }
}

fn classify(prefix: &str, v: &Value, acc: &mut BTreeMap<String, [u64; 3]>) {
    let Some(o) = v.as_object() else { return };
    for (k, v) in o {
        let name = format!("{prefix}.{k}");
        let class = match v {
            Value::Null => 0,
            v if zeroish(v) => 1,
            _ => 2,
        };
        acc.entry(name.clone()).or_insert([0; 3])[class] += 1;
        if let Value::Object(m) = v {
            if !m.contains_key("ip") && !m.is_empty() && prefix.matches('.').count() < 2 && k != "tags" && k != "answers" {
                classify(&name, v, acc);
            }
        }
    }
}

fn record_field_classes(rep: &mut Report, s: &ConfigState) {
    let mut acc = BTreeMap::new();
    let j = |t: &dyn erased::Ser| t.to_json();
    for l in s.http_listeners.values() { classify("HttpListenerConfig", &j(l), &mut acc); }
    for l in s.https_listeners.values() { classify("HttpsListenerConfig", &j(l), &mut acc); }
    for l in s.tcp_listeners.values() { classify("TcpListenerConfig", &j(l), &mut acc); }
    for l in s.udp_listeners.values() { classify("UdpListenerConfig", &j(l), &mut acc); }
    for c in s.clusters.values() { classify("Cluster", &j(c), &mut acc); }
    for b in s.backends.values().flatten() {
        classify("AddBackend", &j(&b.clone().to_add_backend()), &mut acc);
    }
    for f in s.http_fronts.values().chain(s.https_fronts.values()) {
        let r: sozu_command_lib::proto::command::RequestHttpFrontend = f.clone().into();
        classify("RequestHttpFrontend", &j(&r), &mut acc);
    }
    for f in s.tcp_fronts.values().flatten() {
        let r: sozu_command_lib::proto::command::RequestTcpFrontend = f.clone().into();
        classify("RequestTcpFrontend", &j(&r), &mut acc);
    }
    for f in s.udp_fronts.values().flatten() {
        let r: sozu_command_lib::proto::command::RequestUdpFrontend = f.clone().into();
        classify("RequestUdpFrontend", &j(&r), &mut acc);
    }
    let mut v6 = false;
    let mut multi = false;
    for (a, certs) in &s.certificates {
        v6 |= a.is_ipv6() && !certs.is_empty();
        multi |= certs.len() >= 2;
        for c in certs.values() {
            let mut v = j(c);
            // PEM bodies are not interesting here
            if let Some(o) = v.as_object_mut() {
                o.remove("certificate");
            }
            classify("CertificateAndKey", &v, &mut acc);
        }
    }
    if multi { rep.obs("states_with_several_certificates_on_one_address", 1); }
    if v6 { rep.obs("states_with_certificates_on_ipv6", 1); }
    if s.http_listeners.keys().chain(s.https_listeners.keys()).chain(s.tcp_listeners.keys()).chain(s.udp_listeners.keys()).any(|a| a.is_ipv6()) {
        rep.obs("states_with_ipv6_listener", 1);
    }
    if !s.udp_listeners.is_empty() || s.udp_fronts.values().any(|v| !v.is_empty()) {
        rep.obs("states_with_udp_objects", 1);
    }
    if s.clusters.values().any(|c| c.health_check.is_some()) {
        rep.obs("states_with_health_check", 1);
    }
    if s.certificates.values().any(|m| m.is_empty()) || s.backends.values().any(|v| v.is_empty()) || s.tcp_fronts.values().any(|v| v.is_empty()) || s.udp_fronts.values().any(|v| v.is_empty()) {
        rep.obs("states_with_empty_bucket", 1);
    }
    for (k, n) in &acc {
        if k.matches('.').count() == 1 {
            let msg = k.split('.').next().unwrap_or("");
            rep.obs(&format!("fields:{msg}:absent"), n[0]);
            rep.obs(&format!("fields:{msg}:zero_or_empty"), n[1]);
            rep.obs(&format!("fields:{msg}:other"), n[2]);
        }
    }
    let mut g = FIELD_CLASSES.lock().unwrap_or_else(|e| e.into_inner());
    for (k, n) in acc {
        let e = g.entry(k).or_insert([0; 3]);
        for i in 0..3 {
            e[i] += n[i];
        }
    }
}

mod erased {
    use serde_json::Value;
    pub trait Ser {
        fn to_json(&self) -> Value;
    }
    impl<T: serde::Serialize> Ser for T {
        fn to_json(&self) -> Value {
            serde_json::to_value(self).unwrap_or(Value::Null)
        }
    }
}

// ---------------------------------------------------------------- cases

fn big_string(n: usize) -> String {
    let mut s = String::with_capacity(n + 64);
    s.push_str("HTTP/1.1 503 Service Unavailable\r\nContent-Length: 0\r\n\r\n");
    while s.len() < n {
        s.push_str("0123456789abcdef0123456789abcdef0123456789abcdef0123456789abcde\n");
    }
    s
}

/// case numbers from here on are hand-written minimal scenarios (run before the random cases)
pub const DIRECTED_BASE: u64 = 1 << 40;
const DIRECTED: u64 = 3;

pub fn fixture_cert(i: usize, names: &[&str]) -> CertificateAndKey {
    let fx = fixtures();
    let c = &CERT_FIXTURES[fx.certs[i % fx.certs.len()]];
    CertificateAndKey {
        certificate: c.cert.to_owned(),
        certificate_chain: vec![],
        key: c.key.to_owned(),
        versions: vec![],
        names: names.iter().map(|s| (*s).to_owned()).collect(),
    }
}

fn directed(k: u64) -> Vec<cops::Cmd> {
    let a = sa("127.0.0.1:443");
    match k {
        // certificate stored by ReplaceCertificate without explicit names
        0 => {
            let c0 = fixture_cert(0, &["x.example"]);
            let old = fingerprint_hex(&c0);
            vec![
                (req(RequestType::AddCertificate(AddCertificate { address: a, certificate: c0, expired_at: None })), "AddCertificate".to_owned()),
                (req(RequestType::ReplaceCertificate(ReplaceCertificate { address: a, new_certificate: fixture_cert(1, &[]), old_fingerprint: old, new_expired_at: None })), "ReplaceCertificate/existing_new_without_names".to_owned()),
            ]
        }
        // one value just above the loader's buffer
        1 => {
            let mut rng = Rng::new(5);
            let mut g = G::new(&mut rng, 0);
            let mut c = g.cluster("big".to_owned(), 0);
            c.answer_503 = Some(big_string(200_001));
            vec![(req(RequestType::AddCluster(c)), "AddCluster/large_answer".to_owned())]
        }
        // the same, below the buffer (must pass)
        _ => {
            let mut rng = Rng::new(5);
            let mut g = G::new(&mut rng, 0);
            let mut c = g.cluster("big".to_owned(), 0);
            c.answer_503 = Some(big_string(150_000));
            vec![(req(RequestType::AddCluster(c)), "AddCluster/large_answer".to_owned())]
        }
    }
}

fn build_case(ctx: &Ctx, case: u64, rng: &mut Rng) -> (&'static str, ConfigState, Vec<Op>, Option<usize>) {
    let fx = fixtures();
    if case >= DIRECTED_BASE {
        let mut st = ConfigState::new();
        let mut ops = Vec::new();
        for c in directed(case - DIRECTED_BASE) {
            apply(&mut st, c, &mut ops);
        }
        return ("directed", st, ops, None);
    }
    let sel = rng.below(100);
    let large_share = ctx.opt_u64("large_percent", 1);
    let mut st = ConfigState::new();
    let mut ops = Vec::new();
    if sel < large_share || ctx.opt("kind") == Some("large") {
        // a value larger than the loader's 200 000-byte buffer, around the boundary
        let mut g = G::new(rng, 2);
        extend_history(&mut g, &mut st, &mut ops, 6, fx);
        let n = *g.rng.pick(&[150_000usize, 199_000, 201_000, 400_000]);
        match g.rng.below(3) {
            0 => {
                let mut c = g.cluster("big".to_owned(), 0);
                c.answer_503 = Some(big_string(n));
                apply(&mut st, (req(RequestType::AddCluster(c)), "AddCluster/large_answer".to_owned()), &mut ops);
            }
            1 => {
                let mut l = g.https_listener(sa("127.0.0.1:443"));
                l.answers.insert("503".to_owned(), big_string(n));
                apply(&mut st, (req(RequestType::AddHttpsListener(l)), "AddHttpsListener/large_answer".to_owned()), &mut ops);
            }
            _ => {
                let mut c = g.cert(&fx.certs, 2);
                let link = CHAIN_PEM.to_owned();
                c.certificate_chain = std::iter::repeat(link.clone()).take(n / link.len().max(1) + 1).collect();
                apply(&mut st, (req(RequestType::AddCertificate(AddCertificate { address: sa("[::1]:443"), certificate: c, expired_at: None })), "AddCertificate/large_chain".to_owned()), &mut ops);
            }
        }
        return ("large_value", st, ops, None);
    }
    if sel < 30 {
        // field coverage: one object of every type per address family, every optional field
        // independently absent / default / non-default, several certificates per address
        let density = 2 + (case % 4);
        let mut g = G::new(rng, density);
        g.oddities = case % 3 == 0;
        for a in [FRONT_ADDRS[1], FRONT_ADDRS[3], FRONT_ADDRS[4]] {
            let a = sa(a);
            apply(&mut st, (req(RequestType::AddHttpListener(g.http_listener(a))), "AddHttpListener".to_owned()), &mut ops);
            apply(&mut st, (req(RequestType::AddHttpsListener(g.https_listener(a))), "AddHttpsListener".to_owned()), &mut ops);
            apply(&mut st, (req(RequestType::AddTcpListener(g.tcp_listener(a))), "AddTcpListener".to_owned()), &mut ops);
            apply(&mut st, (req(RequestType::AddUdpListener(g.udp_listener(a))), "AddUdpListener".to_owned()), &mut ops);
            for _ in 0..2 {
                apply(&mut st, (req(RequestType::AddHttpFrontend(g.http_front(a))), "AddHttpFrontend".to_owned()), &mut ops);
                apply(&mut st, (req(RequestType::AddHttpsFrontend(g.http_front(a))), "AddHttpsFrontend".to_owned()), &mut ops);
            }
            apply(&mut st, (req(RequestType::AddTcpFrontend(g.tcp_front(a))), "AddTcpFrontend".to_owned()), &mut ops);
            apply(&mut st, (req(RequestType::AddUdpFrontend(g.udp_front(a))), "AddUdpFrontend".to_owned()), &mut ops);
            let n_certs = g.rng.urange(2, 4);
            for _ in 0..n_certs {
                let c = g.cert(&fx.certs, 2);
                apply(&mut st, (req(RequestType::AddCertificate(AddCertificate { address: a, certificate: c, expired_at: None })), "AddCertificate".to_owned()), &mut ops);
            }
        }
        for _ in 0..4 {
            let id = g.cluster_id();
            let health = g.rng.below(2) as u8;
            apply(&mut st, (req(RequestType::AddCluster(g.cluster(id, health))), "AddCluster".to_owned()), &mut ops);
            for _ in 0..2 {
                apply(&mut st, (req(RequestType::AddBackend(g.backend())), "AddBackend".to_owned()), &mut ops);
            }
        }
        let extra = g.rng.urange(0, 12);
        extend_history(&mut g, &mut st, &mut ops, extra, fx);
        return ("field_coverage", st, ops, None);
    }
    let n_ops = rng.urange(1, ctx.tier.pick(60, 120));
    let density = 1 + rng.below(3);
    let mut g = G::new(rng, density);
    extend_history(&mut g, &mut st, &mut ops, n_ops, fx);
    let mid = if ops.len() >= 10 && g.rng.bool() { Some(g.rng.urange(3, ops.len() - 1)) } else { None };
    ("history", st, ops, mid)
}

fn run_case(ctx: &Ctx, case: u64, rep: &mut Report) {
    if case >= OVERWRITE_BASE {
        return run_overwrite_case(ctx, case, rep);
    }
    if case >= HUB_BASE {
        return run_hub_case(ctx, case, rep);
    }
    let mut rng = Rng::for_case(ctx.seed, 5, case);
    let (kind, st, ops, mid) = build_case(ctx, case, &mut rng);
    count_ops(rep, &ops);
    rep.obs(&format!("cases:{kind}"), 1);
    for o in &ops {
        if o.ok {
            match verb(&o.req) {
                "UpdateHttpListener" | "UpdateHttpsListener" | "UpdateTcpListener" | "UpdateUdpListener" => rep.obs("listener_patch_accepted", 1),
                "ReplaceCertificate" => rep.obs("certificate_replaced", 1),
                "RemoveListener" | "RemoveCluster" | "RemoveBackend" | "RemoveHttpFrontend" | "RemoveHttpsFrontend" | "RemoveTcpFrontend" | "RemoveUdpFrontend" => rep.obs("removal_of_present_object", 1),
                _ => {}
            }
        }
    }
    if let Some(mid) = mid {
        // an intermediate state of the same history (rebuilt by replaying the accepted prefix)
        let mut s = ConfigState::new();
        for o in &ops[..mid] {
            let _ = s.dispatch(&o.req);
        }
        let ci = CaseInfo { case, kind, ops: &ops, at: mid };
        check_paths(ctx, rep, &ci, &s);
    }
    let ci = CaseInfo { case, kind, ops: &ops, at: ops.len() };
    check_paths(ctx, rep, &ci, &st);
    record_field_classes(rep, &st);
    if kind != "large_value" && kind != "directed" {
        check_rebuilds(ctx, rep, &ci, &st, &mut rng);
    }
    let sizes = state_sizes(&st);
    let shape: Vec<u8> = ops.iter().flat_map(|o| [crate::common::rng::fnv1a(verb(&o.req).as_bytes()) as u8, o.ok as u8]).collect();
    rep.case_bytes(&shape, object_count(&st) >= 3);
    if case < 3 {
        rep.sample(json!({"case": case, "kind": kind, "ops": ops.len(), "accepted": ops.iter().filter(|o| o.ok).count(), "final_state_sizes": sizes,
            "first_ops": ops.iter().take(5).map(|o| json!({"label": o.label, "ok": o.ok})).collect::<Vec<_>>()}));
    }
}

// ---------------------------------------------------------------- hub-level state file path

/// case numbers from here on are hub cases: the state file goes through the REAL
/// `bin/src/command/requests.rs::load_state` / `save_state` of an in-process `CommandHub`
pub const HUB_BASE: u64 = 1 << 41;

const HUB_SIZES: &[usize] = &[60_000, 99_000, 101_000, 120_000, 150_000, 199_000, 200_500, 260_000, 400_000];

/// a state whose saved file holds one or two large records at a chosen position among many
/// small ones (the reader refills a 200 000-byte buffer: what matters is where a large record
/// starts relative to a refill), or an ordinary random history
fn build_hub_state(ctx: &Ctx, rng: &mut Rng) -> (ConfigState, Vec<Op>, Value) {
    let fx = fixtures();
    let mut st = ConfigState::new();
    let mut ops = Vec::new();
    if rng.chance(1, 6) {
        let n = rng.urange(5, ctx.tier.pick(60, 120));
        let mut g = G::new(rng, 2);
        extend_history(&mut g, &mut st, &mut ops, n, fx);
        return (st, ops, json!({"layout": "random_history"}));
    }
    let n_small = *rng.pick(&[0usize, 1, 3, 10, 40, 80, 120, 160, 200, 300, 500]) + rng.urange(0, 9);
    let n_after = rng.urange(0, 60);
    let n_big = if rng.chance(1, 4) { 2 } else { 1 };
    let mut g = G::new(rng, 1);
    g.oddities = false;
    // small records that precede everything but a big *first* http listener: http listeners
    // (they are written first, sorted by address); sizes vary with the optional fields
    for i in 0..n_small {
        let a = sa(&format!("10.{}.{}.1:{}", 1 + i / 250, i % 250, 8000 + (i % 7)));
        g.density = (i % 4) as u64;
        let l = g.http_listener(a);
        apply(&mut st, (req(RequestType::AddHttpListener(l)), "AddHttpListener/small".to_owned()), &mut ops);
    }
    g.density = 1;
    let mut bigs = Vec::new();
    for _ in 0..n_big {
        let size = *g.rng.pick(HUB_SIZES) + g.rng.urange(0, 3000);
        let position = g.rng.below(5);
        let name = match position {
            0 => {
                // very first record of the file
                let mut l = g.http_listener(sa("0.0.0.1:1"));
                l.answers.insert("503".to_owned(), big_string(size));
                apply(&mut st, (req(RequestType::AddHttpListener(l)), "AddHttpListener/large_answer_first_record".to_owned()), &mut ops);
                "first:http_listener"
            }
            1 => {
                let mut l = g.https_listener(sa("127.0.0.1:443"));
                l.answers.insert("503".to_owned(), big_string(size));
                apply(&mut st, (req(RequestType::AddHttpsListener(l)), "AddHttpsListener/large_answer".to_owned()), &mut ops);
                "early:https_listener"
            }
            2 => {
                let mut c = g.cluster("m-big".to_owned(), 0);
                c.answer_503 = Some(big_string(size));
                apply(&mut st, (req(RequestType::AddCluster(c)), "AddCluster/large_answer".to_owned()), &mut ops);
                "middle:cluster"
            }
            3 => {
                let mut c = g.cert(&fx.certs, 1);
                let link = CHAIN_PEM.to_owned();
                c.certificate_chain = std::iter::repeat(link.clone()).take(size / link.len().max(1) + 1).collect();
                apply(&mut st, (req(RequestType::AddCertificate(AddCertificate { address: sa("[::1]:443"), certificate: c, expired_at: None })), "AddCertificate/large_chain".to_owned()), &mut ops);
                "middle:certificate"
            }
            _ => {
                let mut b = g.backend();
                b.cluster_id = "zzzz-last".to_owned();
                b.backend_id = "zz".to_owned();
                b.sticky_id = Some(big_string(size));
                apply(&mut st, (req(RequestType::AddBackend(b)), "AddBackend/large_sticky_id_last_record".to_owned()), &mut ops);
                "last:backend"
            }
        };
        bigs.push(json!({"position": name, "size": size}));
    }
    // small records around and after the big ones: clusters a*/z*, frontends, backends
    for i in 0..n_after {
        let id = if i % 2 == 0 { format!("a{i:04}") } else { format!("z{i:04}") };
        let c = g.cluster(id.clone(), (i % 3 == 0) as u8);
        apply(&mut st, (req(RequestType::AddCluster(c)), "AddCluster/small".to_owned()), &mut ops);
        let mut b = g.backend();
        b.cluster_id = id.clone();
        apply(&mut st, (req(RequestType::AddBackend(b)), "AddBackend/small".to_owned()), &mut ops);
        let a = g.front_addr();
        let mut f = g.http_front(a);
        f.cluster_id = Some(id);
        f.hostname = format!("h{i}.example");
        apply(&mut st, (req(RequestType::AddHttpFrontend(f)), "AddHttpFrontend/small".to_owned()), &mut ops);
    }
    let extra = g.rng.urange(0, 10);
    g.density = 2;
    extend_history(&mut g, &mut st, &mut ops, extra, fx);
    (st, ops, json!({"layout": "big_records_among_small", "small_records_before": n_small, "small_groups_after": n_after, "big": bigs}))
}

/// offsets and lengths of the records of a state file, largest first (for the witness)
fn record_layout(all: &[u8]) -> (usize, Vec<Value>) {
    let mut off = 0usize;
    let mut recs = Vec::new();
    for (i, c) in all.split(|b| *b == 0).enumerate() {
        if !c.is_empty() {
            recs.push((c.len() + 1, off, i));
        }
        off += c.len() + 1;
    }
    let n = recs.len();
    recs.sort_by(|a, b| b.cmp(a));
    (n, recs.iter().take(3).map(|(len, off, i)| json!({"record": i, "offset": off, "length": len, "offset_mod_200000": off % 200000})).collect())
}

fn run_hub_case(ctx: &Ctx, case: u64, rep: &mut Report) {
    use std::sync::{Arc, atomic::{AtomicBool, AtomicU64, Ordering}};
    use std::time::{Duration, Instant};
    use sozu_command_lib::proto::command::{ResponseStatus, WorkerResponse};
    use crate::c09_hub::{HubLab, Recv};

    let mut rng = Rng::for_case(ctx.seed, 55, case);
    let (s, ops, layout) = build_hub_state(ctx, &mut rng);
    let n_workers = rng.urange(1, 2);
    rep.obs("hub:cases", 1);
    let ci = CaseInfo { case, kind: "hub_state_file", ops: &ops, at: ops.len() };
    // histories of hundreds of small records would drown the witness: keep the layout + tail
    let brief = |extra: Value| {
        json!({"case": case, "seed": ctx.seed, "kind": "hub_state_file", "path": "hub_state_file", "layout": layout, "detail": extra,
            "state_sizes": state_sizes(&s), "last_ops": ops_json(&ops[ops.len().saturating_sub(6)..]), "ops_total": ops.len()})
    };

    let mut lab = match HubLab::start_with(&ctx.root, n_workers, 10, |_| {}, |_| {}) {
        Ok(l) => l,
        Err(e) => {
            rep.inconclusive(&format!("hub lab did not start: {}", e.chars().take(80).collect::<String>()));
            rep.case(case, false);
            return;
        }
    };
    // scripted workers: acknowledge everything
    let stop = Arc::new(AtomicBool::new(false));
    let acked = Arc::new(AtomicU64::new(0));
    let mut handles = Vec::new();
    for mut w in lab.take_workers() {
        let stop = stop.clone();
        let acked = acked.clone();
        handles.push(std::thread::spawn(move || {
            loop {
                match w.recv_until(Instant::now() + Duration::from_millis(100)) {
                    Recv::Msg(m) => {
                        if w.send(&WorkerResponse::ok(m.id)).is_err() {
                            break;
                        }
                        acked.fetch_add(1, Ordering::Relaxed);
                    }
                    Recv::Timeout => {
                        if stop.load(Ordering::SeqCst) {
                            break;
                        }
                    }
                    Recv::Closed | Recv::Error(_) => break,
                }
            }
            w.close();
        }));
    }
    let file1 = lab.run_dir.join("state-1.json");
    let file2 = lab.run_dir.join("state-2.json");
    let mut outcome: Result<(), String> = Ok(());
    let mut load_answer = None;
    let mut all1 = Vec::new();
    // the file is written by the real writer (what SaveState calls)
    match File::create(&file1).map_err(|e| e.to_string()).and_then(|mut f| s.write_requests_to_file(&mut f).map_err(|e| e.to_string())) {
        Err(e) => outcome = Err(format!("cannot write the state file: {e}")),
        Ok(_) => {
            all1 = std::fs::read(&file1).unwrap_or_default();
        }
    }
    let mut hub_state: Option<ConfigState> = None;
    if outcome.is_ok() {
        match lab.client() {
            Err(e) => outcome = Err(format!("client: {e}")),
            Ok(mut client) => {
                let wait = Duration::from_secs(30);
                match client.request(RequestType::LoadState(file1.to_string_lossy().into_owned()), wait) {
                    Err(e) => outcome = Err(format!("LoadState: {e}")),
                    Ok((_, None)) => outcome = Err("LoadState: no final answer within 30 s".to_owned()),
                    Ok((_, Some(fin))) => {
                        load_answer = Some((fin.status, fin.message.clone()));
                        // what the hub holds now, through the real SaveState
                        match client.request(RequestType::SaveState(file2.to_string_lossy().into_owned()), wait) {
                            Err(e) => outcome = Err(format!("SaveState: {e}")),
                            Ok((_, None)) => outcome = Err("SaveState: no final answer within 30 s".to_owned()),
                            Ok((_, Some(fin2))) if fin2.status != ResponseStatus::Ok as i32 => outcome = Err(format!("SaveState answered {}: {}", fin2.status, fin2.message)),
                            Ok((_, Some(_))) => {
                                let all2 = std::fs::read(&file2).unwrap_or_default();
                                match parse_several_requests::<WorkerRequest>(&all2) {
                                    Ok((rest, reqs)) if rest.is_empty() => {
                                        let r = replay(reqs.iter().map(|w| &w.content));
                                        if r.rejected.is_empty() {
                                            hub_state = Some(r.state);
                                        } else {
                                            outcome = Err("the file saved by the hub does not replay cleanly".to_owned());
                                        }
                                    }
                                    _ => outcome = Err("the file saved by the hub does not parse".to_owned()),
                                }
                            }
                        }
                    }
                }
            }
        }
    }
    stop.store(true, Ordering::SeqCst);
    for h in handles {
        let _ = h.join();
    }
    let report = lab.shutdown();
    for p in &report.panics {
        if p.location.contains("/bin/src/") || p.location.contains("/command/src/") || p.location.contains("/lib/src/") {
            rep.violation(
                &format!("roundtrip/hub_state_file/hub_panicked@{}", p.signature().trim_start_matches("panic@")),
                &format!("the main process panicked while loading / saving a state file: {} at {}", p.message, p.location),
                brief(json!({"panic": p.message, "location": p.location})),
            );
        } else {
            rep.broken(&format!("panic in the hub thread outside sozu: {} at {}", p.message, p.location));
        }
    }
    let (n_records, largest) = record_layout(&all1);
    let longest = largest.first().and_then(|v| v["length"].as_u64()).unwrap_or(0);
    rep.obs_max("hub:state_file_bytes", all1.len() as u64);
    rep.obs_max("hub:records_in_file", n_records as u64);
    rep.obs("hub:worker_acknowledgements", acked.load(Ordering::Relaxed));
    if longest > 100_000 {
        rep.obs("hub:files_with_record_over_100k", 1);
        if largest.first().and_then(|v| v["offset"].as_u64()).unwrap_or(0) > 0 {
            rep.obs("hub:files_with_record_over_100k_not_first", 1);
        }
    }
    if longest > 200_000 {
        rep.obs("hub:files_with_record_over_200k", 1);
    }
    if all1.len() > 200_000 {
        rep.obs("hub:files_larger_than_read_buffer", 1);
    }
    if let Err(e) = &outcome {
        rep.inconclusive(&format!("hub case: {}", e.chars().take(60).collect::<String>()));
        rep.case(case, false);
        return;
    }
    let file_info = json!({"file_bytes": all1.len(), "records": n_records, "largest_records": largest});
    let load_ok = load_answer.as_ref().is_some_and(|a| a.0 == ResponseStatus::Ok as i32);
    rep.obs(if load_ok { "hub:load_state_answered_ok" } else { "hub:load_state_answered_failure" }, 1);
    // what the main process holds after the load, against the saved configuration
    let mut deltas: Vec<Delta> = Vec::new();
    if let Some(h) = &hub_state {
        rep.obs("hub:states_compared", 1);
        let all = compare(&s, h, Mode::Strict);
        for d in all {
            if d.is_bucket_only() {
                rep.obs(&format!("exempt:empty_bucket_not_replayed:{}", d.map), 1);
            } else {
                deltas.push(d);
            }
        }
        // the order pseudo-entry of a bucket only matters when its members are all there
        let incomplete: Vec<String> = deltas.iter().filter(|d| !d.is_order_only()).map(|d| d.map.clone()).collect();
        deltas.retain(|d| !d.is_order_only() || !incomplete.iter().any(|m| d.map.starts_with(m.as_str())));
    }
    let mut per_map: BTreeMap<String, u64> = BTreeMap::new();
    for d in &deltas {
        *per_map.entry(format!("{}/{}", d.map, d.kind)).or_insert(0) += 1;
    }
    if !load_ok {
        // one finding: the load stopped; what is missing afterwards goes into the witness
        let message = load_answer.as_ref().map(|a| a.1.clone()).unwrap_or_default();
        rep.obs("path:hub_state_file:failed", 1);
        rep.violation(
            "roundtrip/hub_state_file/load_state_failed",
            &format!("LoadState of a file written by write_requests_to_file was answered with a failure ({message}); {} object(s) of the saved configuration are missing or different in the main process afterwards", deltas.len()),
            brief(json!({"answer": message, "file": file_info, "differences_per_map": per_map,
                "first_difference": deltas.first().map(|d| json!({"map": d.map, "key": d.key, "kind": d.kind}))})),
        );
    } else if hub_state.is_some() {
        let mut seen: Vec<String> = Vec::new();
        for d in &deltas {
            let class = d.class();
            if seen.contains(&class) {
                continue;
            }
            seen.push(class.clone());
            rep.violation(
                &format!("roundtrip/hub_state_file/state_differs/{class}"),
                &format!("LoadState answered OK but the configuration held by the main process differs from the saved one on map {} (key {}, {})", d.map, d.key, d.kind),
                brief(json!({"expected_is_left": true, "difference": d.to_json(), "differences_per_map": per_map, "load_state_answer": load_answer.as_ref().map(|a| a.1.clone()), "file": file_info})),
            );
        }
        rep.obs(if seen.is_empty() { "path:hub_state_file:ok" } else { "path:hub_state_file:failed" }, 1);
    }
    let _ = ci;
    rep.case(case, object_count(&s) >= 3);
    if case - HUB_BASE < 2 {
        rep.sample(json!({"case": case, "kind": "hub_state_file", "layout": layout, "file": file_info, "load_state_answer": load_answer}));
    }
}

// ---------------------------------------------------------------- repeated saves to one path

/// hub cases of the second kind: `SaveState(P)` several times on the SAME path while the
/// configuration of the (real, in-process) main process shrinks and grows
pub const OVERWRITE_BASE: u64 = HUB_BASE + (1 << 36);

/// a real `CommandHub` whose scripted workers acknowledge everything
struct AckHub {
    lab: crate::c09_hub::HubLab,
    stop: std::sync::Arc<std::sync::atomic::AtomicBool>,
    acked: std::sync::Arc<std::sync::atomic::AtomicU64>,
    handles: Vec<std::thread::JoinHandle<()>>,
}

impl AckHub {
    fn start(ctx: &Ctx, n_workers: usize) -> Result<AckHub, String> {
        use std::sync::{Arc, atomic::{AtomicBool, AtomicU64, Ordering}};
        use std::time::{Duration, Instant};
        use sozu_command_lib::proto::command::WorkerResponse;
        use crate::c09_hub::{HubLab, Recv};
        let mut lab = HubLab::start_with(&ctx.root, n_workers, 10, |_| {}, |_| {})?;
        let stop = Arc::new(AtomicBool::new(false));
        let acked = Arc::new(AtomicU64::new(0));
        let mut handles = Vec::new();
        for mut w in lab.take_workers() {
            let stop = stop.clone();
            let acked = acked.clone();
            handles.push(std::thread::spawn(move || {
                loop {
                    match w.recv_until(Instant::now() + Duration::from_millis(100)) {
                        Recv::Msg(m) => {
                            if w.send(&WorkerResponse::ok(m.id)).is_err() {
                                break;
                            }
                            acked.fetch_add(1, Ordering::Relaxed);
                        }
                        Recv::Timeout => {
                            if stop.load(Ordering::SeqCst) {
                                break;
                            }
                        }
                        Recv::Closed | Recv::Error(_) => break,
                    }
                }
                w.close();
            }));
        }
        Ok(AckHub { lab, stop, acked, handles })
    }

    /// stop the workers and the hub; panics of the hub thread
    fn finish(mut self) -> Vec<crate::common::PanicRec> {
        self.stop.store(true, std::sync::atomic::Ordering::SeqCst);
        for h in self.handles.drain(..) {
            let _ = h.join();
        }
        self.lab.shutdown().panics
    }
}

/// final answer (status, message) of one request; Err = harness-side problem
fn hub_request(client: &mut crate::c09_hub::HubClient, r: RequestType) -> Result<(i32, String), String> {
    match client.request(r, std::time::Duration::from_secs(30)) {
        Err(e) => Err(e),
        Ok((_, None)) => Err("no final answer within 30 s".to_owned()),
        Ok((_, Some(fin))) => Ok((fin.status, fin.message)),
    }
}

/// removal commands for a share `keep_out_of_6`/6 ... of the objects of `s` (6 = remove all)
fn removal_commands(s: &ConfigState, rng: &mut Rng, remove_out_of_6: u64) -> Vec<cops::Cmd> {
    use sozu_command_lib::proto::command::{RemoveBackend, RemoveCertificate, RemoveListener};
    let mut v: Vec<cops::Cmd> = Vec::new();
    let mut take = |rng: &mut Rng| rng.below(6) < remove_out_of_6;
    let c = |t: RequestType, l: &str| (req(t), l.to_owned());
    for id in s.clusters.keys() {
        if take(rng) { v.push(c(RequestType::RemoveCluster(id.clone()), "RemoveCluster/existing")); }
    }
    for b in s.backends.values().flatten() {
        if take(rng) { v.push(c(RequestType::RemoveBackend(RemoveBackend { cluster_id: b.cluster_id.clone(), backend_id: b.backend_id.clone(), address: b.address.into() }), "RemoveBackend/existing")); }
    }
    let mut certs: Vec<(std::net::SocketAddr, String)> = s.certificates.iter().flat_map(|(a, m)| m.keys().map(move |fp| (*a, fp.to_string()))).collect();
    certs.sort();
    for (a, fp) in certs {
        if take(rng) { v.push(c(RequestType::RemoveCertificate(RemoveCertificate { address: a.into(), fingerprint: fp }), "RemoveCertificate/existing")); }
    }
    for f in s.http_fronts.values() {
        if take(rng) { v.push(c(RequestType::RemoveHttpFrontend(f.clone().into()), "RemoveHttpFrontend/existing")); }
    }
    for f in s.https_fronts.values() {
        if take(rng) { v.push(c(RequestType::RemoveHttpsFrontend(f.clone().into()), "RemoveHttpsFrontend/existing")); }
    }
    let mut tcp: Vec<_> = s.tcp_fronts.values().flatten().cloned().collect();
    tcp.sort();
    for f in tcp {
        if take(rng) { v.push(c(RequestType::RemoveTcpFrontend(f.into()), "RemoveTcpFrontend/existing")); }
    }
    let mut udp: Vec<_> = s.udp_fronts.values().flatten().cloned().collect();
    udp.sort();
    for f in udp {
        if take(rng) { v.push(c(RequestType::RemoveUdpFrontend(f.into()), "RemoveUdpFrontend/existing")); }
    }
    for (kind, addrs) in cops::KINDS.iter().map(|k| (*k, cops::listener_addrs(s, *k))) {
        for a in addrs {
            if take(rng) { v.push(c(RequestType::RemoveListener(RemoveListener { address: a.into(), proxy: kind as i32 }), "RemoveListener/existing")); }
        }
    }
    v
}

fn is_config_verb(r: &Request) -> bool {
    matches!(
        r.request_type,
        Some(
            RequestType::AddCluster(_) | RequestType::RemoveCluster(_) | RequestType::AddBackend(_) | RequestType::RemoveBackend(_)
                | RequestType::AddCertificate(_) | RequestType::RemoveCertificate(_) | RequestType::ReplaceCertificate(_)
                | RequestType::AddHttpFrontend(_) | RequestType::RemoveHttpFrontend(_) | RequestType::AddHttpsFrontend(_) | RequestType::RemoveHttpsFrontend(_)
                | RequestType::AddTcpFrontend(_) | RequestType::RemoveTcpFrontend(_) | RequestType::AddUdpFrontend(_) | RequestType::RemoveUdpFrontend(_)
                | RequestType::AddHttpListener(_) | RequestType::AddHttpsListener(_) | RequestType::AddTcpListener(_) | RequestType::AddUdpListener(_)
                | RequestType::RemoveListener(_) | RequestType::SetHealthCheck(_) | RequestType::RemoveHealthCheck(_)
                | RequestType::ActivateListener(_) | RequestType::DeactivateListener(_) | RequestType::UpdateHttpListener(_)
                | RequestType::UpdateHttpsListener(_) | RequestType::UpdateTcpListener(_) | RequestType::UpdateUdpListener(_)
        )
    )
}

/// serialized length of the state file of `s` (what a save of exactly this state writes)
fn expected_file_len(s: &ConfigState) -> usize {
    s.produce_initial_state()
        .requests
        .iter()
        .map(|w| serde_json::to_string(w).map(|t| t.len()).unwrap_or(0) + 2)
        .sum()
}

fn content_multiset<'a>(reqs: impl Iterator<Item = &'a WorkerRequest>) -> Vec<String> {
    let mut v: Vec<String> = reqs.map(|w| format!("{:?}", w.content)).collect();
    v.sort();
    v
}

fn run_overwrite_case(ctx: &Ctx, case: u64, rep: &mut Report) {
    use sozu_command_lib::proto::command::ResponseStatus;
    let fx = fixtures();
    let mut rng = Rng::for_case(ctx.seed, 56, case);
    rep.obs("hub:overwrite_cases", 1);
    let ok_status = ResponseStatus::Ok as i32;

    // plan: sizes of the successive configurations, as shares of removal / growth
    // 0 = shrink a little, 1 = shrink a lot, 2 = empty, 3 = grow
    let rounds = rng.urange(2, 4);
    let mut plan: Vec<u8> = Vec::new();
    for r in 1..rounds {
        plan.push(match rng.below(8) {
            0 | 1 => 0,
            2 | 3 | 4 => 1,
            5 => 2,
            _ => if r == 1 { 1 } else { 3 },
        });
    }
    // a first configuration worth shrinking
    let mut model = ConfigState::new();
    let mut ops: Vec<Op> = Vec::new();
    {
        let n = rng.urange(20, ctx.tier.pick(70, 140));
        let density = 1 + rng.below(2);
        let mut g = G::new(&mut rng, density);
        g.oddities = false;
        extend_history(&mut g, &mut model, &mut ops, n, fx);
        let extra = g.rng.urange(3, 25);
        for i in 0..extra {
            let id = format!("x{i:03}");
            let c = g.cluster(id.clone(), 0);
            apply(&mut model, (req(RequestType::AddCluster(c)), "AddCluster".to_owned()), &mut ops);
            let mut b = g.backend();
            b.cluster_id = id;
            apply(&mut model, (req(RequestType::AddBackend(b)), "AddBackend".to_owned()), &mut ops);
        }
        let n_certs = g.rng.urange(1, 4);
        for _ in 0..n_certs {
            let a = g.front_addr();
            let c = g.cert(&fx.certs, 1);
            apply(&mut model, (req(RequestType::AddCertificate(AddCertificate { address: a, certificate: c, expired_at: None })), "AddCertificate".to_owned()), &mut ops);
        }
    }
    let mut steps_log: Vec<Value> = Vec::new();
    let witness = |steps: &Vec<Value>, extra: Value| json!({"case": case, "seed": ctx.seed, "kind": "hub_overwrite", "path": "hub_state_file", "plan": plan, "rounds": steps, "detail": extra});

    let hub = match AckHub::start(ctx, 1) {
        Ok(h) => h,
        Err(e) => {
            rep.inconclusive(&format!("hub lab did not start: {}", e.chars().take(60).collect::<String>()));
            rep.case(case, false);
            return;
        }
    };
    let path = hub.lab.run_dir.join("saved-state.json");
    let path_s = path.to_string_lossy().into_owned();
    let seed_file = hub.lab.run_dir.join("first-configuration.json");
    let mut trouble: Option<String> = None;
    let mut client = match hub.lab.client() {
        Ok(c) => Some(c),
        Err(e) => {
            trouble = Some(format!("client: {e}"));
            None
        }
    };
    let mut prev_expected_len: Option<usize> = None;
    let mut max_prev_file_len = 0usize;
    let mut judged_any = false;
    'rounds: for round in 0..rounds {
        let Some(client) = client.as_mut() else { break };
        // ---- bring the main process to the configuration of this round
        if round == 0 {
            let w = File::create(&seed_file).map_err(|e| e.to_string()).and_then(|mut f| model.write_requests_to_file(&mut f).map_err(|e| e.to_string()));
            if let Err(e) = w {
                trouble = Some(format!("cannot write the first configuration: {e}"));
                break;
            }
            match hub_request(client, RequestType::LoadState(seed_file.to_string_lossy().into_owned())) {
                Ok((st, _)) if st == ok_status => {}
                Ok((_, m)) => {
                    trouble = Some(format!("initial LoadState failed: {m}"));
                    break;
                }
                Err(e) => {
                    trouble = Some(format!("initial LoadState: {e}"));
                    break;
                }
            }
            // the replay of a state drops its empty buckets and resolves nothing else
            model = replay(model.produce_initial_state().requests.iter().map(|w| &w.content)).state;
        } else {
            let kind = plan[round - 1];
            let cmds: Vec<cops::Cmd> = match kind {
                0 => removal_commands(&model, &mut rng, 2),
                1 => removal_commands(&model, &mut rng, 5),
                2 => removal_commands(&model, &mut rng, 6),
                _ => {
                    let mut scratch = model.clone();
                    let mut scratch_ops = Vec::new();
                    let n = rng.urange(10, 40);
                    let mut g = G::new(&mut rng, 2);
                    g.oddities = false;
                    extend_history(&mut g, &mut scratch, &mut scratch_ops, n, fx);
                    scratch_ops.into_iter().filter(|o| is_config_verb(&o.req)).map(|o| (o.req, o.label)).collect()
                }
            };
            for (request, label) in cmds {
                let Some(t) = request.request_type.clone() else { continue };
                let local = model.dispatch(&request).is_ok();
                match hub_request(client, t) {
                    Ok((st, m)) => {
                        if (st == ok_status) != local {
                            trouble = Some(format!("main process and model disagree on {label}: hub={st} ({m}) model_ok={local}"));
                            rep.obs("hub:overwrite_hub_and_model_disagree", 1);
                            break 'rounds;
                        }
                        rep.obs("hub:overwrite_commands_through_the_hub", 1);
                    }
                    Err(e) => {
                        trouble = Some(format!("{label}: {e}"));
                        break 'rounds;
                    }
                }
            }
        }
        // ---- SaveState on the same path
        match hub_request(client, RequestType::SaveState(path_s.clone())) {
            Ok((st, _)) if st == ok_status => {}
            Ok((_, m)) => {
                rep.violation(
                    "roundtrip/hub_state_file/save_state_failed",
                    &format!("SaveState to a writable path was answered with a failure: {m}"),
                    witness(&steps_log, json!({"round": round, "answer": m})),
                );
                break;
            }
            Err(e) => {
                trouble = Some(format!("SaveState: {e}"));
                break;
            }
        }
        rep.obs("hub:saves_to_same_path", 1);
        let expected = model.produce_initial_state();
        let expected_len = expected_file_len(&model);
        let overwrite = round > 0;
        if let Some(prev) = prev_expected_len {
            if expected_len < prev {
                rep.obs("hub:overwrites_with_smaller_state", 1);
            } else if expected_len > prev {
                rep.obs("hub:overwrites_with_larger_state", 1);
            }
            if expected.requests.is_empty() {
                rep.obs("hub:overwrites_with_empty_state", 1);
            }
        }
        let smaller = prev_expected_len.is_some_and(|p| expected_len < p);
        let suffix = if overwrite { "_after_overwrite" } else { "" };
        // ---- (a) the bytes of the file
        let bytes = std::fs::read(&path).unwrap_or_default();
        let (rest_len, parsed): (usize, Vec<WorkerRequest>) = match parse_several_requests::<WorkerRequest>(&bytes) {
            Ok((rest, reqs)) => (rest.len(), reqs),
            Err(_) => (bytes.len(), vec![]),
        };
        rep.obs("hub:overwrite_files_checked_bytewise", 1);
        let want = content_multiset(expected.requests.iter());
        let got = content_multiset(parsed.iter());
        let step = json!({"round": round, "change": if round == 0 { "initial LoadState".to_owned() } else { ["remove about 1/3", "remove about 5/6", "remove everything", "add and change"][plan[round - 1] as usize].to_owned() },
            "requests_of_the_current_configuration": want.len(), "expected_file_bytes": expected_len, "previous_expected_file_bytes": prev_expected_len,
            "file_bytes": bytes.len(), "requests_parsed_from_file": got.len(), "unparsable_trailing_bytes": rest_len, "state_sizes": state_sizes(&model)});
        steps_log.push(step);
        judged_any = true;
        let mut file_finding: Option<(&'static str, String, Value)> = None;
        if rest_len > 0 || got != want {
            let extra_requests = got.iter().filter(|g| !want.contains(g)).count();
            let missing_requests = want.iter().filter(|w| !got.contains(w)).count();
            let _ = smaller;
            let (sig, what) = if overwrite && bytes.len() > expected_len && bytes.len() <= max_prev_file_len && missing_requests == 0 {
                ("roundtrip/hub_state_file/stale_tail_after_overwrite",
                 format!("after SaveState on a path that held a larger earlier save, the file holds the current configuration followed by {} stale byte(s) of the old file ({} stale request(s) parse, {} trailing byte(s) do not)", bytes.len() - expected_len, extra_requests, rest_len))
            } else {
                (if overwrite { "roundtrip/hub_state_file/saved_file_not_the_current_configuration_after_overwrite" } else { "roundtrip/hub_state_file/saved_file_not_the_current_configuration" },
                 format!("the file written by SaveState is not an encoding of the current configuration: {missing_requests} request(s) missing, {extra_requests} unexpected, {rest_len} unparsable trailing byte(s)"))
            };
            file_finding = Some((sig, what, json!({"round": round, "missing_requests": missing_requests, "unexpected_requests": extra_requests, "unparsable_trailing_bytes": rest_len,
                "file_bytes": bytes.len(), "expected_file_bytes": expected_len,
                "longest_earlier_file_on_this_path": max_prev_file_len,
                "first_unexpected_request": parsed.iter().find(|w| !want.contains(&format!("{:?}", w.content))).map(|w| req_json(&w.content))})));
        } else {
            rep.obs("hub:saved_file_is_exactly_the_current_configuration", 1);
        }
        // ---- (b) LoadState of that file into a fresh main process
        match AckHub::start(ctx, 1) {
            Err(e) => {
                if let Some((sig, what, detail)) = file_finding.take() {
                    rep.violation(sig, &what, witness(&steps_log, detail));
                }
                trouble = Some(format!("second hub did not start: {e}"));
                break;
            }
            Ok(fresh) => {
                let back = fresh.lab.run_dir.join("read-back.json");
                let mut loaded: Option<(i32, String)> = None;
                let mut held: Option<ConfigState> = None;
                let mut t2: Option<String> = None;
                match fresh.lab.client() {
                    Err(e) => t2 = Some(format!("client: {e}")),
                    Ok(mut c2) => match hub_request(&mut c2, RequestType::LoadState(path_s.clone())) {
                        Err(e) => t2 = Some(format!("LoadState: {e}")),
                        Ok(ans) => {
                            loaded = Some(ans);
                            match hub_request(&mut c2, RequestType::SaveState(back.to_string_lossy().into_owned())) {
                                Ok((st, _)) if st == ok_status => {
                                    let b2 = std::fs::read(&back).unwrap_or_default();
                                    if let Ok((rest, reqs)) = parse_several_requests::<WorkerRequest>(&b2) {
                                        if rest.is_empty() {
                                            held = Some(replay(reqs.iter().map(|w| &w.content)).state);
                                        }
                                    }
                                    if held.is_none() {
                                        t2 = Some("read-back file of the fresh hub does not parse".to_owned());
                                    }
                                }
                                Ok((_, m)) => t2 = Some(format!("read-back SaveState failed: {m}")),
                                Err(e) => t2 = Some(format!("read-back SaveState: {e}")),
                            }
                        }
                    },
                }
                rep.obs("hub:worker_acknowledgements", fresh.acked.load(std::sync::atomic::Ordering::Relaxed));
                for p in fresh.finish() {
                    rep.violation(
                        &format!("roundtrip/hub_state_file/hub_panicked@{}", p.signature().trim_start_matches("panic@")),
                        &format!("the main process panicked while loading a saved state: {} at {}", p.message, p.location),
                        witness(&steps_log, json!({"panic": p.message, "location": p.location})),
                    );
                }
                if let Some(e) = t2 {
                    if let Some((sig, what, detail)) = file_finding.take() {
                        rep.violation(sig, &what, witness(&steps_log, detail));
                    }
                    trouble = Some(e);
                    break;
                }
                if let Some((sig, what, mut detail)) = file_finding.take() {
                    // one finding: the file is wrong; what a load of it does is its consequence
                    let reload = match (&loaded, &held) {
                        (Some((st, m)), _) if *st != ok_status => json!({"load_state_answer": m, "outcome": "LoadState failed"}),
                        (Some(_), Some(h)) => {
                            let deltas: Vec<Delta> = compare(&model, h, Mode::Loose).into_iter().filter(|d| !d.is_bucket_only()).collect();
                            json!({"outcome": if deltas.is_empty() { "LoadState ok, configuration equal" } else { "LoadState ok, configuration DIFFERENT (stale requests replayed)" },
                                "differences": deltas.len(), "first_difference": deltas.first().map(|d| json!({"map": d.map, "key": d.key, "kind": d.kind}))})
                        }
                        _ => json!({"outcome": "unknown"}),
                    };
                    rep.obs(&format!("hub:wrong_file:{}", reload["outcome"].as_str().unwrap_or("?").split(',').next().unwrap_or("?").replace(' ', "_")), 1);
                    if let Some(o) = detail.as_object_mut() {
                        o.insert("loading_this_file_into_a_fresh_main_process".to_owned(), reload);
                    }
                    rep.violation(sig, &what, witness(&steps_log, detail));
                } else if let Some((st, m)) = &loaded {
                    if *st != ok_status {
                        rep.obs("hub:overwrite_loads_into_fresh_hub_failed", 1);
                        rep.violation(
                            &format!("roundtrip/hub_state_file/load_failed{suffix}"),
                            &format!("LoadState of the file written by SaveState{} was answered with a failure: {m}", if overwrite { " over an earlier save on the same path" } else { "" }),
                            witness(&steps_log, json!({"round": round, "answer": m})),
                        );
                    } else {
                        rep.obs("hub:overwrite_loads_into_fresh_hub_ok", 1);
                        if let Some(h) = &held {
                            let deltas: Vec<Delta> = compare(&model, h, Mode::Loose).into_iter().filter(|d| !d.is_bucket_only()).collect();
                            if let Some(d) = deltas.first() {
                                rep.violation(
                                    &format!("roundtrip/hub_state_file/state_differs{suffix}/{}/{}", d.map, d.kind),
                                    &format!("a fresh main process that loaded the saved file holds a configuration different from the saved one: map {} key {} ({}), {} difference(s)", d.map, d.key, d.kind, deltas.len()),
                                    witness(&steps_log, json!({"round": round, "expected_is_left": true, "difference": d.to_json(), "differences": deltas.len()})),
                                );
                            } else {
                                rep.obs("hub:overwrite_reloaded_configuration_equal", 1);
                            }
                        }
                    }
                }
            }
        }
        prev_expected_len = Some(expected_len);
        max_prev_file_len = max_prev_file_len.max(bytes.len());
    }
    drop(client);
    rep.obs("hub:worker_acknowledgements", hub.acked.load(std::sync::atomic::Ordering::Relaxed));
    for p in hub.finish() {
        rep.violation(
            &format!("roundtrip/hub_state_file/hub_panicked@{}", p.signature().trim_start_matches("panic@")),
            &format!("the main process panicked while saving its state: {} at {}", p.message, p.location),
            witness(&steps_log, json!({"panic": p.message, "location": p.location})),
        );
    }
    if let Some(t) = trouble {
        if !judged_any {
            rep.inconclusive(&format!("overwrite case: {}", t.chars().take(60).collect::<String>()));
        } else {
            rep.obs("hub:overwrite_cases_cut_short_by_harness_trouble", 1);
        }
    }
    rep.case(case, judged_any);
    if case - OVERWRITE_BASE < 2 {
        rep.sample(json!({"case": case, "kind": "hub_overwrite", "rounds": steps_log}));
    }
}

pub fn run(ctx: &Ctx) -> Report {
    let mut rep = Report::new(
        "exploration",
        "reachable ConfigStates built by (70 %) random histories of 1..60 commands over every mutating verb with valid/invalid arguments, duplicates, removals and listener patches on a collision-rich alphabet, (29 %) a field-coverage builder (every object type on IPv4 and IPv6 addresses, each optional field independently absent / present-with-default / non-default, 2-4 certificates per address) and (1 %) states holding one value around the 200 000-byte load buffer; each final state (and one intermediate state of half of the histories) goes through the four encode/replay paths and is rebuilt twice from its objects in shuffled order; a case is non-trivial when its final state holds >= 3 objects; distinct = distinct (verb, accepted) sequences",
    );
    rep.assume("path (b) has two parts: every state goes through write_requests_to_file -> whole-file parse_several_requests -> dispatch (codec level); a few hundred states per run (biased to files with one or two records of 60..400 kB at the first / early / middle / last position among 0..500 small records) are loaded by the REAL load_state of an in-process CommandHub (c09 hub lab, 1-2 scripted workers acknowledging everything) from a file written by write_requests_to_file, then read back through the real SaveState; the hub's configuration is the replay of that second file");
    rep.assume("repeated saves: the configuration of the live hub is changed by the real client verbs (Remove*/Add*/Update*...) mirrored on a local ConfigState model; a case where hub and model disagree on the outcome of a command is abandoned and counted (hub:overwrite_hub_and_model_disagree), not judged; when the saved file itself is wrong, what loading it does (failure, or stale requests silently replayed) is recorded in that finding's witness instead of being reported separately");
    rep.assume("an empty Vec/HashMap bucket left by a removal (or by a rejected AddCertificate) holds no listener, frontend, backend or certificate: its disappearance on replay is counted (exempt:empty_bucket_not_replayed:*) and not judged, unless --opt strict_buckets=1; path (d) carries the state verbatim and is compared strictly");
    rep.assume("paths (b) and (c) are judged on their own only when the decoded command list differs from the encoded one; otherwise their replay is the replay of (a) and a difference is reported once, under 'bootstrap'");
    for k in [
        "path:bootstrap:ok",
        "path:state_file:ok",
        "path:proto_blob:ok",
        "path:upgrade_json:ok",
        "path:hub_state_file:ok",
        "hub:load_state_answered_ok",
        "hub:states_compared",
        "hub:files_with_record_over_100k_not_first",
        "hub:files_with_record_over_200k",
        "hub:files_larger_than_read_buffer",
        "hub:saves_to_same_path",
        "hub:overwrites_with_smaller_state",
        "hub:overwrites_with_larger_state",
        "hub:overwrites_with_empty_state",
        "hub:overwrite_files_checked_bytewise",
        "hub:saved_file_is_exactly_the_current_configuration",
        "hub:overwrite_loads_into_fresh_hub_ok",
        "hub:overwrite_reloaded_configuration_equal",
        "rebuild_equal",
        "rejected_ops",
        "listener_patch_accepted",
        "certificate_replaced",
        "removal_of_present_object",
        "states_with_several_certificates_on_one_address",
        "states_with_certificates_on_ipv6",
        "states_with_ipv6_listener",
        "states_with_udp_objects",
        "states_with_health_check",
    ] {
        rep.require(k);
    }
    let fx = fixtures();
    rep.set("certificate_fixtures", json!({"usable": fx.certs.iter().map(|i| CERT_FIXTURES[*i].name).collect::<Vec<_>>(), "pem_but_not_x509_variants": fx.not_x509.len()}));
    if fx.certs.len() < 4 {
        rep.broken("fewer than 4 usable certificate fixtures");
        return rep;
    }
    let gag = StdoutGag::new();
    if let Some((rctx, cases)) = replay_cases(ctx) {
        for c in cases {
            if let Err(p) = guard(|| run_case(&rctx, c, &mut rep)) {
                rep.broken(&format!("panic while replaying case {c}: {} at {}", p.message, p.location));
            }
        }
        drop(gag);
        return rep;
    }
    for k in 0..DIRECTED {
        if let Err(p) = guard(|| run_case(ctx, DIRECTED_BASE + k, &mut rep)) {
            if p.in_sozu() {
                rep.violation(&p.signature(), &format!("sozu panicked: {} at {}", p.message, p.location), json!({"case": DIRECTED_BASE + k, "seed": ctx.seed}));
            } else {
                rep.broken(&format!("harness panic in directed case {k}: {} at {}", p.message, p.location));
            }
        }
    }
    // hub cases first (few, slower): the state file through the real load_state / save_state
    let n_hub = ctx.opt_u64("hub_cases", ctx.tier.pick(300, 6_000));
    crate::common::par_cases_named(ctx, &mut rep, n_hub, "hubcase", |i, r| run_case(ctx, HUB_BASE + i, r));
    let n_ovw = ctx.opt_u64("overwrite_cases", ctx.tier.pick(120, 2_500));
    crate::common::par_cases_named(ctx, &mut rep, n_ovw, "hubsave", |i, r| run_case(ctx, OVERWRITE_BASE + i, r));
    let n = ctx.opt_u64("cases", ctx.tier.pick(10_000, 400_000));
    par_cases(ctx, &mut rep, n, |i, r| run_case(ctx, i, r));
    drop(gag);

    let g = FIELD_CLASSES.lock().unwrap_or_else(|e| e.into_inner());
    let optional: Vec<(&String, &[u64; 3])> = g.iter().filter(|(_, n)| n[0] > 0).collect();
    let all3 = optional.iter().filter(|(_, n)| n.iter().all(|x| *x > 0)).count();
    rep.obs("field_names_seen", g.len() as u64);
    rep.obs("optional_fields_seen", optional.len() as u64);
    rep.obs("optional_fields_seen_absent_and_default_and_nondefault", all3 as u64);
    rep.require("optional_fields_seen_absent_and_default_and_nondefault");
    rep.set("optional_fields_missing_a_class", json!(optional.iter().filter(|(_, n)| n.iter().any(|x| *x == 0)).map(|(k, _)| (*k).clone()).collect::<Vec<_>>()));
    rep.set(
        "field_classes",
        Value::Object(g.iter().map(|(k, n)| (k.clone(), json!({"absent": n[0], "zero_or_empty": n[1], "other": n[2]}))).collect()),
    );
    rep
}
