//! PROXY protocol v2 header builder and parser, written from the specification
//! (haproxy doc/proxy-protocol.txt, section 2.2), independent of sozu's.
//!
//! ```text
//! 0..12   signature  0D 0A 0D 0A 00 0D 0A 51 55 49 54 0A
//! 12      version (high nibble, must be 2) | command (low nibble: 0 LOCAL, 1 PROXY)
//! 13      address family (high nibble: 0 UNSPEC, 1 INET, 2 INET6, 3 UNIX)
//!         | transport (low nibble: 0 UNSPEC, 1 STREAM, 2 DGRAM)
//! 14..16  length of what follows (big endian): address block, then TLVs
//! INET : src(4) dst(4) sport(2) dport(2)            = 12
//! INET6: src(16) dst(16) sport(2) dport(2)          = 36
//! UNIX : src(108) dst(108)                          = 216
//! TLV  : type(1) length(2, big endian) value(length)
//! ```

use std::net::{Ipv4Addr, Ipv6Addr, SocketAddr, SocketAddrV4, SocketAddrV6};

pub const SIG: [u8; 12] = [0x0D, 0x0A, 0x0D, 0x0A, 0x00, 0x0D, 0x0A, 0x51, 0x55, 0x49, 0x54, 0x0A];

#[derive(Clone, Debug, PartialEq, Eq)]
pub enum Addr {
    /// no address block
    None,
    V4(SocketAddrV4, SocketAddrV4),
    V6(SocketAddrV6, SocketAddrV6),
    Unix(Vec<u8>, Vec<u8>),
}

impl Addr {
    pub fn block(&self) -> Vec<u8> {
        let mut out = Vec::new();
        match self {
            Addr::None => {}
            Addr::V4(s, d) => {
                out.extend_from_slice(&s.ip().octets());
                out.extend_from_slice(&d.ip().octets());
                out.extend_from_slice(&s.port().to_be_bytes());
                out.extend_from_slice(&d.port().to_be_bytes());
            }
            Addr::V6(s, d) => {
                out.extend_from_slice(&s.ip().octets());
                out.extend_from_slice(&d.ip().octets());
                out.extend_from_slice(&s.port().to_be_bytes());
                out.extend_from_slice(&d.port().to_be_bytes());
            }
            Addr::Unix(s, d) => {
                let mut a = s.clone();
                a.resize(108, 0);
                let mut b = d.clone();
                b.resize(108, 0);
                out.extend_from_slice(&a);
                out.extend_from_slice(&b);
            }
        }
        out
    }

    pub fn from_pair(src: SocketAddr, dst: SocketAddr) -> Addr {
        match (src, dst) {
            (SocketAddr::V4(s), SocketAddr::V4(d)) => Addr::V4(s, d),
            (SocketAddr::V6(s), SocketAddr::V6(d)) => Addr::V6(s, d),
            _ => Addr::None,
        }
    }

    pub fn describe(&self) -> String {
        match self {
            Addr::None => "none".into(),
            Addr::V4(s, d) => format!("{s}->{d}"),
            Addr::V6(s, d) => format!("{s}->{d}"),
            Addr::Unix(s, d) => format!(
                "unix:{}->{}",
                String::from_utf8_lossy(s).trim_end_matches('\0'),
                String::from_utf8_lossy(d).trim_end_matches('\0')
            ),
        }
    }
}

#[derive(Clone, Debug, PartialEq, Eq)]
pub struct Header {
    /// byte 12 as is (0x21 = v2 PROXY)
    pub ver_cmd: u8,
    /// byte 13 as is (0x11 = TCP over IPv4)
    pub fam_proto: u8,
    pub addr: Addr,
    /// bytes after the address block, inside the declared length (TLVs)
    pub tail: Vec<u8>,
}

impl Header {
    pub fn command(&self) -> u8 {
        self.ver_cmd & 0x0f
    }
    pub fn family(&self) -> u8 {
        self.fam_proto >> 4
    }
    pub fn encode(&self) -> Vec<u8> {
        let block = self.addr.block();
        let len = block.len() + self.tail.len();
        encode_raw(self.ver_cmd, self.fam_proto, len as u16, &[&block[..], &self.tail[..]].concat())
    }
}

/// free-form encoder (also used for malformed headers)
pub fn encode_raw(ver_cmd: u8, fam_proto: u8, declared_len: u16, body: &[u8]) -> Vec<u8> {
    let mut out = Vec::with_capacity(16 + body.len());
    out.extend_from_slice(&SIG);
    out.push(ver_cmd);
    out.push(fam_proto);
    out.extend_from_slice(&declared_len.to_be_bytes());
    out.extend_from_slice(body);
    out
}

/// a tail of exactly `n` bytes made of well-formed TLVs when n >= 3 (NOOP 0x04, and an
/// AUTHORITY 0x02 in front when there is room), raw padding otherwise
pub fn tlv_tail(n: usize) -> Vec<u8> {
    let mut out = Vec::with_capacity(n);
    if n < 3 {
        out.resize(n, 0x04);
        return out;
    }
    let mut left = n;
    if left >= 3 + 5 + 3 {
        out.push(0x02);
        out.extend_from_slice(&5u16.to_be_bytes());
        out.extend_from_slice(b"c18.t");
        left -= 8;
    }
    out.push(0x04);
    out.extend_from_slice(&((left - 3) as u16).to_be_bytes());
    out.resize(n, 0xA5);
    out
}

/// true when `tail` is a sequence of complete TLVs
pub fn tlvs_well_formed(mut tail: &[u8]) -> bool {
    while !tail.is_empty() {
        if tail.len() < 3 {
            return false;
        }
        let l = u16::from_be_bytes([tail[1], tail[2]]) as usize;
        if tail.len() < 3 + l {
            return false;
        }
        tail = &tail[3 + l..];
    }
    true
}

#[derive(Clone, Debug, PartialEq, Eq)]
pub enum Parsed {
    /// more bytes needed
    Incomplete,
    /// cannot be (the start of) a v2 header
    Bad(String),
    Ok { header: Header, consumed: usize },
}

pub fn parse(buf: &[u8]) -> Parsed {
    let n = buf.len().min(12);
    if buf[..n] != SIG[..n] {
        let at = (0..n).find(|i| buf[*i] != SIG[*i]).unwrap_or(0);
        return Parsed::Bad(format!("signature mismatch at byte {at}"));
    }
    if buf.len() < 16 {
        return Parsed::Incomplete;
    }
    let ver_cmd = buf[12];
    let fam_proto = buf[13];
    if ver_cmd >> 4 != 2 {
        return Parsed::Bad(format!("version nibble {:#x}", ver_cmd >> 4));
    }
    if ver_cmd & 0x0f > 1 {
        return Parsed::Bad(format!("command nibble {:#x}", ver_cmd & 0x0f));
    }
    if fam_proto >> 4 > 3 {
        return Parsed::Bad(format!("family nibble {:#x}", fam_proto >> 4));
    }
    if fam_proto & 0x0f > 2 {
        return Parsed::Bad(format!("transport nibble {:#x}", fam_proto & 0x0f));
    }
    let len = u16::from_be_bytes([buf[14], buf[15]]) as usize;
    if buf.len() < 16 + len {
        return Parsed::Incomplete;
    }
    let body = &buf[16..16 + len];
    let need = match fam_proto >> 4 {
        1 => 12,
        2 => 36,
        3 => 216,
        _ => 0,
    };
    if body.len() < need {
        return Parsed::Bad(format!("length {len} too short for family {:#x}", fam_proto >> 4));
    }
    let addr = match fam_proto >> 4 {
        1 => Addr::V4(
            SocketAddrV4::new(Ipv4Addr::new(body[0], body[1], body[2], body[3]), u16::from_be_bytes([body[8], body[9]])),
            SocketAddrV4::new(Ipv4Addr::new(body[4], body[5], body[6], body[7]), u16::from_be_bytes([body[10], body[11]])),
        ),
        2 => {
            let mut s = [0u8; 16];
            s.copy_from_slice(&body[0..16]);
            let mut d = [0u8; 16];
            d.copy_from_slice(&body[16..32]);
            Addr::V6(
                SocketAddrV6::new(Ipv6Addr::from(s), u16::from_be_bytes([body[32], body[33]]), 0, 0),
                SocketAddrV6::new(Ipv6Addr::from(d), u16::from_be_bytes([body[34], body[35]]), 0, 0),
            )
        }
        3 => Addr::Unix(body[0..108].to_vec(), body[108..216].to_vec()),
        _ => Addr::None,
    };
    Parsed::Ok {
        header: Header {
            ver_cmd,
            fam_proto,
            addr,
            tail: body[need..].to_vec(),
        },
        consumed: 16 + len,
    }
}

/// builder/parser agree with each other and with the example of the specification's layout
pub fn self_test() -> Result<(), String> {
    let v4 = Header {
        ver_cmd: 0x21,
        fam_proto: 0x11,
        addr: Addr::V4("125.25.10.1:8080".parse().unwrap(), "10.4.5.8:4200".parse().unwrap()),
        tail: vec![],
    };
    let want: [u8; 28] = [
        0x0D, 0x0A, 0x0D, 0x0A, 0x00, 0x0D, 0x0A, 0x51, 0x55, 0x49, 0x54, 0x0A, 0x21, 0x11, 0x00, 0x0C, 0x7D, 0x19, 0x0A, 0x01, 0x0A, 0x04,
        0x05, 0x08, 0x1F, 0x90, 0x10, 0x68,
    ];
    if v4.encode() != want {
        return Err("IPv4 header encoding differs from the reference bytes".into());
    }
    for tail in [0usize, 1, 3, 12, 24, 204] {
        for h in [
            Header { tail: tlv_tail(tail), ..v4.clone() },
            Header {
                ver_cmd: 0x21,
                fam_proto: 0x21,
                addr: Addr::V6("[2001:db8::1]:1".parse().unwrap(), "[::1]:65535".parse().unwrap()),
                tail: tlv_tail(tail.min(180)),
            },
            Header { ver_cmd: 0x20, fam_proto: 0x00, addr: Addr::None, tail: tlv_tail(tail) },
        ] {
            let bytes = h.encode();
            match parse(&bytes) {
                Parsed::Ok { header, consumed } if header == h && consumed == bytes.len() => {}
                other => return Err(format!("round trip failed for {h:?}: {other:?}")),
            }
            for cut in 0..bytes.len() {
                if parse(&bytes[..cut]) != Parsed::Incomplete {
                    return Err(format!("prefix {cut} of a valid header not Incomplete"));
                }
            }
            if tail >= 3 && !tlvs_well_formed(&h.tail) {
                return Err(format!("tlv_tail({tail}) not well-formed"));
            }
        }
    }
    Ok(())
}
