//! Session engine: one scripted side of a relayed connection (a reader in the calling thread, a
//! writer in a second thread), self-describing payloads, abort/watchdog plumbing.

use std::{
    io::{ErrorKind, Read, Write},
    net::{Shutdown, TcpStream},
    sync::{
        Arc,
        atomic::{AtomicBool, AtomicU64, Ordering},
    },
    time::{Duration, Instant},
};

use serde_json::{Value, json};
use sozu_lib::verif::Probe;

use super::pp;
use crate::{common::rng::splitmix64, peers::IoProgram};

// ---------- keystream (same values as common::rng::keystream_byte, 8 bytes per step) ----------

pub fn ks_fill(id: u64, off: u64, buf: &mut [u8]) {
    let mut i = 0usize;
    while i < buf.len() {
        let pos = off + i as u64;
        let mut x = id.wrapping_mul(0xA076_1D64_78BD_642F) ^ (pos >> 3);
        let v = splitmix64(&mut x).to_le_bytes();
        let start = (pos & 7) as usize;
        let n = (8 - start).min(buf.len() - i);
        buf[i..i + n].copy_from_slice(&v[start..start + n]);
        i += n;
    }
}

pub fn ks_vec(id: u64, off: u64, len: usize) -> Vec<u8> {
    let mut v = vec![0u8; len];
    ks_fill(id, off, &mut v);
    v
}

pub fn ks_first_mismatch(id: u64, off: u64, data: &[u8]) -> Option<usize> {
    let mut tmp = [0u8; 4096];
    let mut done = 0usize;
    while done < data.len() {
        let n = (data.len() - done).min(tmp.len());
        ks_fill(id, off + done as u64, &mut tmp[..n]);
        if tmp[..n] != data[done..done + n] {
            let k = (0..n).find(|k| tmp[*k] != data[done + *k]).unwrap_or(0);
            return Some(done + k);
        }
        done += n;
    }
    None
}

// ---------- shared session state ----------

pub struct Shared {
    /// origin of the session's timestamps
    pub t0: Instant,
    pub abort: AtomicBool,
    pub timed_out: AtomicBool,
    pub progress: AtomicU64,
    pub deadline: Instant,
}

impl Shared {
    pub fn new(deadline: Instant) -> Shared {
        Shared {
            t0: Instant::now(),
            abort: AtomicBool::new(false),
            timed_out: AtomicBool::new(false),
            progress: AtomicU64::new(0),
            deadline,
        }
    }
    pub fn now_us(&self) -> u64 {
        self.t0.elapsed().as_micros() as u64
    }
    fn stop(&self) -> bool {
        if self.abort.load(Ordering::SeqCst) {
            return true;
        }
        if Instant::now() > self.deadline {
            self.timed_out.store(true, Ordering::SeqCst);
            self.abort.store(true, Ordering::SeqCst);
            return true;
        }
        false
    }
}

#[derive(Default)]
pub struct SideState {
    pub first_byte_seen: AtomicBool,
    pub eos_seen: AtomicBool,
    pub handshake_done: AtomicBool,
    pub send_done: AtomicBool,
    pub send_failed: AtomicBool,
    pub rst_now: AtomicBool,
    pub sent: AtomicU64,
    /// harness-side timestamps (microseconds since Shared::t0): when this side started, its last
    /// successful write() and the longest pause between two consecutive writes (the first one is
    /// measured from the start of the side), the last byte received and the end-of-stream
    pub started_us: AtomicU64,
    pub first_write_us: AtomicU64,
    pub last_write_us: AtomicU64,
    pub max_write_gap_us: AtomicU64,
    pub writes: AtomicU64,
    pub last_byte_us: AtomicU64,
    pub eos_us: AtomicU64,
}

impl SideState {
    fn note_write(&self, sh: &Shared) {
        let now = sh.now_us();
        let last = self.last_write_us.swap(now, Ordering::SeqCst);
        if self.writes.fetch_add(1, Ordering::SeqCst) == 0 {
            self.first_write_us.store(now, Ordering::SeqCst);
        }
        self.max_write_gap_us.fetch_max(now.saturating_sub(last), Ordering::SeqCst);
    }
}

// ---------- scripts ----------

#[derive(Clone, Debug, PartialEq, Eq)]
pub enum Role {
    /// closes first. `half`: shutdown(WR) right after its last byte, then reads to end-of-stream;
    /// otherwise a full close once everything was sent and `recv_expect` bytes were received
    First { half: bool },
    /// reads until end-of-stream, then closes. `late`: sends its bytes only after that end-of-stream
    Other { late: bool },
    /// aborts the connection (RST) after having sent `after` payload bytes
    Rst { after: u64 },
}

#[derive(Clone, Debug, PartialEq, Eq)]
pub enum StripMode {
    None,
    /// a PROXY v2 header precedes the payload
    Pp,
    /// an HTTP/1.1 head (up to the empty line) precedes the payload
    HttpHead,
}

#[derive(Clone, Default)]
pub struct Preamble {
    pub bytes: Vec<u8>,
    /// ascending offsets of `bytes` at which a write() ends; the next one starts once sozu has
    /// read everything written so far
    pub cuts: Vec<usize>,
    /// payload bytes written in the same write() as the last preamble fragment (0 = the payload
    /// starts in a later write, after sozu consumed the preamble when `probe` is set)
    pub joined: usize,
    /// wait on sozu's read counter: bytes read so far must reach base + n (base is sampled when
    /// the preamble starts if not given)
    pub probe: Option<Arc<Probe>>,
    pub base: Option<u64>,
}

#[derive(Clone)]
pub struct Side {
    pub name: &'static str,
    pub send_id: u64,
    pub send_len: u64,
    pub recv_id: u64,
    pub recv_expect: u64,
    pub prog: IoProgram,
    pub role: Role,
    pub strip: StripMode,
    pub preamble: Preamble,
    /// the writer starts only after the first received byte (or end-of-stream)
    pub hold_until_first_byte: bool,
    /// wait for the end of the peer's HTTP head: before the preamble (backend) / after it (client)
    pub wait_handshake_before_preamble: bool,
    pub wait_handshake_after_preamble: bool,
}

// ---------- receive side ----------

#[derive(Clone, Debug)]
pub struct Mismatch {
    /// payload offset of the first wrong byte
    pub offset: u64,
    pub got: Vec<u8>,
    pub want: Vec<u8>,
    /// got == keystream[offset + shift ..] (positive: bytes missing, negative: bytes repeated)
    pub shift: Option<i64>,
    pub looks_like_pp_signature: bool,
}

#[derive(Clone, Debug)]
pub enum Strip {
    None,
    Pending(Vec<u8>),
    PpDone { header: pp::Header, raw_len: usize },
    PpBad { why: String, looks_like_payload: bool },
    HttpDone { head: Vec<u8> },
}

pub struct Receiver {
    pub id: u64,
    pub mode: StripMode,
    pub strip: Strip,
    pub payload: u64,
    pub after_mismatch: u64,
    pub raw: u64,
    pub mismatch: Option<Mismatch>,
    pub first: Vec<u8>,
}

const FIRST_CAP: usize = 320;

impl Receiver {
    pub fn new(id: u64, mode: StripMode) -> Receiver {
        Receiver {
            id,
            strip: if mode == StripMode::None { Strip::None } else { Strip::Pending(Vec::new()) },
            mode,
            payload: 0,
            after_mismatch: 0,
            raw: 0,
            mismatch: None,
            first: Vec::new(),
        }
    }

    /// returns true when the preamble (if any) is complete after this chunk
    pub fn feed(&mut self, data: &[u8]) {
        self.raw += data.len() as u64;
        if self.first.len() < FIRST_CAP {
            let n = (FIRST_CAP - self.first.len()).min(data.len());
            self.first.extend_from_slice(&data[..n]);
        }
        match &mut self.strip {
            Strip::None | Strip::PpDone { .. } | Strip::HttpDone { .. } => self.verify(data),
            Strip::PpBad { .. } => {}
            Strip::Pending(buf) => {
                buf.extend_from_slice(data);
                let buf = std::mem::take(buf);
                if self.mode == StripMode::Pp {
                    match pp::parse(&buf) {
                        pp::Parsed::Incomplete => self.strip = Strip::Pending(buf),
                        pp::Parsed::Bad(why) => {
                            let n = buf.len().min(64);
                            let looks_like_payload = n >= 4 && ks_first_mismatch(self.id, 0, &buf[..n]).is_none();
                            self.strip = Strip::PpBad { why, looks_like_payload };
                        }
                        pp::Parsed::Ok { header, consumed } => {
                            self.strip = Strip::PpDone { header, raw_len: consumed };
                            let rest = buf[consumed..].to_vec();
                            self.verify(&rest);
                        }
                    }
                } else {
                    match find_head_end(&buf) {
                        None => self.strip = Strip::Pending(buf),
                        Some(end) => {
                            self.strip = Strip::HttpDone { head: buf[..end].to_vec() };
                            let rest = buf[end..].to_vec();
                            self.verify(&rest);
                        }
                    }
                }
            }
        }
    }

    pub fn preamble_done(&self) -> bool {
        !matches!(self.strip, Strip::Pending(_))
    }

    fn verify(&mut self, data: &[u8]) {
        if data.is_empty() {
            return;
        }
        if self.mismatch.is_some() {
            self.after_mismatch += data.len() as u64;
            return;
        }
        match ks_first_mismatch(self.id, self.payload, data) {
            None => self.payload += data.len() as u64,
            Some(k) => {
                self.payload += k as u64;
                let got = data[k..data.len().min(k + 64)].to_vec();
                let want = ks_vec(self.id, self.payload, got.len());
                let n = got.len().min(pp::SIG.len());
                self.mismatch = Some(Mismatch {
                    offset: self.payload,
                    shift: localize(self.id, self.payload, &got),
                    looks_like_pp_signature: n >= 4 && got[..n] == pp::SIG[..n],
                    got,
                    want,
                });
                self.after_mismatch += (data.len() - k) as u64;
            }
        }
    }
}

pub fn find_head_end(buf: &[u8]) -> Option<usize> {
    buf.windows(4).position(|w| w == b"\r\n\r\n").map(|p| p + 4)
}

/// where in the keystream does `got` come from? (needs >= 8 bytes to be meaningful)
fn localize(id: u64, offset: u64, got: &[u8]) -> Option<i64> {
    if got.len() < 8 {
        return None;
    }
    let pat = &got[..got.len().min(16)];
    const SPAN: u64 = 300_000;
    let fwd = ks_vec(id, offset, SPAN as usize + pat.len());
    if let Some(p) = fwd.windows(pat.len()).position(|w| w == pat) {
        if p > 0 {
            return Some(p as i64);
        }
    }
    let back = offset.min(SPAN);
    if back > 0 {
        let start = offset - back;
        let win = ks_vec(id, start, back as usize + pat.len());
        if let Some(p) = win.windows(pat.len()).rposition(|w| w == pat) {
            let at = start + p as u64;
            if at < offset {
                return Some(at as i64 - offset as i64);
            }
        }
    }
    None
}

trait RPos<T> {
    fn rposition(self, f: impl FnMut(T) -> bool) -> Option<usize>;
}
impl<'a> RPos<&'a [u8]> for std::slice::Windows<'a, u8> {
    fn rposition(self, mut f: impl FnMut(&'a [u8]) -> bool) -> Option<usize> {
        let mut found = None;
        for (i, w) in self.enumerate() {
            if f(w) {
                found = Some(i);
            }
        }
        found
    }
}

#[derive(Clone, Debug, PartialEq, Eq)]
pub enum End {
    /// clean end-of-stream (read returned 0)
    Eof,
    /// connection reset / broken while reading
    Reset(String),
    /// this side decided to close (First, everything sent and received)
    Complete,
    /// this side reset the connection itself
    LocalReset,
    /// session aborted by the harness (mismatch elsewhere, watchdog)
    Aborted,
}

pub struct SideReport {
    pub name: &'static str,
    pub recv: Receiver,
    pub end: End,
    pub sent: u64,
    pub send_done: bool,
    pub send_err: Option<String>,
    pub split_wait_timeouts: u64,
    pub local: Option<std::net::SocketAddr>,
    pub peer: Option<std::net::SocketAddr>,
    /// number of successful write() calls, time from the first to the last one, longest pause
    /// between two consecutive ones (the first measured from the start of the side)
    pub writes: u64,
    pub write_span_ms: u64,
    pub max_write_gap_ms: u64,
    /// time between the last byte received and the end-of-stream (when both were seen)
    pub eos_after_last_byte_ms: Option<u64>,
}

impl SideReport {
    pub fn json(&self) -> Value {
        let strip = match &self.recv.strip {
            Strip::None => json!(null),
            Strip::Pending(b) => json!({"incomplete_preamble_hex": hex::encode(&b[..b.len().min(300)])}),
            Strip::PpDone { header, raw_len } => json!({"pp_header": {"ver_cmd": header.ver_cmd, "fam_proto": header.fam_proto,
                "addr": header.addr.describe(), "tail_len": header.tail.len(), "raw_len": raw_len}}),
            Strip::PpBad { why, looks_like_payload } => json!({"pp_bad": why, "looks_like_payload": looks_like_payload}),
            Strip::HttpDone { head } => json!({"http_head": String::from_utf8_lossy(&head[..head.len().min(200)])}),
        };
        json!({
            "side": self.name,
            "end": format!("{:?}", self.end),
            "payload_bytes_received": self.recv.payload,
            "raw_bytes_received": self.recv.raw,
            "bytes_after_mismatch": self.recv.after_mismatch,
            "mismatch": self.recv.mismatch.as_ref().map(|m| json!({"payload_offset": m.offset, "got_hex": hex::encode(&m.got),
                "want_hex": hex::encode(&m.want), "shift": m.shift, "looks_like_pp_signature": m.looks_like_pp_signature})),
            "first_raw_bytes_hex": hex::encode(&self.recv.first[..self.recv.first.len().min(96)]),
            "preamble": strip,
            "payload_bytes_sent": self.sent,
            "send_done": self.send_done,
            "send_error": self.send_err,
            "local": self.local.map(|a| a.to_string()),
            "peer": self.peer.map(|a| a.to_string()),
            "writes": self.writes, "write_span_ms": self.write_span_ms, "max_write_gap_ms": self.max_write_gap_ms,
            "eos_after_last_byte_ms": self.eos_after_last_byte_ms,
        })
    }
}

fn wait_flag(flag: &AtomicBool, alt: Option<&AtomicBool>, sh: &Shared) -> bool {
    loop {
        if flag.load(Ordering::SeqCst) || alt.is_some_and(|a| a.load(Ordering::SeqCst)) {
            return true;
        }
        if sh.stop() {
            return false;
        }
        std::thread::sleep(Duration::from_micros(300));
    }
}

/// write all of `data`; Err on connection error, Ok(false) when the session was aborted
fn write_all(s: &mut TcpStream, data: &[u8], sh: &Shared, st: &SideState) -> std::io::Result<bool> {
    let mut off = 0;
    while off < data.len() {
        if sh.stop() {
            return Ok(false);
        }
        match s.write(&data[off..]) {
            Ok(0) => return Err(std::io::Error::new(ErrorKind::WriteZero, "write returned 0")),
            Ok(n) => {
                off += n;
                st.note_write(sh);
                sh.progress.fetch_add(n as u64, Ordering::Relaxed);
            }
            Err(e) if matches!(e.kind(), ErrorKind::WouldBlock | ErrorKind::TimedOut | ErrorKind::Interrupted) => {}
            Err(e) => return Err(e),
        }
    }
    Ok(true)
}

pub fn sozu_read_bytes(p: &Probe) -> u64 {
    p.counter("io.tcp.read.bytes") + p.counter("io.session_tcp.read.bytes")
}

fn wait_sozu_read(probe: &Option<Arc<Probe>>, base: u64, n: u64, sh: &Shared, st: &SideState) -> bool {
    let Some(p) = probe else {
        std::thread::sleep(Duration::from_millis(3));
        return true;
    };
    let start = Instant::now();
    loop {
        if sozu_read_bytes(p) >= base + n {
            return true;
        }
        if sh.stop() || st.eos_seen.load(Ordering::SeqCst) {
            // the connection is over: nothing to wait for (not a timeout)
            return true;
        }
        if start.elapsed() > Duration::from_millis(400) {
            return false;
        }
        std::thread::sleep(Duration::from_micros(200));
    }
}

struct WriterOut {
    err: Option<String>,
    split_wait_timeouts: u64,
}

fn run_writer(mut s: TcpStream, side: &Side, sh: &Shared, st: &SideState) -> WriterOut {
    let mut out = WriterOut { err: None, split_wait_timeouts: 0 };
    let _ = s.set_write_timeout(Some(Duration::from_millis(20)));
    let fail = |out: &mut WriterOut, e: std::io::Error| {
        out.err = Some(format!("{:?}: {e}", e.kind()));
        st.send_failed.store(true, Ordering::SeqCst);
    };
    if side.hold_until_first_byte && !wait_flag(&st.first_byte_seen, Some(&st.eos_seen), sh) {
        return out;
    }
    if side.wait_handshake_before_preamble && !wait_flag(&st.handshake_done, Some(&st.eos_seen), sh) {
        return out;
    }
    let limit = match side.role {
        Role::Rst { after } => after.min(side.send_len),
        _ => side.send_len,
    };
    let mut off: u64 = 0;
    // preamble
    let pre = &side.preamble;
    if !pre.bytes.is_empty() {
        let base = pre.base.or_else(|| pre.probe.as_ref().map(|p| sozu_read_bytes(p))).unwrap_or(0);
        let mut done = 0usize;
        for &p in &pre.cuts {
            let p = p.min(pre.bytes.len());
            if p <= done || p >= pre.bytes.len() {
                continue;
            }
            match write_all(&mut s, &pre.bytes[done..p], sh, st) {
                Ok(true) => {}
                Ok(false) => return out,
                Err(e) => {
                    fail(&mut out, e);
                    return out;
                }
            }
            if !wait_sozu_read(&pre.probe, base, p as u64, sh, st) {
                out.split_wait_timeouts += 1;
            }
            done = p;
        }
        let rest = &pre.bytes[done..];
        let j = (pre.joined as u64).min(limit) as usize;
        let mut chunk = rest.to_vec();
        if j > 0 && !side.wait_handshake_after_preamble {
            chunk.extend_from_slice(&ks_vec(side.send_id, 0, j));
        }
        match write_all(&mut s, &chunk, sh, st) {
            Ok(true) => {}
            Ok(false) => return out,
            Err(e) => {
                fail(&mut out, e);
                return out;
            }
        }
        if j > 0 && !side.wait_handshake_after_preamble {
            off = j as u64;
            st.sent.store(off, Ordering::SeqCst);
        } else if pre.probe.is_some() && !wait_sozu_read(&pre.probe, base, pre.bytes.len() as u64, sh, st) {
            out.split_wait_timeouts += 1;
        }
    }
    if side.wait_handshake_after_preamble && !wait_flag(&st.handshake_done, Some(&st.eos_seen), sh) {
        return out;
    }
    // payload (a late side first waits for the peer's end-of-stream; any handshake is over by then)
    if let Role::Other { late: true } = side.role {
        if !wait_flag(&st.eos_seen, None, sh) {
            return out;
        }
    }
    let seg = if side.prog.write_seg == 0 { 65536 } else { side.prog.write_seg.min(65536) };
    let mut buf = vec![0u8; seg];
    while off < limit {
        let n = ((limit - off) as usize).min(seg);
        ks_fill(side.send_id, off, &mut buf[..n]);
        let mut done = 0usize;
        while done < n {
            if sh.stop() {
                return out;
            }
            match s.write(&buf[done..n]) {
                Ok(0) => {
                    fail(&mut out, std::io::Error::new(ErrorKind::WriteZero, "write returned 0"));
                    return out;
                }
                Ok(k) => {
                    done += k;
                    st.note_write(sh);
                    st.sent.fetch_add(k as u64, Ordering::SeqCst);
                    sh.progress.fetch_add(k as u64, Ordering::Relaxed);
                }
                Err(e) if matches!(e.kind(), ErrorKind::WouldBlock | ErrorKind::TimedOut | ErrorKind::Interrupted) => {}
                Err(e) => {
                    fail(&mut out, e);
                    return out;
                }
            }
        }
        off += n as u64;
        if side.prog.write_pause_us > 0 && off < limit {
            std::thread::sleep(Duration::from_micros(side.prog.write_pause_us));
        }
    }
    match side.role {
        Role::First { half: true } => {
            let _ = s.shutdown(Shutdown::Write);
        }
        Role::Rst { .. } => {
            let _ = socket2::SockRef::from(&s).set_linger(Some(Duration::ZERO));
            st.rst_now.store(true, Ordering::SeqCst);
        }
        _ => {}
    }
    st.send_done.store(true, Ordering::SeqCst);
    out
}

/// run one side of the session on `stream` until it closes it
pub fn run_side(stream: TcpStream, side: &Side, sh: &Shared) -> SideReport {
    let st = SideState::default();
    st.started_us.store(sh.now_us(), Ordering::SeqCst);
    st.last_write_us.store(sh.now_us(), Ordering::SeqCst);
    let local = stream.local_addr().ok();
    let peer = stream.peer_addr().ok();
    let mut recv = Receiver::new(side.recv_id, side.strip.clone());
    let mut end = End::Aborted;
    let mut rd = stream;
    let wr = rd.try_clone();
    let mut wout = WriterOut { err: None, split_wait_timeouts: 0 };
    std::thread::scope(|scope| {
        let writer = match wr {
            Ok(w) => Some(scope.spawn(|| run_writer(w, side, sh, &st))),
            Err(_) => None,
        };
        let _ = rd.set_read_timeout(Some(Duration::from_millis(4)));
        let _ = socket2::SockRef::from(&rd).set_tcp_quickack(true);
        let chunk = if side.prog.read_chunk == 0 { 65536 } else { side.prog.read_chunk.min(65536) };
        let mut buf = vec![0u8; chunk];
        loop {
            if sh.stop() {
                end = End::Aborted;
                break;
            }
            if st.rst_now.load(Ordering::SeqCst) {
                end = End::LocalReset;
                break;
            }
            if side.role == (Role::First { half: false })
                && st.send_done.load(Ordering::SeqCst)
                && recv.preamble_done()
                && recv.payload + recv.after_mismatch >= side.recv_expect
            {
                end = End::Complete;
                break;
            }
            match rd.read(&mut buf) {
                Ok(0) => {
                    end = End::Eof;
                    break;
                }
                Ok(n) => {
                    // acknowledge at once (a legal receiver behaviour): without it the 40 ms delayed-ACK
                    // timer paces every transfer through a shrunk socket buffer
                    let _ = socket2::SockRef::from(&rd).set_tcp_quickack(true);
                    st.first_byte_seen.store(true, Ordering::SeqCst);
                    st.last_byte_us.store(sh.now_us(), Ordering::SeqCst);
                    sh.progress.fetch_add(n as u64, Ordering::Relaxed);
                    recv.feed(&buf[..n]);
                    if side.strip == StripMode::HttpHead && recv.preamble_done() {
                        st.handshake_done.store(true, Ordering::SeqCst);
                    }
                    if recv.mismatch.is_some() || matches!(recv.strip, Strip::PpBad { .. }) {
                        sh.abort.store(true, Ordering::SeqCst);
                    }
                    if side.prog.read_pause_us > 0 {
                        std::thread::sleep(Duration::from_micros(side.prog.read_pause_us));
                    }
                }
                Err(e) if matches!(e.kind(), ErrorKind::WouldBlock | ErrorKind::TimedOut | ErrorKind::Interrupted) => {}
                Err(e) => {
                    end = End::Reset(format!("{:?}", e.kind()));
                    break;
                }
            }
        }
        if matches!(end, End::Eof | End::Reset(_)) {
            st.eos_us.store(sh.now_us(), Ordering::SeqCst);
            st.eos_seen.store(true, Ordering::SeqCst);
        }
        if let Some(w) = writer {
            if let Ok(o) = w.join() {
                wout = o;
            }
        }
    });
    drop(rd);
    SideReport {
        name: side.name,
        recv,
        end,
        sent: st.sent.load(Ordering::SeqCst),
        send_done: st.send_done.load(Ordering::SeqCst),
        send_err: wout.err,
        split_wait_timeouts: wout.split_wait_timeouts,
        local,
        peer,
        writes: st.writes.load(Ordering::SeqCst),
        write_span_ms: if st.writes.load(Ordering::SeqCst) == 0 { 0 } else { st.last_write_us.load(Ordering::SeqCst).saturating_sub(st.first_write_us.load(Ordering::SeqCst)) / 1000 },
        max_write_gap_ms: st.max_write_gap_us.load(Ordering::SeqCst) / 1000,
        eos_after_last_byte_ms: match (st.last_byte_us.load(Ordering::SeqCst), st.eos_us.load(Ordering::SeqCst)) {
            (b, e) if b > 0 && e >= b => Some((e - b) / 1000),
            _ => None,
        },
    }
}

pub fn self_test() -> Result<(), String> {
    for (id, off, len) in [(1u64, 0u64, 100usize), (7, 5, 33), (0xdead, 16380, 40)] {
        if ks_vec(id, off, len) != crate::common::rng::keystream(id, off, len) {
            return Err("fast keystream differs from common::rng::keystream".into());
        }
    }
    let mut r = Receiver::new(5, StripMode::None);
    let mut data = ks_vec(5, 0, 200);
    data.drain(50..62);
    r.feed(&data);
    match &r.mismatch {
        Some(m) if m.offset == 50 && m.shift == Some(12) => Ok(()),
        other => Err(format!("localisation self-test failed: {other:?}")),
    }
}
