//! Scripted HTTP/2 peer: frame codec, HPACK wrappers (loona-hpack), and a connection object with an
//! online *ledger* that checks every frame the remote (sozu) sends against the limits this peer
//! advertised (RFC 9113 / RFC 7541). Independent from sozu's mux code.
//!
//! The codec only *records* (`H2Conn::ledger_violations`); monitors decide what is a verdict.
//! It can emit any frame, legal or not (`send_frame`, `send_raw`, `raw`, `encode_frame_lying`).
//!
//! Quick tour:
//! ```ignore
//! let (tls, _) = TlsClient::handshake(tcp, "example.test", client_config(&["h2"]), t)?;
//! let mut c = H2Conn::new(tls, Role::Client);
//! c.auto_ack = true; c.replenish = Replenish::Immediately;
//! c.handshake_client(&[(SET_INITIAL_WINDOW_SIZE, 65535)])?;
//! let sid = c.next_stream_id();
//! c.send_headers(sid, &request_headers("GET", "https", "example.test", "/", &[]), true)?;
//! while let Some(ev) = c.poll(Duration::from_secs(2))? { ... }
//! assert!(c.ledger_violations.is_empty());
//! ```

use std::{
    collections::{BTreeMap, BTreeSet, VecDeque},
    io::{self, Read, Write},
    net::TcpStream,
    os::unix::io::AsRawFd,
    time::{Duration, Instant},
};

use super::{IoProgram, tls::TlsClient};

pub const PREFACE: &[u8; 24] = b"PRI * HTTP/2.0\r\n\r\nSM\r\n\r\n";

// ---- frame types -------------------------------------------------------------------------------
pub const FT_DATA: u8 = 0x0;
pub const FT_HEADERS: u8 = 0x1;
pub const FT_PRIORITY: u8 = 0x2;
pub const FT_RST_STREAM: u8 = 0x3;
pub const FT_SETTINGS: u8 = 0x4;
pub const FT_PUSH_PROMISE: u8 = 0x5;
pub const FT_PING: u8 = 0x6;
pub const FT_GOAWAY: u8 = 0x7;
pub const FT_WINDOW_UPDATE: u8 = 0x8;
pub const FT_CONTINUATION: u8 = 0x9;

// ---- flags -------------------------------------------------------------------------------------
pub const FL_END_STREAM: u8 = 0x1;
pub const FL_ACK: u8 = 0x1;
pub const FL_END_HEADERS: u8 = 0x4;
pub const FL_PADDED: u8 = 0x8;
pub const FL_PRIORITY: u8 = 0x20;

// ---- settings identifiers ----------------------------------------------------------------------
pub const SET_HEADER_TABLE_SIZE: u16 = 0x1;
pub const SET_ENABLE_PUSH: u16 = 0x2;
pub const SET_MAX_CONCURRENT_STREAMS: u16 = 0x3;
pub const SET_INITIAL_WINDOW_SIZE: u16 = 0x4;
pub const SET_MAX_FRAME_SIZE: u16 = 0x5;
pub const SET_MAX_HEADER_LIST_SIZE: u16 = 0x6;
pub const SET_ENABLE_CONNECT_PROTOCOL: u16 = 0x8;
pub const SET_NO_RFC7540_PRIORITIES: u16 = 0x9;

// ---- error codes -------------------------------------------------------------------------------
pub const ERR_NO_ERROR: u32 = 0x0;
pub const ERR_PROTOCOL_ERROR: u32 = 0x1;
pub const ERR_INTERNAL_ERROR: u32 = 0x2;
pub const ERR_FLOW_CONTROL_ERROR: u32 = 0x3;
pub const ERR_SETTINGS_TIMEOUT: u32 = 0x4;
pub const ERR_STREAM_CLOSED: u32 = 0x5;
pub const ERR_FRAME_SIZE_ERROR: u32 = 0x6;
pub const ERR_REFUSED_STREAM: u32 = 0x7;
pub const ERR_CANCEL: u32 = 0x8;
pub const ERR_COMPRESSION_ERROR: u32 = 0x9;
pub const ERR_CONNECT_ERROR: u32 = 0xa;
pub const ERR_ENHANCE_YOUR_CALM: u32 = 0xb;
pub const ERR_INADEQUATE_SECURITY: u32 = 0xc;
pub const ERR_HTTP_1_1_REQUIRED: u32 = 0xd;

pub const DEFAULT_INITIAL_WINDOW: u32 = 65_535;
pub const DEFAULT_MAX_FRAME_SIZE: u32 = 16_384;
pub const DEFAULT_HEADER_TABLE_SIZE: u32 = 4_096;
pub const MAX_WINDOW: i64 = 0x7fff_ffff;

pub fn frame_type_name(t: u8) -> &'static str {
    match t {
        FT_DATA => "DATA",
        FT_HEADERS => "HEADERS",
        FT_PRIORITY => "PRIORITY",
        FT_RST_STREAM => "RST_STREAM",
        FT_SETTINGS => "SETTINGS",
        FT_PUSH_PROMISE => "PUSH_PROMISE",
        FT_PING => "PING",
        FT_GOAWAY => "GOAWAY",
        FT_WINDOW_UPDATE => "WINDOW_UPDATE",
        FT_CONTINUATION => "CONTINUATION",
        _ => "UNKNOWN",
    }
}

// ================================================================================================
// Frames
// ================================================================================================

#[derive(Clone, Debug, PartialEq, Eq)]
pub struct Frame {
    pub typ: u8,
    pub flags: u8,
    /// 31-bit stream id; bit 31 (the reserved bit) is emitted as given
    pub stream: u32,
    pub payload: Vec<u8>,
}

impl Frame {
    pub fn new(typ: u8, flags: u8, stream: u32, payload: Vec<u8>) -> Frame {
        Frame { typ, flags, stream, payload }
    }
    /// DATA; `padding` = Some(n) adds the PADDED flag, the pad-length octet and n zero octets
    pub fn data(stream: u32, data: &[u8], end_stream: bool, padding: Option<u8>) -> Frame {
        let mut flags = if end_stream { FL_END_STREAM } else { 0 };
        let mut payload = Vec::with_capacity(data.len() + 1 + padding.unwrap_or(0) as usize);
        if let Some(p) = padding {
            flags |= FL_PADDED;
            payload.push(p);
        }
        payload.extend_from_slice(data);
        if let Some(p) = padding {
            payload.extend(std::iter::repeat_n(0u8, p as usize));
        }
        Frame::new(FT_DATA, flags, stream, payload)
    }
    pub fn headers(stream: u32, block: &[u8], end_stream: bool, end_headers: bool) -> Frame {
        let mut flags = 0;
        if end_stream {
            flags |= FL_END_STREAM;
        }
        if end_headers {
            flags |= FL_END_HEADERS;
        }
        Frame::new(FT_HEADERS, flags, stream, block.to_vec())
    }
    pub fn continuation(stream: u32, block: &[u8], end_headers: bool) -> Frame {
        Frame::new(FT_CONTINUATION, if end_headers { FL_END_HEADERS } else { 0 }, stream, block.to_vec())
    }
    pub fn settings(values: &[(u16, u32)]) -> Frame {
        let mut p = Vec::with_capacity(values.len() * 6);
        for (id, v) in values {
            p.extend_from_slice(&id.to_be_bytes());
            p.extend_from_slice(&v.to_be_bytes());
        }
        Frame::new(FT_SETTINGS, 0, 0, p)
    }
    pub fn settings_ack() -> Frame {
        Frame::new(FT_SETTINGS, FL_ACK, 0, Vec::new())
    }
    pub fn ping(ack: bool, data: [u8; 8]) -> Frame {
        Frame::new(FT_PING, if ack { FL_ACK } else { 0 }, 0, data.to_vec())
    }
    pub fn rst_stream(stream: u32, code: u32) -> Frame {
        Frame::new(FT_RST_STREAM, 0, stream, code.to_be_bytes().to_vec())
    }
    pub fn goaway(last: u32, code: u32, debug: &[u8]) -> Frame {
        let mut p = Vec::with_capacity(8 + debug.len());
        p.extend_from_slice(&last.to_be_bytes());
        p.extend_from_slice(&code.to_be_bytes());
        p.extend_from_slice(debug);
        Frame::new(FT_GOAWAY, 0, 0, p)
    }
    pub fn window_update(stream: u32, inc: u32) -> Frame {
        Frame::new(FT_WINDOW_UPDATE, 0, stream, inc.to_be_bytes().to_vec())
    }
    pub fn priority(stream: u32, dep: u32, exclusive: bool, weight: u8) -> Frame {
        let mut p = Vec::with_capacity(5);
        let d = (dep & 0x7fff_ffff) | if exclusive { 0x8000_0000 } else { 0 };
        p.extend_from_slice(&d.to_be_bytes());
        p.push(weight);
        Frame::new(FT_PRIORITY, 0, stream, p)
    }
    pub fn info(&self) -> FrameInfo {
        FrameInfo { typ: self.typ, flags: self.flags, stream: self.stream, len: self.payload.len() as u32 }
    }
}

/// 9-octet frame header with an arbitrary declared length (24 bits kept)
pub fn encode_frame_header(len: u32, typ: u8, flags: u8, stream: u32) -> [u8; 9] {
    let l = len & 0x00ff_ffff;
    let s = stream.to_be_bytes();
    [(l >> 16) as u8, (l >> 8) as u8, l as u8, typ, flags, s[0], s[1], s[2], s[3]]
}

/// wire form of a frame (declared length = payload length, truncated to 24 bits)
pub fn encode_frame(f: &Frame) -> Vec<u8> {
    encode_frame_lying(f, f.payload.len() as u32)
}

/// wire form of a frame whose header declares `declared_len` whatever the payload really is
pub fn encode_frame_lying(f: &Frame, declared_len: u32) -> Vec<u8> {
    let mut v = Vec::with_capacity(9 + f.payload.len());
    v.extend_from_slice(&encode_frame_header(declared_len, f.typ, f.flags, f.stream));
    v.extend_from_slice(&f.payload);
    v
}

/// Something to put on the wire: a frame, or raw bytes (escape hatch for lying lengths, partial
/// frames, garbage).
#[derive(Clone, Debug, PartialEq, Eq)]
pub enum Out {
    Frame(Frame),
    Raw(Vec<u8>),
}

pub fn raw(bytes: Vec<u8>) -> Out {
    Out::Raw(bytes)
}

pub fn encode_out(o: &Out) -> Vec<u8> {
    match o {
        Out::Frame(f) => encode_frame(f),
        Out::Raw(b) => b.clone(),
    }
}

#[derive(Clone, Copy, Debug, PartialEq, Eq)]
pub struct FrameInfo {
    pub typ: u8,
    pub flags: u8,
    pub stream: u32,
    pub len: u32,
}

impl FrameInfo {
    pub fn describe(&self) -> String {
        format!("{}(f=0x{:x},s={},l={})", frame_type_name(self.typ), self.flags, self.stream, self.len)
    }
}

/// Incremental frame splitter: feed bytes, pop complete frames. Never panics; a frame is complete
/// when 9 + declared length octets are buffered (no limit is enforced here: the ledger judges).
#[derive(Default, Debug)]
pub struct FrameReader {
    buf: Vec<u8>,
    pos: usize,
    /// total octets consumed by popped frames
    pub consumed: u64,
}

impl FrameReader {
    pub fn new() -> FrameReader {
        FrameReader::default()
    }
    pub fn feed(&mut self, bytes: &[u8]) {
        if self.pos > 0 && self.pos == self.buf.len() {
            self.buf.clear();
            self.pos = 0;
        } else if self.pos > (1 << 16) {
            self.buf.drain(..self.pos);
            self.pos = 0;
        }
        self.buf.extend_from_slice(bytes);
    }
    /// header of the next (possibly incomplete) frame: (declared length, type, flags, stream incl. R bit)
    pub fn peek_header(&self) -> Option<(u32, u8, u8, u32)> {
        let b = self.leftover();
        if b.len() < 9 {
            return None;
        }
        let len = ((b[0] as u32) << 16) | ((b[1] as u32) << 8) | b[2] as u32;
        let stream = u32::from_be_bytes([b[5], b[6], b[7], b[8]]);
        Some((len, b[3], b[4], stream))
    }
    pub fn pop(&mut self) -> Option<Frame> {
        let (len, typ, flags, stream) = self.peek_header()?;
        let total = 9usize.checked_add(len as usize)?;
        if self.leftover().len() < total {
            return None;
        }
        let payload = self.buf[self.pos + 9..self.pos + total].to_vec();
        self.pos += total;
        self.consumed += total as u64;
        Some(Frame { typ, flags, stream: stream & 0x7fff_ffff, payload })
    }
    /// bytes fed but not yet popped (an incomplete frame, or trailing garbage)
    pub fn leftover(&self) -> &[u8] {
        self.buf.get(self.pos..).unwrap_or(&[])
    }
    /// drop n leftover bytes (used to skip the client preface)
    pub fn skip(&mut self, n: usize) {
        self.pos = (self.pos + n).min(self.buf.len());
    }
}

// ================================================================================================
// HPACK
// ================================================================================================

pub type HeaderList = Vec<(Vec<u8>, Vec<u8>)>;

#[derive(Clone, Copy, Debug, PartialEq, Eq)]
pub enum HpackMode {
    /// loona's strategy: indexed when found, literal with incremental indexing for new names
    Indexing,
    /// every field as "literal without indexing", literal name (no table use at all)
    LiteralOnly,
    /// every field as "literal never indexed", literal name
    NeverIndexed,
}

/// HPACK integer (RFC 7541 5.1) with the given prefix size and first-octet pattern
pub fn hpack_int(value: usize, prefix_bits: u8, pattern: u8) -> Vec<u8> {
    let max = (1usize << prefix_bits) - 1;
    let mut out = Vec::new();
    if value < max {
        out.push(pattern | value as u8);
        return out;
    }
    out.push(pattern | max as u8);
    let mut v = value - max;
    while v >= 128 {
        out.push((v % 128) as u8 | 0x80);
        v /= 128;
    }
    out.push(v as u8);
    out
}

pub struct HpackEncoder {
    inner: loona_hpack::Encoder<'static>,
    pub mode: HpackMode,
    /// dynamic table size updates to emit at the start of the next block
    pub pending_size_updates: Vec<usize>,
    pub table_size: usize,
}

impl Default for HpackEncoder {
    fn default() -> Self {
        HpackEncoder::new()
    }
}

impl HpackEncoder {
    pub fn new() -> HpackEncoder {
        HpackEncoder {
            inner: loona_hpack::Encoder::new(),
            mode: HpackMode::Indexing,
            pending_size_updates: Vec::new(),
            table_size: DEFAULT_HEADER_TABLE_SIZE as usize,
        }
    }
    /// change the encoder's dynamic table size and signal it at the start of the next block
    pub fn set_table_size(&mut self, n: usize) {
        self.inner.set_max_table_size(n);
        self.table_size = n;
        self.pending_size_updates.push(n);
    }
    /// emit a size update in the next block without touching the encoder (hostile use)
    pub fn queue_size_update(&mut self, n: usize) {
        self.pending_size_updates.push(n);
    }
    pub fn encode(&mut self, headers: &[(Vec<u8>, Vec<u8>)]) -> Vec<u8> {
        let mut out = Vec::new();
        for n in self.pending_size_updates.drain(..) {
            out.extend(hpack_int(n, 5, 0x20));
        }
        match self.mode {
            HpackMode::Indexing => {
                out.extend(self.inner.encode(headers.iter().map(|(n, v)| (&n[..], &v[..]))));
            }
            HpackMode::LiteralOnly | HpackMode::NeverIndexed => {
                let first = if self.mode == HpackMode::NeverIndexed { 0x10 } else { 0x00 };
                for (n, v) in headers {
                    out.push(first);
                    out.extend(hpack_int(n.len(), 7, 0));
                    out.extend_from_slice(n);
                    out.extend(hpack_int(v.len(), 7, 0));
                    out.extend_from_slice(v);
                }
            }
        }
        out
    }
}

fn hpack_read_int(buf: &[u8], prefix_bits: u8) -> Option<(usize, usize)> {
    let first = *buf.first()?;
    let max = (1usize << prefix_bits) - 1;
    let mut value = first as usize & max;
    if value < max {
        return Some((value, 1));
    }
    let mut m = 0u32;
    for (i, b) in buf[1..].iter().enumerate() {
        if i >= 5 {
            return None;
        }
        value = value.checked_add(((b & 0x7f) as usize).checked_shl(m)?)?;
        m += 7;
        if b & 0x80 == 0 {
            return Some((value, i + 2));
        }
    }
    None
}

fn hpack_skip_string(buf: &[u8]) -> Option<usize> {
    let (len, used) = hpack_read_int(buf, 7)?;
    let total = used.checked_add(len)?;
    if buf.len() < total { None } else { Some(total) }
}

/// walk a header block and return (position, value) of every dynamic table size update in it;
/// best effort (stops silently at the first thing it cannot parse: the real decoder reports errors)
pub fn hpack_scan_size_updates(block: &[u8]) -> Vec<(usize, usize)> {
    let mut out = Vec::new();
    let mut pos = 0;
    let mut field_index = 0;
    while pos < block.len() {
        let b = block[pos];
        let rest = &block[pos..];
        let used = if b & 0x80 != 0 {
            hpack_read_int(rest, 7).map(|(_, u)| u)
        } else if b & 0xe0 == 0x20 {
            match hpack_read_int(rest, 5) {
                Some((v, u)) => {
                    out.push((field_index, v));
                    Some(u)
                }
                None => None,
            }
        } else {
            let prefix = if b & 0xc0 == 0x40 { 6 } else { 4 };
            (|| {
                let (idx, mut u) = hpack_read_int(rest, prefix)?;
                if idx == 0 {
                    u += hpack_skip_string(rest.get(u..)?)?;
                }
                u += hpack_skip_string(rest.get(u..)?)?;
                Some(u)
            })()
        };
        match used {
            Some(u) if u > 0 => pos += u,
            _ => break,
        }
        field_index += 1;
    }
    out
}

pub struct HpackDecoder {
    inner: loona_hpack::Decoder<'static>,
    /// the HEADER_TABLE_SIZE this side advertised: updates above it are refused (strict) or noted
    pub limit: usize,
    /// when true `decode` fails on an update above `limit`; when false it applies it and records it
    pub strict: bool,
    /// size updates seen in the last decoded block: (field position, value)
    pub last_size_updates: Vec<(usize, usize)>,
    /// every size update above the limit in force when it was seen: (value, limit)
    pub over_limit_updates: Vec<(usize, usize)>,
    /// the dynamic table maximum the remote encoder last selected
    pub current_table_size: usize,
}

impl Default for HpackDecoder {
    fn default() -> Self {
        HpackDecoder::new()
    }
}

impl HpackDecoder {
    pub fn new() -> HpackDecoder {
        HpackDecoder {
            inner: loona_hpack::Decoder::new(),
            limit: DEFAULT_HEADER_TABLE_SIZE as usize,
            strict: true,
            last_size_updates: Vec::new(),
            over_limit_updates: Vec::new(),
            current_table_size: DEFAULT_HEADER_TABLE_SIZE as usize,
        }
    }
    pub fn set_limit(&mut self, n: usize) {
        self.limit = n;
    }
    pub fn decode(&mut self, block: &[u8]) -> Result<HeaderList, String> {
        self.last_size_updates = hpack_scan_size_updates(block);
        for (_, v) in &self.last_size_updates {
            if *v > self.limit {
                self.over_limit_updates.push((*v, self.limit));
                if self.strict {
                    return Err(format!("dynamic table size update {} above advertised limit {}", v, self.limit));
                }
            }
        }
        if let Some((_, v)) = self.last_size_updates.last() {
            self.current_table_size = *v;
        }
        self.inner.decode(block).map_err(|e| format!("{e:?}"))
    }
}

pub fn request_headers(method: &str, scheme: &str, authority: &str, path: &str, extra: &[(&str, &str)]) -> HeaderList {
    let mut h: HeaderList = vec![
        (b":method".to_vec(), method.as_bytes().to_vec()),
        (b":scheme".to_vec(), scheme.as_bytes().to_vec()),
        (b":authority".to_vec(), authority.as_bytes().to_vec()),
        (b":path".to_vec(), path.as_bytes().to_vec()),
    ];
    for (n, v) in extra {
        h.push((n.as_bytes().to_vec(), v.as_bytes().to_vec()));
    }
    h
}

pub fn response_headers(status: u16, extra: &[(&str, &str)]) -> HeaderList {
    let mut h: HeaderList = vec![(b":status".to_vec(), status.to_string().into_bytes())];
    for (n, v) in extra {
        h.push((n.as_bytes().to_vec(), v.as_bytes().to_vec()));
    }
    h
}

pub fn header_value<'a>(headers: &'a [(Vec<u8>, Vec<u8>)], name: &str) -> Option<&'a [u8]> {
    headers.iter().find(|(n, _)| n.eq_ignore_ascii_case(name.as_bytes())).map(|(_, v)| &v[..])
}

pub fn header_str(headers: &[(Vec<u8>, Vec<u8>)], name: &str) -> Option<String> {
    header_value(headers, name).map(|v| String::from_utf8_lossy(v).into_owned())
}

// ================================================================================================
// Transport: byte stream with per-call waits (so one thread can both send and keep reading)
// ================================================================================================

/// A byte stream with bounded waits. Implemented for `TcpStream` and `TlsClient`; wrap any other
/// `Read + Write` in [`Blocking`].
pub trait Transport {
    /// Ok(0) = end of stream; Err(kind TimedOut) = nothing arrived within `wait`
    fn read_some(&mut self, buf: &mut [u8], wait: Duration) -> io::Result<usize>;
    /// accept some bytes (maybe into an internal buffer); Err(kind TimedOut) = no room within `wait`
    fn write_some(&mut self, buf: &[u8], wait: Duration) -> io::Result<usize>;
    /// push internally buffered bytes to the socket; Ok(true) = nothing left
    fn flush_some(&mut self, wait: Duration) -> io::Result<bool>;
    /// abortive close where supported
    fn shutdown(&mut self) {}
}

fn timed_out(what: &str) -> io::Error {
    io::Error::new(io::ErrorKind::TimedOut, what.to_owned())
}

fn is_wait(e: &io::Error) -> bool {
    matches!(e.kind(), io::ErrorKind::WouldBlock | io::ErrorKind::TimedOut)
}

fn wait_fd(fd: i32, events: i16, wait: Duration) -> bool {
    let ms = if wait.is_zero() { 0 } else { (wait.as_micros().div_ceil(1000)).clamp(1, i32::MAX as u128) as i32 };
    let mut p = libc::pollfd { fd, events, revents: 0 };
    loop {
        let r = unsafe { libc::poll(&mut p, 1, ms) };
        if r < 0 && io::Error::last_os_error().kind() == io::ErrorKind::Interrupted {
            continue;
        }
        return r > 0;
    }
}

/// non-blocking view of a socket (MSG_DONTWAIT): never changes the socket's own flags
struct Nb<'a>(&'a TcpStream);

impl Read for Nb<'_> {
    fn read(&mut self, buf: &mut [u8]) -> io::Result<usize> {
        let r = unsafe { libc::recv(self.0.as_raw_fd(), buf.as_mut_ptr() as *mut libc::c_void, buf.len(), libc::MSG_DONTWAIT) };
        if r < 0 { Err(io::Error::last_os_error()) } else { Ok(r as usize) }
    }
}

impl Write for Nb<'_> {
    fn write(&mut self, buf: &[u8]) -> io::Result<usize> {
        let r = unsafe {
            libc::send(self.0.as_raw_fd(), buf.as_ptr() as *const libc::c_void, buf.len(), libc::MSG_DONTWAIT | libc::MSG_NOSIGNAL)
        };
        if r < 0 { Err(io::Error::last_os_error()) } else { Ok(r as usize) }
    }
    fn flush(&mut self) -> io::Result<()> {
        Ok(())
    }
}

fn sock_read(sock: &TcpStream, buf: &mut [u8], wait: Duration) -> io::Result<usize> {
    let deadline = Instant::now() + wait;
    loop {
        match Nb(sock).read(buf) {
            Ok(n) => return Ok(n),
            Err(e) if e.kind() == io::ErrorKind::Interrupted => continue,
            Err(e) if is_wait(&e) => {
                let left = deadline.saturating_duration_since(Instant::now());
                if left.is_zero() || !wait_fd(sock.as_raw_fd(), libc::POLLIN, left) {
                    return Err(timed_out("read wait elapsed"));
                }
            }
            Err(e) => return Err(e),
        }
    }
}

fn sock_write(sock: &TcpStream, buf: &[u8], wait: Duration) -> io::Result<usize> {
    let deadline = Instant::now() + wait;
    loop {
        match Nb(sock).write(buf) {
            Ok(n) => return Ok(n),
            Err(e) if e.kind() == io::ErrorKind::Interrupted => continue,
            Err(e) if is_wait(&e) => {
                let left = deadline.saturating_duration_since(Instant::now());
                if left.is_zero() || !wait_fd(sock.as_raw_fd(), libc::POLLOUT, left) {
                    return Err(timed_out("write wait elapsed"));
                }
            }
            Err(e) => return Err(e),
        }
    }
}

impl Transport for TcpStream {
    fn read_some(&mut self, buf: &mut [u8], wait: Duration) -> io::Result<usize> {
        sock_read(self, buf, wait)
    }
    fn write_some(&mut self, buf: &[u8], wait: Duration) -> io::Result<usize> {
        if buf.is_empty() {
            return Ok(0);
        }
        sock_write(self, buf, wait)
    }
    fn flush_some(&mut self, _wait: Duration) -> io::Result<bool> {
        Ok(true)
    }
    fn shutdown(&mut self) {
        let _ = socket2::SockRef::from(&*self).set_linger(Some(Duration::ZERO));
        let _ = TcpStream::shutdown(self, std::net::Shutdown::Both);
    }
}

/// The TLS client is driven record by record here (not through rustls' `Stream`, whose reads wait
/// for pending writes to drain: that deadlocks a single-threaded peer doing bulk both ways).
impl Transport for TlsClient {
    fn read_some(&mut self, buf: &mut [u8], wait: Duration) -> io::Result<usize> {
        let deadline = Instant::now() + wait;
        loop {
            match self.stream.conn.reader().read(buf) {
                Ok(n) => return Ok(n),
                Err(e) if e.kind() == io::ErrorKind::WouldBlock => {}
                Err(e) if e.kind() == io::ErrorKind::UnexpectedEof => return Ok(0),
                Err(e) => return Err(e),
            }
            match self.stream.conn.read_tls(&mut Nb(&self.stream.sock)) {
                Ok(0) => {
                    // TCP end of stream: let rustls decide (close_notify seen or not)
                    let _ = self.stream.conn.process_new_packets();
                    return match self.stream.conn.reader().read(buf) {
                        Ok(n) => Ok(n),
                        Err(_) => Ok(0),
                    };
                }
                Ok(_) => {
                    self.stream
                        .conn
                        .process_new_packets()
                        .map_err(|e| io::Error::new(io::ErrorKind::InvalidData, format!("tls: {e}")))?;
                    if self.stream.conn.wants_write() {
                        let _ = self.stream.conn.write_tls(&mut Nb(&self.stream.sock));
                    }
                }
                Err(e) if e.kind() == io::ErrorKind::Interrupted => {}
                Err(e) if is_wait(&e) => {
                    let left = deadline.saturating_duration_since(Instant::now());
                    if left.is_zero() || !wait_fd(self.stream.sock.as_raw_fd(), libc::POLLIN, left) {
                        return Err(timed_out("read wait elapsed"));
                    }
                }
                Err(e) => return Err(e),
            }
        }
    }
    fn write_some(&mut self, buf: &[u8], wait: Duration) -> io::Result<usize> {
        if buf.is_empty() {
            return Ok(0);
        }
        let n = self.stream.conn.writer().write(buf)?;
        let _ = self.flush_some(if n == 0 { wait } else { Duration::ZERO })?;
        if n == 0 {
            return Err(timed_out("tls send buffer full"));
        }
        Ok(n)
    }
    fn flush_some(&mut self, wait: Duration) -> io::Result<bool> {
        let deadline = Instant::now() + wait;
        while self.stream.conn.wants_write() {
            match self.stream.conn.write_tls(&mut Nb(&self.stream.sock)) {
                Ok(_) => {}
                Err(e) if e.kind() == io::ErrorKind::Interrupted => {}
                Err(e) if is_wait(&e) => {
                    let left = deadline.saturating_duration_since(Instant::now());
                    if left.is_zero() || !wait_fd(self.stream.sock.as_raw_fd(), libc::POLLOUT, left) {
                        return Ok(false);
                    }
                }
                Err(e) => return Err(e),
            }
        }
        Ok(true)
    }
    fn shutdown(&mut self) {
        let _ = socket2::SockRef::from(&self.stream.sock).set_linger(Some(Duration::ZERO));
        let _ = self.stream.sock.shutdown(std::net::Shutdown::Both);
    }
}

/// adaptor for any blocking `Read + Write` (waits are whatever the inner stream does)
pub struct Blocking<S: Read + Write>(pub S);

impl<S: Read + Write> Transport for Blocking<S> {
    fn read_some(&mut self, buf: &mut [u8], _wait: Duration) -> io::Result<usize> {
        match self.0.read(buf) {
            Err(e) if is_wait(&e) => Err(timed_out("read wait elapsed")),
            r => r,
        }
    }
    fn write_some(&mut self, buf: &[u8], _wait: Duration) -> io::Result<usize> {
        match self.0.write(buf) {
            Err(e) if is_wait(&e) => Err(timed_out("write wait elapsed")),
            r => r,
        }
    }
    fn flush_some(&mut self, _wait: Duration) -> io::Result<bool> {
        self.0.flush().map(|_| true)
    }
}

// ================================================================================================
// Connection
// ================================================================================================

#[derive(Clone, Copy, Debug, PartialEq, Eq)]
pub enum Role {
    Client,
    Server,
}

/// what to do with the receive windows when DATA arrives
#[derive(Clone, Copy, Debug, PartialEq, Eq)]
pub enum Replenish {
    /// give back every flow-controlled octet at once (stream unless ended, and connection)
    Immediately,
    /// never give anything back
    Never,
    /// the script calls `send_window_update` itself
    Manual,
}

#[derive(Clone, Debug, PartialEq, Eq)]
pub enum H2Error {
    Io(String),
    /// a bounded wait of the codec itself elapsed (write deadline, window wait)
    Timeout(String),
    /// the peer closed while we were sending
    Closed,
    Protocol(String),
}

impl std::fmt::Display for H2Error {
    fn fmt(&self, f: &mut std::fmt::Formatter<'_>) -> std::fmt::Result {
        write!(f, "{self:?}")
    }
}

#[derive(Clone, Debug, PartialEq, Eq)]
pub enum Event {
    Settings { ack: bool, values: Vec<(u16, u32)> },
    Headers { stream: u32, headers: HeaderList, end_stream: bool },
    /// `data` has padding stripped; `flow_len` is what counts against the windows
    Data { stream: u32, data: Vec<u8>, flow_len: usize, end_stream: bool },
    RstStream { stream: u32, code: u32 },
    GoAway { last: u32, code: u32, debug: Vec<u8> },
    WindowUpdate { stream: u32, inc: u32 },
    Ping { ack: bool, data: [u8; 8] },
    PushPromise { stream: u32, promised: u32, headers: HeaderList },
    Priority { stream: u32, dep: u32, exclusive: bool, weight: u8 },
    Unknown { frame: Frame },
    /// a frame that could not be interpreted (wrong fixed size, bad padding, HPACK error ...)
    Malformed { frame: FrameInfo, why: String },
    /// end of stream / reset (see `H2Conn::close_kind`)
    Closed,
}

#[derive(Clone, Debug, PartialEq, Eq)]
pub struct LedgerViolation {
    pub kind: &'static str,
    pub detail: String,
    /// index into `frames_in` of the offending frame
    pub frame_index: usize,
}

// ledger kinds
pub const LV_STREAM_WINDOW: &str = "stream_window_exceeded";
pub const LV_CONN_WINDOW: &str = "connection_window_exceeded";
pub const LV_FRAME_SIZE: &str = "frame_too_large";
/// the frame would have been legal under the value in force before the last SETTINGS ACK and comes
/// within the first 64 KiB after it: data framed under the old settings that the ACK overtook
pub const LV_FRAME_SIZE_AFTER_ACK: &str = "frame_too_large_right_after_ack";
pub const LV_STREAM_WINDOW_AFTER_ACK: &str = "stream_window_exceeded_right_after_ack";
pub const LV_CONCURRENT: &str = "concurrent_streams_exceeded";
pub const LV_STREAM_ID: &str = "illegal_stream_id";
pub const LV_CLOSED_STREAM: &str = "frame_on_closed_stream";
pub const LV_HPACK_SIZE: &str = "hpack_table_size_exceeded";
pub const LV_HPACK_NOT_REDUCED: &str = "hpack_table_size_not_reduced";
/// RFC 7541 4.2: several changes between two header blocks must signal the smallest size first
pub const LV_HPACK_MIN_SIGNAL: &str = "hpack_smallest_size_not_signalled";
pub const LV_HPACK_DECODE: &str = "hpack_decode_error";
pub const LV_CONTINUATION: &str = "continuation_sequence";
pub const LV_STREAM_STATE: &str = "stream_state_violation";
pub const LV_MALFORMED: &str = "malformed_frame";
pub const LV_PUSH: &str = "illegal_push_promise";
pub const LV_WINDOW_OVERFLOW: &str = "window_overflow";

#[derive(Clone, Debug, PartialEq, Eq)]
pub struct SettingsState {
    pub header_table_size: u32,
    pub enable_push: u32,
    /// u32::MAX = unlimited (never advertised)
    pub max_concurrent_streams: u32,
    pub initial_window_size: u32,
    pub max_frame_size: u32,
    pub max_header_list_size: u32,
    pub others: BTreeMap<u16, u32>,
}

impl Default for SettingsState {
    fn default() -> Self {
        SettingsState {
            header_table_size: DEFAULT_HEADER_TABLE_SIZE,
            enable_push: 1,
            max_concurrent_streams: u32::MAX,
            initial_window_size: DEFAULT_INITIAL_WINDOW,
            max_frame_size: DEFAULT_MAX_FRAME_SIZE,
            max_header_list_size: u32::MAX,
            others: BTreeMap::new(),
        }
    }
}

impl SettingsState {
    pub fn apply(&mut self, id: u16, v: u32) {
        match id {
            SET_HEADER_TABLE_SIZE => self.header_table_size = v,
            SET_ENABLE_PUSH => self.enable_push = v,
            SET_MAX_CONCURRENT_STREAMS => self.max_concurrent_streams = v,
            SET_INITIAL_WINDOW_SIZE => self.initial_window_size = v,
            SET_MAX_FRAME_SIZE => self.max_frame_size = v,
            SET_MAX_HEADER_LIST_SIZE => self.max_header_list_size = v,
            other => {
                self.others.insert(other, v);
            }
        }
    }
    pub fn get(&self, id: u16) -> Option<u32> {
        Some(match id {
            SET_HEADER_TABLE_SIZE => self.header_table_size,
            SET_ENABLE_PUSH => self.enable_push,
            SET_MAX_CONCURRENT_STREAMS => self.max_concurrent_streams,
            SET_INITIAL_WINDOW_SIZE => self.initial_window_size,
            SET_MAX_FRAME_SIZE => self.max_frame_size,
            SET_MAX_HEADER_LIST_SIZE => self.max_header_list_size,
            other => return self.others.get(&other).copied(),
        })
    }
}

/// Per-stream bookkeeping (both directions)
#[derive(Clone, Debug, Default)]
pub struct StreamState {
    pub id: u32,
    /// the remote's send window on this stream as granted by us (ledger side)
    pub recv_window: i64,
    /// our send window on this stream as granted by the remote
    pub send_window: i64,
    /// number of our SETTINGS frames already accounted for in `recv_window` when it was created
    pub epoch: usize,
    pub opened_by_remote: bool,
    pub remote_headers: bool,
    pub remote_final_headers: bool,
    pub remote_end: bool,
    pub remote_rst: Option<u32>,
    pub local_headers: bool,
    pub local_end: bool,
    pub local_rst: Option<u32>,
    /// flow-controlled octets received (padding included) / payload octets / DATA frames
    pub recv_flow: u64,
    pub recv_data: u64,
    pub recv_frames: u64,
    /// credit given to the remote through WINDOW_UPDATE frames on this stream
    pub granted_updates: u64,
    /// payload octets we sent
    pub sent_data: u64,
    /// times a DATA frame left the remote's window (stream or connection) at or below zero
    pub stalls: u64,
    /// flow-controlled octets received on this stream since the remote last acknowledged a SETTINGS
    pub flow_since_ack: u64,
    /// INITIAL_WINDOW_SIZE delta applied to this stream at that acknowledgement
    pub last_ack_delta: i64,
}

impl StreamState {
    /// closed from this peer's point of view (conservative for concurrency accounting)
    pub fn closed(&self) -> bool {
        (self.remote_end && self.local_end) || self.remote_rst.is_some() || self.local_rst.is_some()
    }
}

#[derive(Clone, Copy, Debug, PartialEq, Eq)]
pub struct TraceEntry {
    /// true = received from the remote
    pub inbound: bool,
    pub frame: FrameInfo,
    pub at_us: u64,
}

impl TraceEntry {
    pub fn describe(&self) -> String {
        format!("{}{}@{}us", if self.inbound { "<" } else { ">" }, self.frame.describe(), self.at_us)
    }
}

struct PartialBlock {
    stream: u32,
    block: Vec<u8>,
    end_stream: bool,
    /// Some(promised) for PUSH_PROMISE
    promised: Option<u32>,
    first_index: usize,
    frames: usize,
}

pub struct H2Conn<S: Transport> {
    pub io: S,
    pub role: Role,
    /// default wait of blocking helpers (`send_data` with `obey_windows`, `wait_for`)
    pub read_timeout: Duration,
    /// a single `send_*` gives up after this long without being able to write
    pub write_timeout: Duration,
    pub enc: HpackEncoder,
    pub dec: HpackDecoder,

    // ---- automatic behaviours ----
    pub auto_ack: bool,
    pub auto_pong: bool,
    pub replenish: Replenish,
    /// `send_data` respects the remote's windows (splits, waits for WINDOW_UPDATE)
    pub obey_windows: bool,
    /// force the size of HEADERS/CONTINUATION fragments (default: remote's max frame size)
    pub headers_split: Option<usize>,
    /// force the size of DATA frames made by `send_data` (default: remote's max frame size)
    pub data_split: Option<usize>,
    /// pacing of this peer's socket I/O
    pub io_prog: IoProgram,

    // ---- settings ----
    /// our settings as acknowledged by the remote
    pub local_settings: SettingsState,
    /// our SETTINGS frames not acknowledged yet, oldest first
    pub local_pending: VecDeque<Vec<(u16, u32)>>,
    /// what the remote advertised
    pub peer_settings: SettingsState,
    pub peer_settings_frames: usize,
    /// INITIAL_WINDOW_SIZE after our k-th SETTINGS frame (index 0 = protocol default)
    iws_history: Vec<u32>,
    pub settings_sent: usize,
    pub settings_acked: usize,

    // ---- ledger ----
    pub streams: BTreeMap<u32, StreamState>,
    /// the remote's connection send window as granted by us
    pub conn_recv_window: i64,
    /// our connection send window as granted by the remote
    pub conn_send_window: i64,
    pub conn_granted_updates: u64,
    pub conn_recv_flow: u64,
    pub conn_stalls: u64,
    pub highest_local_stream: u32,
    pub highest_remote_stream: u32,
    pub max_remote_open: usize,
    promised: BTreeSet<u32>,
    pub ledger_violations: Vec<LedgerViolation>,
    pub frames_in: Vec<FrameInfo>,
    pub trace: Vec<TraceEntry>,
    pub trace_cap: usize,
    pub max_frame_len_seen: u32,
    pub continuation_frames_in: u64,
    pub padded_frames_in: u64,
    pub data_frames_in: u64,
    pub goaway_in: Option<(u32, u32)>,
    hpack_reduce_to: Option<usize>,
    oversize_flagged: Option<usize>,
    /// MAX_FRAME_SIZE in force before the last acknowledged SETTINGS, octets received since that ACK
    max_frame_before_ack: u32,
    flow_since_ack: u64,
    /// "eof", "reset" or an error text once the connection ended
    pub close_kind: Option<String>,

    reader: FrameReader,
    partial: Option<PartialBlock>,
    pending: VecDeque<Event>,
    eof: bool,
    started: Instant,
    next_local: u32,
}

impl<S: Transport> H2Conn<S> {
    pub fn new(io: S, role: Role) -> H2Conn<S> {
        let mut dec = HpackDecoder::new();
        dec.strict = false; // the ledger records, the connection keeps decoding
        H2Conn {
            io,
            role,
            read_timeout: Duration::from_secs(10),
            write_timeout: Duration::from_secs(10),
            enc: HpackEncoder::new(),
            dec,
            auto_ack: false,
            auto_pong: true,
            replenish: Replenish::Manual,
            obey_windows: false,
            headers_split: None,
            data_split: None,
            io_prog: IoProgram::default(),
            local_settings: SettingsState::default(),
            local_pending: VecDeque::new(),
            peer_settings: SettingsState::default(),
            peer_settings_frames: 0,
            iws_history: vec![DEFAULT_INITIAL_WINDOW],
            settings_sent: 0,
            settings_acked: 0,
            streams: BTreeMap::new(),
            conn_recv_window: DEFAULT_INITIAL_WINDOW as i64,
            conn_send_window: DEFAULT_INITIAL_WINDOW as i64,
            conn_granted_updates: 0,
            conn_recv_flow: 0,
            conn_stalls: 0,
            highest_local_stream: 0,
            highest_remote_stream: 0,
            max_remote_open: 0,
            promised: BTreeSet::new(),
            ledger_violations: Vec::new(),
            frames_in: Vec::new(),
            trace: Vec::new(),
            trace_cap: 200_000,
            max_frame_len_seen: 0,
            continuation_frames_in: 0,
            padded_frames_in: 0,
            data_frames_in: 0,
            goaway_in: None,
            hpack_reduce_to: None,
            oversize_flagged: None,
            max_frame_before_ack: DEFAULT_MAX_FRAME_SIZE,
            flow_since_ack: 0,
            close_kind: None,
            reader: FrameReader::new(),
            partial: None,
            pending: VecDeque::new(),
            eof: false,
            started: Instant::now(),
            next_local: if role == Role::Client { 1 } else { 2 },
        }
    }

    /// next unused stream id of this side (odd for clients)
    pub fn next_stream_id(&mut self) -> u32 {
        let id = self.next_local;
        self.next_local += 2;
        id
    }

    pub fn is_closed(&self) -> bool {
        self.eof
    }

    /// bytes received that do not form a complete frame (yet)
    pub fn leftover(&self) -> &[u8] {
        self.reader.leftover()
    }

    fn now_us(&self) -> u64 {
        self.started.elapsed().as_micros() as u64
    }

    fn trace_push(&mut self, inbound: bool, frame: FrameInfo) {
        if self.trace.len() < self.trace_cap {
            let at_us = self.now_us();
            self.trace.push(TraceEntry { inbound, frame, at_us });
        }
    }

    /// the last `n` trace entries, human readable (for witnesses)
    pub fn trace_tail(&self, n: usize) -> Vec<String> {
        let from = self.trace.len().saturating_sub(n);
        self.trace[from..].iter().map(|t| t.describe()).collect()
    }

    fn violate(&mut self, kind: &'static str, detail: String, frame_index: usize) {
        if self.ledger_violations.len() < 1000 {
            self.ledger_violations.push(LedgerViolation { kind, detail, frame_index });
        }
    }

    // ---- raw I/O -------------------------------------------------------------------------------

    /// read whatever is available right now into the frame reader (no frame is processed)
    fn pump_in(&mut self, wait: Duration) -> Result<usize, H2Error> {
        if self.eof {
            return Ok(0);
        }
        let mut buf = [0u8; 65536];
        let chunk = if self.io_prog.read_chunk == 0 { buf.len() } else { self.io_prog.read_chunk.min(buf.len()) };
        match self.io.read_some(&mut buf[..chunk], wait) {
            Ok(0) => {
                self.eof = true;
                self.close_kind.get_or_insert_with(|| "eof".to_owned());
                Ok(0)
            }
            Ok(n) => {
                self.reader.feed(&buf[..n]);
                if self.io_prog.read_pause_us > 0 {
                    std::thread::sleep(Duration::from_micros(self.io_prog.read_pause_us));
                }
                Ok(n)
            }
            Err(e) if is_wait(&e) => Ok(0),
            Err(e) => {
                self.eof = true;
                let kind = match e.kind() {
                    io::ErrorKind::ConnectionReset | io::ErrorKind::BrokenPipe | io::ErrorKind::ConnectionAborted => "reset".to_owned(),
                    _ => format!("error: {e}"),
                };
                self.close_kind.get_or_insert(kind);
                Ok(0)
            }
        }
    }

    /// write all bytes, reading (not processing) inbound bytes whenever the write side is stuck so
    /// that two bulk directions cannot deadlock
    fn write_all(&mut self, bytes: &[u8]) -> Result<(), H2Error> {
        let deadline = Instant::now() + self.write_timeout;
        let seg = if self.io_prog.write_seg == 0 { usize::MAX } else { self.io_prog.write_seg };
        let mut off = 0;
        loop {
            let progressed = if off < bytes.len() {
                let end = off.saturating_add(seg).min(bytes.len());
                match self.io.write_some(&bytes[off..end], Duration::from_millis(2)) {
                    Ok(n) => {
                        off += n;
                        if n > 0 && self.io_prog.write_pause_us > 0 && off < bytes.len() {
                            let _ = self.io.flush_some(Duration::from_millis(2));
                            std::thread::sleep(Duration::from_micros(self.io_prog.write_pause_us));
                        }
                        n > 0
                    }
                    Err(e) if is_wait(&e) => false,
                    Err(e) => {
                        return Err(match e.kind() {
                            io::ErrorKind::ConnectionReset | io::ErrorKind::BrokenPipe => H2Error::Closed,
                            _ => H2Error::Io(format!("write: {e}")),
                        });
                    }
                }
            } else {
                match self.io.flush_some(Duration::from_millis(2)) {
                    Ok(true) => return Ok(()),
                    Ok(false) => false,
                    Err(e) => return Err(H2Error::Io(format!("flush: {e}"))),
                }
            };
            if !progressed {
                self.pump_in(Duration::ZERO)?;
                if Instant::now() > deadline {
                    return Err(H2Error::Timeout(format!("write stuck after {off}/{} bytes", bytes.len())));
                }
            }
        }
    }

    /// put arbitrary bytes on the wire (not tracked by the ledger)
    pub fn send_raw(&mut self, bytes: &[u8]) -> Result<(), H2Error> {
        self.write_all(bytes)
    }

    pub fn send_out(&mut self, o: &Out) -> Result<(), H2Error> {
        match o {
            Out::Frame(f) => self.send_frame(f),
            Out::Raw(b) => self.send_raw(b),
        }
    }

    /// send any frame; the ledger learns from it what we granted / closed / advertised
    pub fn send_frame(&mut self, f: &Frame) -> Result<(), H2Error> {
        self.note_sent(f);
        self.trace_push(false, f.info());
        self.write_all(&encode_frame(f))
    }

    /// several frames in one write (one TCP segment / TLS record when small)
    pub fn send_frames(&mut self, frames: &[Frame]) -> Result<(), H2Error> {
        let mut bytes = Vec::new();
        for f in frames {
            self.note_sent(f);
            self.trace_push(false, f.info());
            bytes.extend(encode_frame(f));
        }
        self.write_all(&bytes)
    }

    fn iws_now(&self) -> u32 {
        *self.iws_history.last().unwrap_or(&DEFAULT_INITIAL_WINDOW)
    }

    fn new_stream(&mut self, id: u32, by_remote: bool) -> &mut StreamState {
        // a stream we open is processed by the remote after every SETTINGS we sent before it; a
        // stream the remote opens before acknowledging SETTINGS k was created under k-1
        let epoch = if by_remote { self.settings_acked } else { self.settings_sent };
        let recv_window = self.iws_history.get(epoch).copied().unwrap_or(DEFAULT_INITIAL_WINDOW) as i64;
        let send_window = self.peer_settings.initial_window_size as i64;
        self.streams.entry(id).or_insert_with(|| StreamState {
            id,
            recv_window,
            send_window,
            epoch,
            opened_by_remote: by_remote,
            ..Default::default()
        })
    }

    fn is_local_id(&self, id: u32) -> bool {
        (id % 2 == 1) == (self.role == Role::Client)
    }

    fn note_sent(&mut self, f: &Frame) {
        let sid = f.stream & 0x7fff_ffff;
        match f.typ {
            FT_HEADERS => {
                if sid != 0 {
                    if !self.streams.contains_key(&sid) && self.is_local_id(sid) {
                        self.highest_local_stream = self.highest_local_stream.max(sid);
                        if sid >= self.next_local {
                            self.next_local = sid + 2;
                        }
                        self.new_stream(sid, false);
                    }
                    if let Some(s) = self.streams.get_mut(&sid) {
                        s.local_headers = true;
                        if f.flags & FL_END_STREAM != 0 {
                            s.local_end = true;
                        }
                    }
                }
            }
            FT_DATA => {
                let flow = f.payload.len() as i64;
                self.conn_send_window -= flow;
                if let Some(s) = self.streams.get_mut(&sid) {
                    s.send_window -= flow;
                    if f.flags & FL_END_STREAM != 0 {
                        s.local_end = true;
                    }
                }
            }
            FT_RST_STREAM => {
                let code = f.payload.get(..4).map(|b| u32::from_be_bytes([b[0], b[1], b[2], b[3]])).unwrap_or(0);
                if let Some(s) = self.streams.get_mut(&sid) {
                    s.local_rst.get_or_insert(code);
                }
            }
            FT_WINDOW_UPDATE => {
                if let Some(b) = f.payload.get(..4) {
                    let inc = (u32::from_be_bytes([b[0], b[1], b[2], b[3]]) & 0x7fff_ffff) as i64;
                    if sid == 0 {
                        self.conn_recv_window += inc;
                        self.conn_granted_updates += inc as u64;
                    } else if let Some(s) = self.streams.get_mut(&sid) {
                        s.recv_window += inc;
                        s.granted_updates += inc as u64;
                    }
                }
            }
            FT_SETTINGS if f.flags & FL_ACK == 0 && sid == 0 => {
                let values = parse_settings(&f.payload);
                let mut iws = self.iws_now();
                for (id, v) in &values {
                    if *id == SET_INITIAL_WINDOW_SIZE {
                        iws = *v;
                    }
                }
                self.iws_history.push(iws);
                self.settings_sent += 1;
                self.local_pending.push_back(values);
            }
            _ => {}
        }
    }

    // ---- handshakes ----------------------------------------------------------------------------

    /// client role: connection preface + our SETTINGS (in one write)
    pub fn handshake_client(&mut self, settings: &[(u16, u32)]) -> Result<(), H2Error> {
        let f = Frame::settings(settings);
        self.note_sent(&f);
        self.trace_push(false, f.info());
        let mut bytes = PREFACE.to_vec();
        bytes.extend(encode_frame(&f));
        self.write_all(&bytes)
    }

    /// server role (prior-knowledge h2c backend): expect the client preface, then send our SETTINGS
    pub fn handshake_server(&mut self, settings: &[(u16, u32)]) -> Result<(), H2Error> {
        let deadline = Instant::now() + self.read_timeout;
        while self.reader.leftover().len() < PREFACE.len() {
            if self.eof {
                return Err(H2Error::Closed);
            }
            let left = deadline.saturating_duration_since(Instant::now());
            if left.is_zero() {
                return Err(H2Error::Timeout("client preface".to_owned()));
            }
            self.pump_in(left.min(Duration::from_millis(100)))?;
        }
        if &self.reader.leftover()[..PREFACE.len()] != PREFACE {
            return Err(H2Error::Protocol(format!(
                "bad client preface: {}",
                hex::encode(&self.reader.leftover()[..PREFACE.len()])
            )));
        }
        self.reader.skip(PREFACE.len());
        self.send_settings(settings)
    }

    // ---- senders -------------------------------------------------------------------------------

    pub fn send_settings(&mut self, values: &[(u16, u32)]) -> Result<(), H2Error> {
        self.send_frame(&Frame::settings(values))
    }
    pub fn send_settings_ack(&mut self) -> Result<(), H2Error> {
        self.send_frame(&Frame::settings_ack())
    }
    pub fn send_window_update(&mut self, stream: u32, inc: u32) -> Result<(), H2Error> {
        self.send_frame(&Frame::window_update(stream, inc))
    }
    pub fn send_rst(&mut self, stream: u32, code: u32) -> Result<(), H2Error> {
        self.send_frame(&Frame::rst_stream(stream, code))
    }
    pub fn send_goaway(&mut self, last: u32, code: u32, debug: &[u8]) -> Result<(), H2Error> {
        self.send_frame(&Frame::goaway(last, code, debug))
    }
    pub fn send_ping(&mut self, ack: bool, data: [u8; 8]) -> Result<(), H2Error> {
        self.send_frame(&Frame::ping(ack, data))
    }

    fn peer_frame_size(&self) -> usize {
        (self.peer_settings.max_frame_size as usize).clamp(1, 0x00ff_ffff)
    }

    /// HEADERS (+ CONTINUATION when the block is larger than the remote's max frame size, or than
    /// `headers_split`)
    pub fn send_headers(&mut self, stream: u32, headers: &[(Vec<u8>, Vec<u8>)], end_stream: bool) -> Result<(), H2Error> {
        let block = self.enc.encode(headers);
        self.send_header_block(stream, &block, end_stream)
    }

    pub fn send_header_block(&mut self, stream: u32, block: &[u8], end_stream: bool) -> Result<(), H2Error> {
        let max = self.headers_split.unwrap_or(self.peer_frame_size()).max(1);
        let mut frames = Vec::new();
        let mut chunks = block.chunks(max).peekable();
        let first = chunks.next().unwrap_or(&[]);
        frames.push(Frame::headers(stream, first, end_stream, chunks.peek().is_none()));
        while let Some(c) = chunks.next() {
            frames.push(Frame::continuation(stream, c, chunks.peek().is_none()));
        }
        self.send_frames(&frames)
    }

    /// how many payload octets of a DATA frame the remote's windows allow right now on `stream`
    pub fn send_credit(&self, stream: u32) -> i64 {
        let s = self.streams.get(&stream).map(|s| s.send_window).unwrap_or(self.peer_settings.initial_window_size as i64);
        s.min(self.conn_send_window)
    }

    /// Send as much of `bytes` as the remote's windows allow *now* (never waits); returns the
    /// number of payload octets sent. END_STREAM is set on the frame that carries the last octet
    /// (an empty `bytes` with `end_stream` sends an empty END_STREAM DATA frame).
    pub fn send_data_avail(&mut self, stream: u32, bytes: &[u8], end_stream: bool, padding: Option<u8>) -> Result<usize, H2Error> {
        let overhead = padding.map(|p| p as usize + 1).unwrap_or(0);
        let max_frame = self.data_split.unwrap_or(self.peer_frame_size()).max(overhead + 1);
        let mut off = 0;
        loop {
            let left = bytes.len() - off;
            let credit = self.send_credit(stream);
            if left == 0 {
                if end_stream && bytes.is_empty() && (overhead == 0 || credit >= overhead as i64) {
                    self.send_frame(&Frame::data(stream, &[], true, padding))?;
                }
                return Ok(off);
            }
            let room = credit - overhead as i64;
            if room <= 0 {
                return Ok(off);
            }
            let n = left.min(max_frame - overhead).min(room as usize);
            let last = off + n == bytes.len();
            self.send_frame(&Frame::data(stream, &bytes[off..off + n], last && end_stream, padding))?;
            if let Some(s) = self.streams.get_mut(&stream) {
                s.sent_data += n as u64;
            }
            off += n;
            if last {
                return Ok(off);
            }
        }
    }

    /// DATA frames for `bytes`, split to the remote's max frame size. Without `obey_windows` the
    /// remote's flow control is ignored (hostile peers need that); with it, the call waits for
    /// WINDOW_UPDATE / SETTINGS (events seen meanwhile are queued for `poll`) up to `read_timeout`
    /// without progress.
    pub fn send_data(&mut self, stream: u32, bytes: &[u8], end_stream: bool, padding: Option<u8>) -> Result<(), H2Error> {
        if !self.obey_windows {
            let overhead = padding.map(|p| p as usize + 1).unwrap_or(0);
            let max = self.data_split.unwrap_or(self.peer_frame_size()).max(overhead + 1) - overhead;
            if bytes.is_empty() {
                return self.send_frame(&Frame::data(stream, &[], end_stream, padding));
            }
            let n_chunks = bytes.len().div_ceil(max);
            for (i, c) in bytes.chunks(max).enumerate() {
                self.send_frame(&Frame::data(stream, c, end_stream && i + 1 == n_chunks, padding))?;
                if let Some(s) = self.streams.get_mut(&stream) {
                    s.sent_data += c.len() as u64;
                }
            }
            return Ok(());
        }
        let mut off = 0;
        let mut last_progress = Instant::now();
        loop {
            let n = self.send_data_avail(stream, &bytes[off..], end_stream, padding)?;
            off += n;
            if n > 0 {
                last_progress = Instant::now();
            }
            let done = if bytes.is_empty() {
                self.streams.get(&stream).map(|s| s.local_end).unwrap_or(true) || !end_stream
            } else {
                off == bytes.len()
            };
            if done {
                return Ok(());
            }
            if let Some(s) = self.streams.get(&stream) {
                if let Some(code) = s.remote_rst {
                    return Err(H2Error::Protocol(format!("stream {stream} reset by remote (code {code}) during send_data")));
                }
            }
            if self.eof && self.reader.leftover().len() < 9 {
                return Err(H2Error::Closed);
            }
            if last_progress.elapsed() > self.read_timeout {
                return Err(H2Error::Timeout(format!(
                    "no send window on stream {stream} for {:?} ({off}/{} sent, stream window {}, connection window {})",
                    self.read_timeout,
                    bytes.len(),
                    self.streams.get(&stream).map(|s| s.send_window).unwrap_or(0),
                    self.conn_send_window
                )));
            }
            self.process_incoming(Duration::from_millis(20))?;
        }
    }
}

pub fn parse_settings(payload: &[u8]) -> Vec<(u16, u32)> {
    payload
        .chunks_exact(6)
        .map(|c| (u16::from_be_bytes([c[0], c[1]]), u32::from_be_bytes([c[2], c[3], c[4], c[5]])))
        .collect()
}

impl<S: Transport> H2Conn<S> {
    // ---- receive side --------------------------------------------------------------------------

    /// read for at most `wait` and process every complete frame; events go to the queue
    pub fn process_incoming(&mut self, wait: Duration) -> Result<(), H2Error> {
        self.drain_frames()?;
        if !self.eof {
            let _ = self.io.flush_some(Duration::ZERO);
            self.pump_in(wait)?;
            self.drain_frames()?;
        }
        Ok(())
    }

    fn drain_frames(&mut self) -> Result<(), H2Error> {
        while let Some(f) = self.reader.pop() {
            if let Some(ev) = self.on_frame(f)? {
                self.pending.push_back(ev);
            }
        }
        // a frame whose header already announces more than we allow is judged at once (the rest of
        // it may never come: after a desynchronisation the "length" is garbage)
        if let Some((len, typ, flags, stream)) = self.reader.peek_header() {
            let idx = self.frames_in.len();
            let max_frame = self.lenient_limit(SET_MAX_FRAME_SIZE, DEFAULT_MAX_FRAME_SIZE);
            if len > max_frame && self.oversize_flagged != Some(idx) {
                self.oversize_flagged = Some(idx);
                let info = FrameInfo { typ, flags, stream: stream & 0x7fff_ffff, len };
                let overtaken = len <= self.max_frame_before_ack && self.flow_since_ack < 65_536;
                self.violate(
                    if overtaken { LV_FRAME_SIZE_AFTER_ACK } else { LV_FRAME_SIZE },
                    format!("incoming frame header {} announces more than our MAX_FRAME_SIZE {}", info.describe(), max_frame),
                    idx,
                );
            }
        }
        Ok(())
    }

    /// header of the frame currently being received, if at least 9 octets of it arrived
    pub fn pending_header(&self) -> Option<FrameInfo> {
        self.reader.peek_header().map(|(len, typ, flags, stream)| FrameInfo { typ, flags, stream: stream & 0x7fff_ffff, len })
    }

    /// Next decoded event, waiting at most `timeout`. Ok(None) = nothing within the timeout.
    /// `Event::Closed` is returned (repeatedly) once the remote closed and everything was consumed.
    pub fn poll(&mut self, timeout: Duration) -> Result<Option<Event>, H2Error> {
        let deadline = Instant::now() + timeout;
        loop {
            if let Some(ev) = self.pending.pop_front() {
                return Ok(Some(ev));
            }
            self.drain_frames()?;
            if let Some(ev) = self.pending.pop_front() {
                return Ok(Some(ev));
            }
            if self.eof {
                return Ok(Some(Event::Closed));
            }
            let left = deadline.saturating_duration_since(Instant::now());
            let _ = self.io.flush_some(Duration::ZERO);
            let n = self.pump_in(left)?;
            if n == 0 && !self.eof && Instant::now() >= deadline {
                return Ok(None);
            }
        }
    }

    /// poll until `pred` accepts an event (returned) or `timeout` elapses (None); other events are dropped
    pub fn wait_for(&mut self, timeout: Duration, mut pred: impl FnMut(&Event) -> bool) -> Result<Option<Event>, H2Error> {
        let deadline = Instant::now() + timeout;
        loop {
            let left = deadline.saturating_duration_since(Instant::now());
            match self.poll(left)? {
                Some(ev) if pred(&ev) => return Ok(Some(ev)),
                Some(Event::Closed) => return Ok(None),
                Some(_) => {}
                None => return Ok(None),
            }
            if Instant::now() >= deadline {
                return Ok(None);
            }
        }
    }

    /// the largest value sozu may still assume for one of our settings (acknowledged value, or any
    /// value still in flight)
    fn lenient_limit(&self, id: u16, default: u32) -> u32 {
        let mut v = self.local_settings.get(id).unwrap_or(default);
        for frame in &self.local_pending {
            for (i, val) in frame {
                if *i == id {
                    v = v.max(*val);
                }
            }
        }
        v
    }

    /// extra stream credit sozu may legitimately use because an un-acknowledged SETTINGS raises
    /// INITIAL_WINDOW_SIZE (it has to apply it before acknowledging)
    fn lenient_extra(&self, epoch: usize) -> i64 {
        let base = epoch.max(self.settings_acked).min(self.iws_history.len() - 1);
        let b = self.iws_history[base] as i64;
        self.iws_history[base..].iter().map(|v| *v as i64 - b).max().unwrap_or(0).max(0)
    }

    pub fn remote_open_streams(&self) -> usize {
        self.streams.values().filter(|s| s.opened_by_remote && !s.closed()).count()
    }

    fn stream_is_idle(&self, sid: u32) -> bool {
        if self.streams.contains_key(&sid) || self.promised.contains(&sid) {
            return false;
        }
        if self.is_local_id(sid) { sid > self.highest_local_stream } else { sid > self.highest_remote_stream }
    }

    fn on_settings_ack(&mut self, idx: usize) {
        let Some(values) = self.local_pending.pop_front() else {
            self.violate(LV_MALFORMED, "SETTINGS ACK without an outstanding SETTINGS".to_owned(), idx);
            return;
        };
        self.settings_acked += 1;
        let k = self.settings_acked;
        let delta = self.iws_history.get(k).copied().unwrap_or(DEFAULT_INITIAL_WINDOW) as i64
            - self.iws_history.get(k - 1).copied().unwrap_or(DEFAULT_INITIAL_WINDOW) as i64;
        self.max_frame_before_ack = self.local_settings.max_frame_size;
        self.flow_since_ack = 0;
        for s in self.streams.values_mut() {
            s.flow_since_ack = 0;
            s.last_ack_delta = 0;
            if s.epoch < k {
                s.recv_window += delta;
                s.last_ack_delta = delta;
            }
        }
        for (id, v) in values {
            self.local_settings.apply(id, v);
            if id == SET_HEADER_TABLE_SIZE && (v as usize) < self.dec.current_table_size {
                let t = self.hpack_reduce_to.map_or(v as usize, |m| m.min(v as usize));
                self.hpack_reduce_to = Some(t);
            }
        }
        self.dec.set_limit(self.lenient_limit(SET_HEADER_TABLE_SIZE, DEFAULT_HEADER_TABLE_SIZE) as usize);
    }

    fn on_peer_settings(&mut self, values: &[(u16, u32)]) {
        self.peer_settings_frames += 1;
        for (id, v) in values {
            match *id {
                SET_INITIAL_WINDOW_SIZE => {
                    let delta = *v as i64 - self.peer_settings.initial_window_size as i64;
                    for s in self.streams.values_mut() {
                        s.send_window += delta;
                    }
                }
                SET_HEADER_TABLE_SIZE => {
                    let n = (*v as usize).min(DEFAULT_HEADER_TABLE_SIZE as usize);
                    if n != self.enc.table_size {
                        self.enc.set_table_size(n);
                    }
                }
                _ => {}
            }
            self.peer_settings.apply(*id, *v);
        }
    }

    fn on_frame(&mut self, f: Frame) -> Result<Option<Event>, H2Error> {
        let idx = self.frames_in.len();
        let info = f.info();
        self.frames_in.push(info);
        self.trace_push(true, info);
        self.max_frame_len_seen = self.max_frame_len_seen.max(info.len);
        let sid = f.stream;

        let max_frame = self.lenient_limit(SET_MAX_FRAME_SIZE, DEFAULT_MAX_FRAME_SIZE);
        if info.len > max_frame && self.oversize_flagged != Some(idx) {
            let overtaken = info.len <= self.max_frame_before_ack && self.flow_since_ack < 65_536;
            self.violate(if overtaken { LV_FRAME_SIZE_AFTER_ACK } else { LV_FRAME_SIZE }, format!("{} is longer than our MAX_FRAME_SIZE {}", info.describe(), max_frame), idx);
        }

        // CONTINUATION sequencing
        if let Some(p) = &self.partial {
            if f.typ != FT_CONTINUATION || sid != p.stream {
                let d = format!("{} while a header block of stream {} is open", info.describe(), p.stream);
                self.violate(LV_CONTINUATION, d, idx);
                self.partial = None;
            }
        } else if f.typ == FT_CONTINUATION {
            self.violate(LV_CONTINUATION, format!("{} without a preceding HEADERS/PUSH_PROMISE", info.describe()), idx);
            return Ok(Some(Event::Malformed { frame: info, why: "unexpected CONTINUATION".to_owned() }));
        }

        // stream-0 / non-zero discipline
        let needs_stream = matches!(f.typ, FT_DATA | FT_HEADERS | FT_PRIORITY | FT_RST_STREAM | FT_PUSH_PROMISE | FT_CONTINUATION);
        let needs_zero = matches!(f.typ, FT_SETTINGS | FT_PING | FT_GOAWAY);
        if (needs_stream && sid == 0) || (needs_zero && sid != 0) {
            self.violate(LV_STREAM_ID, format!("{} on stream {}", frame_type_name(f.typ), sid), idx);
            return Ok(Some(Event::Malformed { frame: info, why: "wrong stream id class".to_owned() }));
        }

        match f.typ {
            FT_DATA => self.on_data(f, idx),
            FT_HEADERS => {
                let mut p = &f.payload[..];
                let mut pad = 0usize;
                if f.flags & FL_PADDED != 0 {
                    self.padded_frames_in += 1;
                    match p.split_first() {
                        Some((n, rest)) => {
                            pad = *n as usize;
                            p = rest;
                        }
                        None => return Ok(Some(self.malformed(info, idx, "PADDED HEADERS without pad length"))),
                    }
                }
                if f.flags & FL_PRIORITY != 0 {
                    if p.len() < 5 {
                        return Ok(Some(self.malformed(info, idx, "HEADERS with PRIORITY flag shorter than 5")));
                    }
                    p = &p[5..];
                }
                if pad > p.len() {
                    return Ok(Some(self.malformed(info, idx, "HEADERS padding longer than the payload")));
                }
                let block = p[..p.len() - pad].to_vec();
                let end_stream = f.flags & FL_END_STREAM != 0;
                if f.flags & FL_END_HEADERS != 0 {
                    self.finish_block(sid, block, end_stream, None, idx)
                } else {
                    self.partial = Some(PartialBlock { stream: sid, block, end_stream, promised: None, first_index: idx, frames: 1 });
                    Ok(None)
                }
            }
            FT_CONTINUATION => {
                self.continuation_frames_in += 1;
                let Some(mut p) = self.partial.take() else { return Ok(None) };
                p.block.extend_from_slice(&f.payload);
                p.frames += 1;
                if f.flags & FL_END_HEADERS != 0 {
                    self.finish_block(p.stream, p.block, p.end_stream, p.promised, p.first_index)
                } else {
                    self.partial = Some(p);
                    Ok(None)
                }
            }
            FT_PUSH_PROMISE => {
                let mut p = &f.payload[..];
                let mut pad = 0usize;
                if f.flags & FL_PADDED != 0 {
                    match p.split_first() {
                        Some((n, rest)) => {
                            pad = *n as usize;
                            p = rest;
                        }
                        None => return Ok(Some(self.malformed(info, idx, "PADDED PUSH_PROMISE without pad length"))),
                    }
                }
                if p.len() < 4 || pad > p.len() - 4 {
                    return Ok(Some(self.malformed(info, idx, "PUSH_PROMISE too short")));
                }
                let promised = u32::from_be_bytes([p[0], p[1], p[2], p[3]]) & 0x7fff_ffff;
                let block = p[4..p.len() - pad].to_vec();
                if self.role == Role::Server || self.lenient_limit(SET_ENABLE_PUSH, 1) == 0 {
                    self.violate(LV_PUSH, format!("PUSH_PROMISE (promised stream {promised}) although push is not allowed"), idx);
                }
                if f.flags & FL_END_HEADERS != 0 {
                    self.finish_block(sid, block, false, Some(promised), idx)
                } else {
                    self.partial = Some(PartialBlock { stream: sid, block, end_stream: false, promised: Some(promised), first_index: idx, frames: 1 });
                    Ok(None)
                }
            }
            FT_PRIORITY => {
                if f.payload.len() != 5 {
                    return Ok(Some(self.malformed(info, idx, "PRIORITY length != 5")));
                }
                let d = u32::from_be_bytes([f.payload[0], f.payload[1], f.payload[2], f.payload[3]]);
                Ok(Some(Event::Priority { stream: sid, dep: d & 0x7fff_ffff, exclusive: d >> 31 == 1, weight: f.payload[4] }))
            }
            FT_RST_STREAM => {
                if f.payload.len() != 4 {
                    return Ok(Some(self.malformed(info, idx, "RST_STREAM length != 4")));
                }
                let code = u32::from_be_bytes([f.payload[0], f.payload[1], f.payload[2], f.payload[3]]);
                if self.stream_is_idle(sid) {
                    self.violate(LV_STREAM_ID, format!("RST_STREAM on idle stream {sid}"), idx);
                } else if let Some(s) = self.streams.get_mut(&sid) {
                    if s.remote_rst.is_some() {
                        self.violate(LV_CLOSED_STREAM, format!("second RST_STREAM on stream {sid}"), idx);
                    } else {
                        s.remote_rst = Some(code);
                    }
                }
                Ok(Some(Event::RstStream { stream: sid, code }))
            }
            FT_SETTINGS => {
                if f.flags & FL_ACK != 0 {
                    if !f.payload.is_empty() {
                        return Ok(Some(self.malformed(info, idx, "SETTINGS ACK with a payload")));
                    }
                    self.on_settings_ack(idx);
                    return Ok(Some(Event::Settings { ack: true, values: Vec::new() }));
                }
                if f.payload.len() % 6 != 0 {
                    return Ok(Some(self.malformed(info, idx, "SETTINGS length not a multiple of 6")));
                }
                let values = parse_settings(&f.payload);
                self.on_peer_settings(&values);
                if self.auto_ack {
                    self.send_settings_ack()?;
                }
                Ok(Some(Event::Settings { ack: false, values }))
            }
            FT_PING => {
                if f.payload.len() != 8 {
                    return Ok(Some(self.malformed(info, idx, "PING length != 8")));
                }
                let mut data = [0u8; 8];
                data.copy_from_slice(&f.payload);
                let ack = f.flags & FL_ACK != 0;
                if !ack && self.auto_pong {
                    self.send_ping(true, data)?;
                }
                Ok(Some(Event::Ping { ack, data }))
            }
            FT_GOAWAY => {
                if f.payload.len() < 8 {
                    return Ok(Some(self.malformed(info, idx, "GOAWAY shorter than 8")));
                }
                let last = u32::from_be_bytes([f.payload[0], f.payload[1], f.payload[2], f.payload[3]]) & 0x7fff_ffff;
                let code = u32::from_be_bytes([f.payload[4], f.payload[5], f.payload[6], f.payload[7]]);
                self.goaway_in.get_or_insert((last, code));
                Ok(Some(Event::GoAway { last, code, debug: f.payload[8..].to_vec() }))
            }
            FT_WINDOW_UPDATE => {
                if f.payload.len() != 4 {
                    return Ok(Some(self.malformed(info, idx, "WINDOW_UPDATE length != 4")));
                }
                let inc = u32::from_be_bytes([f.payload[0], f.payload[1], f.payload[2], f.payload[3]]) & 0x7fff_ffff;
                if inc == 0 {
                    self.violate(LV_MALFORMED, format!("WINDOW_UPDATE with a zero increment on stream {sid}"), idx);
                }
                if sid == 0 {
                    self.conn_send_window += inc as i64;
                    if self.conn_send_window > MAX_WINDOW {
                        self.violate(LV_WINDOW_OVERFLOW, format!("connection send window raised to {}", self.conn_send_window), idx);
                    }
                } else if self.stream_is_idle(sid) {
                    self.violate(LV_STREAM_ID, format!("WINDOW_UPDATE on idle stream {sid}"), idx);
                } else if let Some(s) = self.streams.get_mut(&sid) {
                    if s.remote_rst.is_some() {
                        self.violate(LV_CLOSED_STREAM, format!("WINDOW_UPDATE on stream {sid} after the sender reset it"), idx);
                    } else {
                        s.send_window += inc as i64;
                        if s.send_window > MAX_WINDOW {
                            let w = s.send_window;
                            self.violate(LV_WINDOW_OVERFLOW, format!("stream {sid} send window raised to {w}"), idx);
                        }
                    }
                }
                Ok(Some(Event::WindowUpdate { stream: sid, inc }))
            }
            _ => Ok(Some(Event::Unknown { frame: f })),
        }
    }

    fn malformed(&mut self, info: FrameInfo, idx: usize, why: &str) -> Event {
        self.violate(LV_MALFORMED, format!("{}: {}", info.describe(), why), idx);
        Event::Malformed { frame: info, why: why.to_owned() }
    }

    fn on_data(&mut self, f: Frame, idx: usize) -> Result<Option<Event>, H2Error> {
        let info = f.info();
        let sid = f.stream;
        self.data_frames_in += 1;
        let flow_len = f.payload.len();
        let end_stream = f.flags & FL_END_STREAM != 0;
        let mut data = &f.payload[..];
        let mut bad_padding = false;
        if f.flags & FL_PADDED != 0 {
            self.padded_frames_in += 1;
            match data.split_first() {
                Some((n, rest)) if (*n as usize) <= rest.len() => data = &rest[..rest.len() - *n as usize],
                _ => bad_padding = true,
            }
        }

        // connection window (always accounted, whatever the stream's fate)
        let flow = flow_len as i64;
        if flow > 0 && flow > self.conn_recv_window {
            let d = format!(
                "DATA of {flow} flow-controlled octets on stream {sid} with a connection window of {}",
                self.conn_recv_window
            );
            self.violate(LV_CONN_WINDOW, d, idx);
        }
        self.conn_recv_window -= flow;
        self.conn_recv_flow += flow as u64;
        self.flow_since_ack += flow as u64;
        let conn_after = self.conn_recv_window;

        let mut stream_live = false;
        if self.stream_is_idle(sid) {
            self.violate(LV_STREAM_ID, format!("DATA on idle stream {sid}"), idx);
        } else if !self.streams.contains_key(&sid) {
            self.violate(LV_CLOSED_STREAM, format!("DATA on stream {sid} which was never opened with HEADERS"), idx);
        } else {
            let extra = self.lenient_extra(self.streams[&sid].epoch);
            let s = self.streams.get_mut(&sid).expect("checked");
            let mut v: Vec<(&'static str, String)> = Vec::new();
            if let Some(code) = s.remote_rst {
                v.push((LV_CLOSED_STREAM, format!("DATA on stream {sid} after its sender reset it (code {code})")));
            } else if s.remote_end {
                v.push((LV_CLOSED_STREAM, format!("DATA on stream {sid} after its sender's END_STREAM")));
            } else if !s.remote_headers {
                v.push((LV_STREAM_STATE, format!("DATA on stream {sid} before any HEADERS from the sender")));
            }
            if flow > 0 && flow > s.recv_window + extra {
                // legal before the INITIAL_WINDOW_SIZE reduction acknowledged last, and close behind it
                let overtaken = s.last_ack_delta < 0 && flow <= s.recv_window + extra - s.last_ack_delta && s.flow_since_ack + flow as u64 <= 65_536;
                v.push((
                    if overtaken { LV_STREAM_WINDOW_AFTER_ACK } else { LV_STREAM_WINDOW },
                    format!(
                        "DATA of {flow} flow-controlled octets on stream {sid} with a stream window of {} (+{extra} not yet acknowledged) [stream opened under our SETTINGS #{}, {} received so far ({} since the last SETTINGS ACK), {} granted by WINDOW_UPDATE; INITIAL_WINDOW_SIZE history {:?}, {} of {} SETTINGS acknowledged]",
                        s.recv_window, s.epoch, s.recv_flow, s.flow_since_ack, s.granted_updates, self.iws_history, self.settings_acked, self.settings_sent
                    ),
                ));
            }
            s.recv_window -= flow;
            s.recv_flow += flow as u64;
            s.flow_since_ack += flow as u64;
            s.recv_data += data.len() as u64;
            s.recv_frames += 1;
            if end_stream {
                s.remote_end = true;
            }
            if flow > 0 && (s.recv_window <= 0 || conn_after <= 0) && !end_stream {
                s.stalls += 1;
            }
            stream_live = !end_stream && s.remote_rst.is_none() && s.local_rst.is_none();
            for (k, d) in v {
                self.violate(k, d, idx);
            }
        }
        if flow > 0 && conn_after <= 0 {
            self.conn_stalls += 1;
        }
        if bad_padding {
            return Ok(Some(self.malformed(info, idx, "DATA padding longer than the payload")));
        }
        let data = data.to_vec();
        if self.replenish == Replenish::Immediately && flow_len > 0 {
            let mut frames = vec![Frame::window_update(0, flow_len as u32)];
            if stream_live {
                frames.push(Frame::window_update(sid, flow_len as u32));
            }
            self.send_frames(&frames)?;
        }
        Ok(Some(Event::Data { stream: sid, data, flow_len, end_stream }))
    }

    fn finish_block(&mut self, sid: u32, block: Vec<u8>, end_stream: bool, promised: Option<u32>, idx: usize) -> Result<Option<Event>, H2Error> {
        // HPACK first: the dynamic table must follow whatever the stream's fate is
        let before = self.dec.over_limit_updates.len();
        let decoded = self.dec.decode(&block);
        for i in before..self.dec.over_limit_updates.len() {
            let (v, lim) = self.dec.over_limit_updates[i];
            self.violate(LV_HPACK_SIZE, format!("dynamic table size update to {v} above our HEADER_TABLE_SIZE {lim}"), idx);
        }
        if let Some(target) = self.hpack_reduce_to.take() {
            let limit = self.lenient_limit(SET_HEADER_TABLE_SIZE, DEFAULT_HEADER_TABLE_SIZE) as usize;
            let signalled = self.dec.last_size_updates.first().is_some_and(|(pos, _)| *pos == 0)
                && self.dec.last_size_updates.iter().any(|(_, v)| *v <= target);
            if self.dec.current_table_size > limit {
                let d = format!(
                    "first header block after acknowledging a smaller HEADER_TABLE_SIZE: the encoder still uses a table of {} octets, our limit is {limit} (updates seen: {:?})",
                    self.dec.current_table_size, self.dec.last_size_updates
                );
                self.violate(LV_HPACK_NOT_REDUCED, d, idx);
            } else if !signalled {
                let d = format!(
                    "first header block after acknowledging HEADER_TABLE_SIZE={target} does not start with a size update <= {target} (updates seen: {:?})",
                    self.dec.last_size_updates
                );
                self.violate(LV_HPACK_MIN_SIGNAL, d, idx);
            }
        }
        let headers = match decoded {
            Ok(h) => h,
            Err(e) => {
                self.violate(LV_HPACK_DECODE, format!("header block of stream {sid}: {e}"), idx);
                return Ok(Some(Event::Malformed { frame: self.frames_in[idx], why: format!("hpack: {e}") }));
            }
        };

        if let Some(p) = promised {
            if p % 2 == 1 || p <= self.highest_remote_stream {
                self.violate(LV_STREAM_ID, format!("PUSH_PROMISE promises stream {p}"), idx);
            }
            self.highest_remote_stream = self.highest_remote_stream.max(p);
            self.promised.insert(p);
            return Ok(Some(Event::PushPromise { stream: sid, promised: p, headers }));
        }

        let informational = header_value(&headers, ":status").is_some_and(|v| v.first() == Some(&b'1') && v.len() == 3);
        if !self.streams.contains_key(&sid) {
            let remote_may_open = self.role == Role::Server || self.promised.contains(&sid);
            if self.is_local_id(sid) {
                let why = if sid > self.highest_local_stream { "idle" } else { "unknown" };
                self.violate(LV_STREAM_ID, format!("HEADERS on {why} stream {sid} of our own id space"), idx);
            } else if !remote_may_open {
                self.violate(LV_STREAM_ID, format!("HEADERS opening stream {sid}: a server cannot open streams"), idx);
            } else if self.role == Role::Server {
                if sid <= self.highest_remote_stream {
                    let d = format!("HEADERS opening stream {sid} although stream {} was already used", self.highest_remote_stream);
                    self.violate(LV_STREAM_ID, d, idx);
                }
                self.highest_remote_stream = self.highest_remote_stream.max(sid);
            }
            if !self.is_local_id(sid) {
                self.new_stream(sid, true);
                let open = self.remote_open_streams();
                self.max_remote_open = self.max_remote_open.max(open);
                let limit = self.lenient_limit(SET_MAX_CONCURRENT_STREAMS, u32::MAX);
                if open as u64 > limit as u64 {
                    let d = format!("HEADERS opening stream {sid}: {open} streams open, our MAX_CONCURRENT_STREAMS is {limit}");
                    self.violate(LV_CONCURRENT, d, idx);
                }
            }
        }
        if let Some(s) = self.streams.get_mut(&sid) {
            let mut v: Option<(&'static str, String)> = None;
            if let Some(code) = s.remote_rst {
                v = Some((LV_CLOSED_STREAM, format!("HEADERS on stream {sid} after its sender reset it (code {code})")));
            } else if s.remote_end {
                v = Some((LV_CLOSED_STREAM, format!("HEADERS on stream {sid} after its sender's END_STREAM")));
            } else if s.remote_final_headers && !end_stream {
                v = Some((LV_STREAM_STATE, format!("second HEADERS (trailers) on stream {sid} without END_STREAM")));
            } else if informational && end_stream {
                v = Some((LV_STREAM_STATE, format!("informational HEADERS with END_STREAM on stream {sid}")));
            }
            s.remote_headers = true;
            if !informational {
                s.remote_final_headers = true;
            }
            if end_stream {
                s.remote_end = true;
            }
            if let Some((k, d)) = v {
                self.violate(k, d, idx);
            }
        }
        Ok(Some(Event::Headers { stream: sid, headers, end_stream }))
    }
}

// ================================================================================================
// Self-tests
// ================================================================================================

fn st_err<T, E: std::fmt::Debug>(r: Result<T, E>, what: &str) -> Result<T, String> {
    r.map_err(|e| format!("{what}: {e:?}"))
}

/// Loopback client <-> server of this codec in two threads: CONTINUATION, padded DATA, window
/// stalls, SETTINGS changes (including a shrink below in-flight data), then a hostile client whose
/// violations the server-side ledger must record.
pub fn selftest() -> Result<(), String> {
    use crate::common::rng::{keystream, keystream_mismatch};
    use std::net::TcpListener;

    // codec-level checks
    let f = Frame::data(5, b"hello", true, Some(3));
    let wire = encode_frame(&f);
    let mut r = FrameReader::new();
    for b in &wire {
        if r.pop().is_some() {
            return Err("frame popped before complete".into());
        }
        r.feed(std::slice::from_ref(b));
    }
    if r.pop() != Some(f.clone()) || !r.leftover().is_empty() {
        return Err("frame reader round trip".into());
    }
    let lying = encode_frame_lying(&f, 100);
    r.feed(&lying);
    if r.pop().is_some() || r.peek_header().map(|h| h.0) != Some(100) {
        return Err("lying length must leave an incomplete frame".into());
    }
    let mut enc = HpackEncoder::new();
    let mut dec = HpackDecoder::new();
    dec.set_limit(4096);
    let hs = request_headers("GET", "https", "a.test", "/x", &[("x-k", "v")]);
    for mode in [HpackMode::Indexing, HpackMode::LiteralOnly, HpackMode::NeverIndexed, HpackMode::Indexing] {
        enc.mode = mode;
        if st_err(dec.decode(&enc.encode(&hs)), "hpack decode")? != hs {
            return Err(format!("hpack round trip in mode {mode:?}"));
        }
    }
    enc.set_table_size(100);
    let blk = enc.encode(&hs);
    st_err(dec.decode(&blk), "decode with size update")?;
    if dec.last_size_updates != vec![(0, 100)] || dec.current_table_size != 100 {
        return Err(format!("size update not reported: {:?}", dec.last_size_updates));
    }
    enc.queue_size_update(5000);
    if dec.decode(&enc.encode(&hs)).is_ok() {
        return Err("size update above the limit must be refused in strict mode".into());
    }

    // ---- cooperative pair ----
    const BODY: usize = 70_000;
    const RESP: usize = 40_000;
    let listener = st_err(TcpListener::bind("127.0.0.1:0"), "bind")?;
    let addr = st_err(listener.local_addr(), "addr")?;
    let server = std::thread::spawn(move || -> Result<(u64, u64, usize), String> {
        let (sock, _) = st_err(listener.accept(), "accept")?;
        let _ = sock.set_nodelay(true);
        let mut c = H2Conn::new(sock, Role::Server);
        c.auto_ack = true;
        c.obey_windows = true;
        c.replenish = Replenish::Manual;
        st_err(c.handshake_server(&[(SET_INITIAL_WINDOW_SIZE, 10), (SET_MAX_FRAME_SIZE, 16_384), (SET_HEADER_TABLE_SIZE, 128)]), "hs server")?;
        let mut got = 0usize;
        let mut shrunk = false;
        let mut grown = false;
        let mut big_header = 0usize;
        let deadline = Instant::now() + Duration::from_secs(20);
        loop {
            if Instant::now() > deadline {
                return Err(format!("server watchdog, got {got}"));
            }
            if let Some(s) = c.streams.get(&1) {
                if s.recv_window < 1 && !s.remote_end {
                    let need = (1 - s.recv_window) as u32 + 6;
                    st_err(c.send_window_update(1, need), "wu stream")?;
                }
            }
            if c.conn_recv_window < 30_000 {
                st_err(c.send_window_update(0, 40_000), "wu conn")?;
            }
            match st_err(c.poll(Duration::from_millis(20)), "server poll")? {
                Some(Event::Headers { stream: 1, headers, end_stream: false }) => {
                    big_header = header_value(&headers, "x-big").map(|v| v.len()).unwrap_or(0);
                }
                Some(Event::Data { stream: 1, data, flow_len, end_stream }) => {
                    if let Some(k) = keystream_mismatch(77, got as u64, &data) {
                        return Err(format!("request body differs at {}", got + k));
                    }
                    got += data.len();
                    // shrink INITIAL_WINDOW_SIZE once (below in-flight data), grow it once
                    if !shrunk && got > 200 {
                        shrunk = true;
                        st_err(c.send_window_update(1, 5000), "wu")?;
                        st_err(c.send_settings(&[(SET_INITIAL_WINDOW_SIZE, 0)]), "shrink")?;
                    } else if !grown && got > 30_000 {
                        grown = true;
                        st_err(c.send_settings(&[(SET_INITIAL_WINDOW_SIZE, 20_000), (SET_MAX_FRAME_SIZE, 20_000)]), "grow")?;
                    }
                    let _ = flow_len;
                    if end_stream {
                        break;
                    }
                }
                Some(Event::Closed) => return Err("client closed early".into()),
                _ => {}
            }
        }
        if got != BODY || big_header != 40_000 {
            return Err(format!("server got {got} body bytes, big header {big_header}"));
        }
        st_err(c.send_headers(1, &response_headers(200, &[("x-big", &"r".repeat(20_000))]), false), "resp headers")?;
        st_err(c.send_data(1, &keystream(78, 0, RESP), true, Some(7)), "resp data")?;
        // wait for the client's goodbye
        let _ = c.wait_for(Duration::from_secs(5), |e| matches!(e, Event::GoAway { .. }));
        if !c.ledger_violations.is_empty() {
            return Err(format!("server ledger: {:?}", c.ledger_violations));
        }
        Ok((c.streams[&1].stalls, c.continuation_frames_in, c.max_frame_len_seen as usize))
    });

    let sock = st_err(TcpStream::connect(addr), "connect")?;
    let _ = sock.set_nodelay(true);
    let mut c = H2Conn::new(sock, Role::Client);
    c.auto_ack = true;
    c.obey_windows = true;
    c.replenish = Replenish::Manual;
    st_err(c.handshake_client(&[(SET_INITIAL_WINDOW_SIZE, 100), (SET_ENABLE_PUSH, 0), (SET_HEADER_TABLE_SIZE, 0)]), "hs client")?;
    st_err(c.wait_for(Duration::from_secs(5), |e| matches!(e, Event::Settings { ack: false, .. })), "server settings")?;
    let sid = c.next_stream_id();
    let big = "b".repeat(40_000);
    st_err(c.send_headers(sid, &request_headers("POST", "http", "self.test", "/", &[("x-big", &big)]), false), "req headers")?;
    st_err(c.send_data(sid, &keystream(77, 0, BODY), true, None), "req data")?;
    let mut got = 0usize;
    let mut status = None;
    let mut done = false;
    let deadline = Instant::now() + Duration::from_secs(20);
    while !done {
        if Instant::now() > deadline {
            return Err(format!("client watchdog, got {got}"));
        }
        match st_err(c.poll(Duration::from_millis(200)), "client poll")? {
            Some(Event::Headers { headers, .. }) => status = header_str(&headers, ":status"),
            Some(Event::Data { data, flow_len, end_stream, .. }) => {
                if let Some(k) = keystream_mismatch(78, got as u64, &data) {
                    return Err(format!("response body differs at {}", got + k));
                }
                got += data.len();
                if !end_stream {
                    st_err(c.send_frames(&[Frame::window_update(sid, flow_len as u32), Frame::window_update(0, flow_len as u32)]), "client wu")?;
                }
                done = end_stream;
            }
            Some(Event::Closed) => return Err("server closed early".into()),
            _ => {}
        }
    }
    st_err(c.send_goaway(0, ERR_NO_ERROR, b"bye"), "goaway")?;
    let (stalls, conts, max_len) = server.join().map_err(|_| "server thread panicked".to_owned())??;
    if status.as_deref() != Some("200") || got != RESP {
        return Err(format!("client got status {status:?}, {got} body bytes"));
    }
    if !c.ledger_violations.is_empty() {
        return Err(format!("client ledger: {:?}", c.ledger_violations));
    }
    if stalls == 0 || conts < 2 || c.padded_frames_in == 0 || c.continuation_frames_in == 0 || max_len <= 16_384 {
        return Err(format!(
            "self-test did not exercise what it claims: stalls {stalls}, continuations in {conts}/{}, padded {}, max frame {max_len}",
            c.continuation_frames_in, c.padded_frames_in
        ));
    }
    if c.streams[&sid].stalls == 0 {
        return Err("client never saw the server stall on its 100-octet window".into());
    }

    // ---- hostile client: the server-side ledger must notice ----
    let listener = st_err(TcpListener::bind("127.0.0.1:0"), "bind")?;
    let addr = st_err(listener.local_addr(), "addr")?;
    let server = std::thread::spawn(move || -> Result<Vec<&'static str>, String> {
        let (sock, _) = st_err(listener.accept(), "accept")?;
        let mut c = H2Conn::new(sock, Role::Server);
        c.auto_ack = true;
        st_err(
            c.handshake_server(&[(SET_INITIAL_WINDOW_SIZE, 10), (SET_MAX_CONCURRENT_STREAMS, 1), (SET_HEADER_TABLE_SIZE, 64)]),
            "hs server",
        )?;
        let deadline = Instant::now() + Duration::from_secs(10);
        while Instant::now() < deadline {
            if let Some(Event::Closed) = st_err(c.poll(Duration::from_millis(100)), "poll")? {
                break;
            }
        }
        Ok(c.ledger_violations.iter().map(|v| v.kind).collect())
    });
    let sock = st_err(TcpStream::connect(addr), "connect")?;
    let mut c = H2Conn::new(sock, Role::Client);
    c.auto_ack = true;
    st_err(c.handshake_client(&[]), "hs")?;
    // wait until our ack of the server's SETTINGS is out, so its limits are in force
    st_err(c.wait_for(Duration::from_secs(5), |e| matches!(e, Event::Settings { ack: false, .. })), "settings")?;
    st_err(c.wait_for(Duration::from_secs(5), |e| matches!(e, Event::Settings { ack: true, .. })), "ack")?;
    let h = request_headers("POST", "http", "self.test", "/", &[]);
    st_err(c.send_headers(1, &h, false), "h1")?;
    st_err(c.send_data(1, &[0u8; 11], false, None), "over stream window")?; // stream_window_exceeded
    st_err(c.send_headers(3, &h, false), "h3")?; // concurrent_streams_exceeded
    st_err(c.send_frame(&Frame::data(3, &vec![0u8; 17_000], false, None)), "big frame")?; // frame_too_large + stream window
    st_err(c.send_window_update(0, 0), "noop")?;
    st_err(c.send_frame(&Frame::data(1, &vec![0u8; 16_384], false, None)), "d")?;
    st_err(c.send_frame(&Frame::data(1, &vec![0u8; 16_384], false, None)), "d")?;
    st_err(c.send_frame(&Frame::data(1, &vec![0u8; 16_384], false, None)), "d")?; // connection_window_exceeded
    st_err(c.send_frame(&Frame::headers(4, &c_block(&h), true, true)), "even")?; // illegal_stream_id
    st_err(c.send_frame(&Frame::data(1, b"", true, None)), "end")?;
    st_err(c.send_frame(&Frame::data(1, b"x", false, None)), "after end")?; // frame_on_closed_stream
    c.enc.queue_size_update(4096);
    st_err(c.send_headers(5, &h, true), "h5")?; // hpack_table_size_exceeded
    st_err(c.send_frame(&Frame::continuation(5, b"", true)), "cont")?; // continuation_sequence
    std::thread::sleep(Duration::from_millis(100));
    Transport::shutdown(&mut c.io);
    drop(c);
    let kinds = server.join().map_err(|_| "server thread panicked".to_owned())??;
    for k in [LV_STREAM_WINDOW, LV_CONCURRENT, LV_FRAME_SIZE, LV_CONN_WINDOW, LV_STREAM_ID, LV_CLOSED_STREAM, LV_HPACK_SIZE, LV_CONTINUATION] {
        if !kinds.contains(&k) {
            return Err(format!("hostile client: ledger missed {k}; recorded {kinds:?}"));
        }
    }
    Ok(())
}

fn c_block(h: &[(Vec<u8>, Vec<u8>)]) -> Vec<u8> {
    let mut e = HpackEncoder::new();
    e.mode = HpackMode::LiteralOnly;
    e.encode(h)
}

/// Validation against a real sozu worker: (1) this codec as TLS/ALPN-h2 client, HTTP/1.1 backend:
/// GET and a 100 KB POST echo; (2) this codec as prior-knowledge h2c backend (cluster `http2`),
/// same requests. Returns a short summary.
pub fn selftest_sozu() -> Result<String, String> {
    use crate::{
        common::rng::{keystream, keystream_mismatch},
        lab::{self, Worker, WorkerOpts},
        peers::{self, BackendServer, h1, tls},
    };
    use sozu_command_lib::proto::command::Cluster;

    const BODY: usize = 100_000;
    let ip = lab::fresh_ip();
    let front = lab::sa(ip, 8443);
    let back_h1 = lab::sa(ip, 9000);
    let back_h2 = lab::sa(ip, 9001);

    // HTTP/1.1 echo backend
    let _b1 = st_err(
        BackendServer::start(back_h1, IoProgram::fast(), |mut s, _| {
            let mut p = h1::Parser::new(h1::Kind::Request, true);
            let mut buf = [0u8; 16384];
            let mut body = Vec::new();
            loop {
                let n = match s.read(&mut buf) {
                    Ok(0) | Err(_) => return,
                    Ok(n) => n,
                };
                let Ok(events) = p.feed(&buf[..n]) else { return };
                for e in events {
                    match e {
                        h1::Event::Body(b) => body.extend_from_slice(&b),
                        h1::Event::End(_) => {
                            let head = format!("HTTP/1.1 200 OK\r\nContent-Length: {}\r\n\r\n", body.len());
                            let _ = s.write_all(head.as_bytes());
                            let _ = s.write_all(&body);
                            body.clear();
                        }
                        _ => {}
                    }
                }
            }
        }),
        "h1 backend",
    )?;
    // h2c echo backend made of this codec
    let back_violations = std::sync::Arc::new(std::sync::Mutex::new(Vec::<String>::new()));
    let bv = back_violations.clone();
    let _b2 = st_err(
        BackendServer::start(back_h2, IoProgram::fast(), move |s, _| {
            let mut c = H2Conn::new(s, Role::Server);
            c.auto_ack = true;
            c.obey_windows = true;
            c.replenish = Replenish::Immediately;
            if let Err(e) = c.handshake_server(&[(SET_MAX_CONCURRENT_STREAMS, 10)]) {
                bv.lock().unwrap().push(format!("handshake_server: {e}"));
                return;
            }
            let mut bodies: BTreeMap<u32, Vec<u8>> = BTreeMap::new();
            loop {
                let ev = match c.poll(Duration::from_secs(10)) {
                    Ok(Some(ev)) => ev,
                    Ok(None) => break,
                    Err(e) => {
                        bv.lock().unwrap().push(format!("poll: {e}"));
                        break;
                    }
                };
                let done = match ev {
                    Event::Headers { stream, end_stream, .. } => {
                        bodies.entry(stream).or_default();
                        end_stream.then_some(stream)
                    }
                    Event::Data { stream, data, end_stream, .. } => {
                        bodies.entry(stream).or_default().extend_from_slice(&data);
                        end_stream.then_some(stream)
                    }
                    Event::Closed => break,
                    _ => None,
                };
                if let Some(stream) = done {
                    let body = bodies.remove(&stream).unwrap_or_default();
                    let r = c
                        .send_headers(stream, &response_headers(200, &[("x-peer", "h2c")]), false)
                        .and_then(|_| c.send_data(stream, &body, true, None));
                    if let Err(e) = r {
                        bv.lock().unwrap().push(format!("respond: {e}"));
                        break;
                    }
                }
            }
            let mut g = bv.lock().unwrap();
            for v in &c.ledger_violations {
                g.push(format!("{}: {} [{}]", v.kind, v.detail, c.trace_tail(12).join(" ")));
            }
        }),
        "h2c backend",
    )?;

    let mut w = Worker::start(WorkerOpts::default());
    let cert = st_err(std::fs::read_to_string("/repo/lib/assets/certificate.pem"), "cert")?;
    let key = st_err(std::fs::read_to_string("/repo/lib/assets/key.pem"), "key")?;
    let ok = w.add_https_listener(front, |_| {})
        && w.add_cluster(Cluster { cluster_id: "h1".into(), ..Default::default() })
        && w.add_cluster(Cluster { cluster_id: "h2".into(), http2: Some(true), ..Default::default() })
        && w.add_https_frontend(Worker::http_frontend("h1", front, "h1.test", "/"))
        && w.add_https_frontend(Worker::http_frontend("h2", front, "h2.test", "/"))
        && w.add_backend("h1", "b1", back_h1)
        && w.add_backend("h2", "b2", back_h2)
        && w.add_certificate(front, &cert, vec![], &key, vec!["h1.test".into(), "h2.test".into()]);
    if !ok {
        w.stop();
        return Err("sozu configuration was refused".into());
    }

    let mut summary = Vec::new();
    let mut result = Ok(());
    'hosts: for host in ["h1.test", "h2.test"] {
        let prog = IoProgram::fast();
        let tcp = st_err(peers::connect(front, None, &prog, Duration::from_secs(2)), "connect")?;
        let (t, info) = st_err(tls::TlsClient::handshake(tcp, host, tls::client_config(&["h2"]), Duration::from_secs(3)), "tls")?;
        if info.alpn.as_deref() != Some(b"h2") {
            result = Err(format!("ALPN h2 not selected: {:?}", info.alpn));
            break;
        }
        let mut c = H2Conn::new(t, Role::Client);
        c.auto_ack = true;
        c.obey_windows = true;
        c.replenish = Replenish::Immediately;
        st_err(c.handshake_client(&[(SET_ENABLE_PUSH, 0)]), "handshake")?;
        for (method, len) in [("GET", 0usize), ("POST", BODY)] {
            let sid = c.next_stream_id();
            let r = c.send_headers(sid, &request_headers(method, "https", host, "/echo", &[]), len == 0);
            let r = r.and_then(|_| if len > 0 { c.send_data(sid, &keystream(sid as u64, 0, len), true, None) } else { Ok(()) });
            if let Err(e) = r {
                result = Err(format!("{host} {method}: send: {e} trace {:?}", c.trace_tail(20)));
                break 'hosts;
            }
            let mut got = 0usize;
            let mut status = None;
            let deadline = Instant::now() + Duration::from_secs(10);
            loop {
                if Instant::now() > deadline {
                    result = Err(format!("{host} {method}: no complete response (status {status:?}, {got}/{len}) trace {:?}", c.trace_tail(20)));
                    break 'hosts;
                }
                match c.poll(Duration::from_millis(200)) {
                    Ok(Some(Event::Headers { stream, headers, end_stream })) if stream == sid => {
                        status = header_str(&headers, ":status");
                        if end_stream {
                            break;
                        }
                    }
                    Ok(Some(Event::Data { stream, data, end_stream, .. })) if stream == sid => {
                        if let Some(k) = keystream_mismatch(sid as u64, got as u64, &data) {
                            result = Err(format!("{host} {method}: body differs at {}", got + k));
                            break 'hosts;
                        }
                        got += data.len();
                        if end_stream {
                            break;
                        }
                    }
                    Ok(Some(Event::Closed)) => {
                        result = Err(format!("{host} {method}: connection closed ({:?}) trace {:?}", c.close_kind, c.trace_tail(20)));
                        break 'hosts;
                    }
                    Ok(_) => {}
                    Err(e) => {
                        result = Err(format!("{host} {method}: {e}"));
                        break 'hosts;
                    }
                }
            }
            if status.as_deref() != Some("200") || got != len {
                result = Err(format!("{host} {method}: status {status:?}, body {got}/{len}"));
                break 'hosts;
            }
            summary.push(format!("{host} {method} {len}B ok"));
        }
        if !c.ledger_violations.is_empty() {
            result = Err(format!("{host}: client ledger {:?}", c.ledger_violations));
            break;
        }
        summary.push(format!("{host}: {} frames in, peer settings {:?}", c.frames_in.len(), c.peer_settings));
        let _ = c.send_goaway(0, ERR_NO_ERROR, b"");
    }
    std::thread::sleep(Duration::from_millis(100));
    let panics = w.stop();
    result?;
    if !panics.is_empty() {
        return Err(format!("worker panicked: {panics:?}"));
    }
    let bv = back_violations.lock().unwrap();
    if !bv.is_empty() {
        return Err(format!("h2c backend side: {:?}", *bv));
    }
    Ok(summary.join("; "))
}
