//! Incremental HTTP/1.1 message reader used by scripted clients (responses) and backends
//! (requests). It is an *independent* reader written from RFC 9112, not sozu's parser.
//! `strict = true` rejects everything RFC 9112 forbids a sender to emit (bare LF, whitespace
//! before the colon, obs-fold, CL+TE, non-digit or conflicting Content-Length, TE not ending in
//! chunked, ...). `strict = false` is a deliberately lenient reader (accepts bare LF, trims
//! whitespace around names, takes the first Content-Length, ...) for differential checks.

use std::fmt;

#[derive(Clone, Copy, Debug, PartialEq, Eq)]
pub enum Kind {
    Request,
    Response,
}

#[derive(Clone, Debug, PartialEq, Eq)]
pub enum Framing {
    None,
    Length(u64),
    Chunked,
    UntilClose,
}

#[derive(Clone, Debug, PartialEq, Eq)]
pub struct Head {
    pub kind: Kind,
    /// request: method; response: version
    pub first: String,
    /// request: target; response: status code text
    pub second: String,
    /// request: version; response: reason
    pub third: String,
    /// header fields in order, names as received
    pub headers: Vec<(String, Vec<u8>)>,
    pub framing: Framing,
    /// raw bytes of the head as received
    pub raw_len: usize,
}

impl Head {
    pub fn status(&self) -> Option<u16> {
        if self.kind == Kind::Response {
            self.second.parse().ok()
        } else {
            None
        }
    }
    pub fn header(&self, name: &str) -> Option<&[u8]> {
        self.headers
            .iter()
            .find(|(n, _)| n.eq_ignore_ascii_case(name))
            .map(|(_, v)| v.as_slice())
    }
    pub fn header_all(&self, name: &str) -> Vec<&[u8]> {
        self.headers
            .iter()
            .filter(|(n, _)| n.eq_ignore_ascii_case(name))
            .map(|(_, v)| v.as_slice())
            .collect()
    }
    pub fn header_str(&self, name: &str) -> Option<String> {
        self.header(name).map(|v| String::from_utf8_lossy(v).into_owned())
    }
}

#[derive(Clone, Debug, PartialEq, Eq)]
pub enum Event {
    Head(Head),
    Body(Vec<u8>),
    /// message complete (trailers of a chunked message, if any)
    End(Vec<(String, Vec<u8>)>),
}

#[derive(Clone, Debug, PartialEq, Eq)]
pub struct ParseError(pub String);

impl fmt::Display for ParseError {
    fn fmt(&self, f: &mut fmt::Formatter<'_>) -> fmt::Result {
        write!(f, "{}", self.0)
    }
}

#[derive(Clone, Debug, PartialEq, Eq)]
enum State {
    Head,
    BodyLength(u64),
    ChunkSize,
    ChunkData(u64),
    ChunkDataEnd,
    Trailers,
    UntilClose,
    Failed,
}

pub struct Parser {
    pub kind: Kind,
    pub strict: bool,
    buf: Vec<u8>,
    state: State,
    /// for responses: the method of the request being answered (HEAD => no body)
    pub head_request: bool,
    pub messages_done: usize,
    pub max_head: usize,
    trailers: Vec<(String, Vec<u8>)>,
}

fn is_tchar(b: u8) -> bool {
    matches!(b, b'!' | b'#' | b'$' | b'%' | b'&' | b'\'' | b'*' | b'+' | b'-' | b'.' | b'^' | b'_' | b'`' | b'|' | b'~')
        || b.is_ascii_alphanumeric()
}

impl Parser {
    pub fn new(kind: Kind, strict: bool) -> Parser {
        Parser {
            kind,
            strict,
            buf: Vec::new(),
            state: State::Head,
            head_request: false,
            messages_done: 0,
            max_head: 1 << 20,
            trailers: Vec::new(),
        }
    }

    /// bytes received but not yet consumed by a complete element
    pub fn residue(&self) -> &[u8] {
        &self.buf
    }

    pub fn in_message(&self) -> bool {
        self.state != State::Head || !self.buf.is_empty()
    }

    pub fn at_message_boundary(&self) -> bool {
        self.state == State::Head && self.buf.is_empty()
    }

    fn fail<T>(&mut self, why: String) -> Result<T, ParseError> {
        self.state = State::Failed;
        Err(ParseError(why))
    }

    /// position after the line terminator and the line content (without terminator)
    fn take_line(&mut self) -> Result<Option<Vec<u8>>, ParseError> {
        let Some(pos) = self.buf.iter().position(|b| *b == b'\n') else {
            if self.buf.len() > self.max_head {
                return self.fail("line too long".into());
            }
            return Ok(None);
        };
        let mut line: Vec<u8> = self.buf.drain(..=pos).collect();
        line.pop(); // \n
        if line.last() == Some(&b'\r') {
            line.pop();
        } else if self.strict {
            return self.fail("bare LF line terminator".into());
        }
        if self.strict && line.contains(&b'\r') {
            return self.fail("bare CR inside a line".into());
        }
        Ok(Some(line))
    }

    fn parse_header_line(&mut self, line: &[u8]) -> Result<(String, Vec<u8>), ParseError> {
        let Some(colon) = line.iter().position(|b| *b == b':') else {
            return self.fail(format!("header line without colon: {:?}", String::from_utf8_lossy(line)));
        };
        let (name, value) = (&line[..colon], &line[colon + 1..]);
        let name_ok = !name.is_empty() && name.iter().all(|b| is_tchar(*b));
        let name_s;
        if name_ok {
            name_s = String::from_utf8_lossy(name).into_owned();
        } else if self.strict {
            return self.fail(format!("invalid header name {:?}", String::from_utf8_lossy(name)));
        } else {
            let t = String::from_utf8_lossy(name).trim().to_owned();
            if t.is_empty() {
                return self.fail("empty header name".into());
            }
            name_s = t;
        }
        let v: &[u8] = {
            let mut s = 0;
            let mut e = value.len();
            while s < e && (value[s] == b' ' || value[s] == b'\t') {
                s += 1;
            }
            while e > s && (value[e - 1] == b' ' || value[e - 1] == b'\t') {
                e -= 1;
            }
            &value[s..e]
        };
        if self.strict && v.iter().any(|b| (*b < 0x20 && *b != b'\t') || *b == 0x7f) {
            return self.fail(format!("control byte in value of {name_s}"));
        }
        Ok((name_s, v.to_vec()))
    }

    fn decide_framing(&mut self, head: &Head) -> Result<Framing, ParseError> {
        let te: Vec<&[u8]> = head.header_all("transfer-encoding");
        let cl: Vec<&[u8]> = head.header_all("content-length");
        if head.kind == Kind::Response {
            let code = head.status().unwrap_or(0);
            if self.head_request || (100..200).contains(&code) || code == 204 || code == 304 {
                return Ok(Framing::None);
            }
        }
        if !te.is_empty() {
            if self.strict && !cl.is_empty() {
                return self.fail("both Transfer-Encoding and Content-Length".into());
            }
            let joined: Vec<u8> = te.join(&b","[..]);
            let codings: Vec<String> = String::from_utf8_lossy(&joined)
                .split(',')
                .map(|s| s.trim().to_ascii_lowercase())
                .filter(|s| !s.is_empty())
                .collect();
            let last_chunked = codings.last().map(|s| s == "chunked").unwrap_or(false);
            if self.strict {
                if codings.iter().filter(|c| *c == "chunked").count() != 1 || !last_chunked {
                    if head.kind == Kind::Request {
                        return self.fail(format!("request Transfer-Encoding not ending in a single chunked: {codings:?}"));
                    }
                    return Ok(Framing::UntilClose);
                }
                if codings.len() != 1 {
                    return self.fail(format!("unsupported transfer codings {codings:?}"));
                }
                return Ok(Framing::Chunked);
            }
            if codings.iter().any(|c| c == "chunked") {
                return Ok(Framing::Chunked);
            }
        }
        if !cl.is_empty() {
            let mut vals: Vec<u64> = Vec::new();
            for v in &cl {
                for part in v.split(|b| *b == b',') {
                    let p = String::from_utf8_lossy(part).trim().to_owned();
                    if self.strict && (p.is_empty() || !p.bytes().all(|b| b.is_ascii_digit())) {
                        return self.fail(format!("invalid Content-Length {p:?}"));
                    }
                    match p.parse::<u64>() {
                        Ok(n) => vals.push(n),
                        Err(_) => {
                            if self.strict {
                                return self.fail(format!("invalid Content-Length {p:?}"));
                            }
                            let digits: String = p.chars().take_while(|c| c.is_ascii_digit()).collect();
                            vals.push(digits.parse().unwrap_or(0));
                        }
                    }
                }
            }
            if self.strict && vals.windows(2).any(|w| w[0] != w[1]) {
                return self.fail(format!("conflicting Content-Length values {vals:?}"));
            }
            return Ok(Framing::Length(vals[0]));
        }
        Ok(match head.kind {
            Kind::Request => Framing::None,
            Kind::Response => Framing::UntilClose,
        })
    }

    /// feed bytes, get the events they complete
    pub fn feed(&mut self, data: &[u8]) -> Result<Vec<Event>, ParseError> {
        self.buf.extend_from_slice(data);
        let mut out = Vec::new();
        loop {
            match self.state.clone() {
                State::Failed => return Err(ParseError("parser already failed".into())),
                State::Head => {
                    // need the whole head
                    let end = find_head_end(&self.buf, self.strict);
                    let Some(end) = end else {
                        if self.buf.len() > self.max_head {
                            return self.fail("head too large".into());
                        }
                        return Ok(out);
                    };
                    let raw: Vec<u8> = self.buf.drain(..end).collect();
                    let raw_len = raw.len();
                    let mut saved = std::mem::take(&mut self.buf);
                    self.buf = raw;
                    // (lenient readers skip empty lines before the start line)
                    let mut start = loop {
                        match self.take_line()? {
                            Some(l) if l.is_empty() && !self.strict => continue,
                            Some(l) => break l,
                            None => return self.fail("no start line".into()),
                        }
                    };
                    if self.strict && start.is_empty() {
                        return self.fail("empty start line".into());
                    }
                    let start_s = String::from_utf8_lossy(&std::mem::take(&mut start)).into_owned();
                    let mut parts = start_s.splitn(3, ' ');
                    let first = parts.next().unwrap_or("").to_owned();
                    let second = parts.next().unwrap_or("").to_owned();
                    let third = parts.next().unwrap_or("").to_owned();
                    if self.strict {
                        match self.kind {
                            Kind::Request => {
                                if first.is_empty() || !first.bytes().all(is_tchar) {
                                    return self.fail(format!("invalid method in {start_s:?}"));
                                }
                                if second.is_empty() || second.bytes().any(|b| b <= 0x20 || b == 0x7f) {
                                    return self.fail(format!("invalid request target in {start_s:?}"));
                                }
                                if third != "HTTP/1.1" && third != "HTTP/1.0" {
                                    return self.fail(format!("invalid HTTP version in {start_s:?}"));
                                }
                            }
                            Kind::Response => {
                                if first != "HTTP/1.1" && first != "HTTP/1.0" {
                                    return self.fail(format!("invalid status line {start_s:?}"));
                                }
                                if second.len() != 3 || !second.bytes().all(|b| b.is_ascii_digit()) {
                                    return self.fail(format!("invalid status code in {start_s:?}"));
                                }
                            }
                        }
                    }
                    let mut headers = Vec::new();
                    loop {
                        let Some(line) = self.take_line()? else { break };
                        if line.is_empty() {
                            break;
                        }
                        if line[0] == b' ' || line[0] == b'\t' {
                            if self.strict {
                                return self.fail("obs-fold / leading whitespace in header line".into());
                            }
                            if let Some((_, v)) = headers.last_mut() {
                                let v: &mut Vec<u8> = v;
                                v.push(b' ');
                                v.extend_from_slice(String::from_utf8_lossy(&line).trim().as_bytes());
                            }
                            continue;
                        }
                        headers.push(self.parse_header_line(&line)?);
                    }
                    self.buf = std::mem::take(&mut saved);
                    let mut head = Head {
                        kind: self.kind,
                        first,
                        second,
                        third,
                        headers,
                        framing: Framing::None,
                        raw_len,
                    };
                    head.framing = self.decide_framing(&head)?;
                    let framing = head.framing.clone();
                    out.push(Event::Head(head));
                    match framing {
                        Framing::None | Framing::Length(0) => {
                            out.push(Event::End(vec![]));
                            self.messages_done += 1;
                            self.state = State::Head;
                        }
                        Framing::Length(n) => self.state = State::BodyLength(n),
                        Framing::Chunked => self.state = State::ChunkSize,
                        Framing::UntilClose => self.state = State::UntilClose,
                    }
                }
                State::BodyLength(left) => {
                    if self.buf.is_empty() {
                        return Ok(out);
                    }
                    let take = (left as usize).min(self.buf.len());
                    let chunk: Vec<u8> = self.buf.drain(..take).collect();
                    out.push(Event::Body(chunk));
                    let left = left - take as u64;
                    if left == 0 {
                        out.push(Event::End(vec![]));
                        self.messages_done += 1;
                        self.state = State::Head;
                    } else {
                        self.state = State::BodyLength(left);
                    }
                }
                State::ChunkSize => {
                    let Some(line) = self.take_line()? else { return Ok(out) };
                    let s = String::from_utf8_lossy(&line).into_owned();
                    let size_part = s.split(';').next().unwrap_or("");
                    let size_str = if self.strict { size_part } else { size_part.trim() };
                    if size_str.is_empty() || !size_str.bytes().all(|b| b.is_ascii_hexdigit()) || size_str.len() > 15 {
                        return self.fail(format!("invalid chunk size line {s:?}"));
                    }
                    let n = u64::from_str_radix(size_str, 16).unwrap_or(0);
                    if n == 0 {
                        self.trailers.clear();
                        self.state = State::Trailers;
                    } else {
                        self.state = State::ChunkData(n);
                    }
                }
                State::ChunkData(left) => {
                    if self.buf.is_empty() {
                        return Ok(out);
                    }
                    let take = (left as usize).min(self.buf.len());
                    let chunk: Vec<u8> = self.buf.drain(..take).collect();
                    out.push(Event::Body(chunk));
                    let left = left - take as u64;
                    self.state = if left == 0 { State::ChunkDataEnd } else { State::ChunkData(left) };
                }
                State::ChunkDataEnd => {
                    let Some(line) = self.take_line()? else { return Ok(out) };
                    if !line.is_empty() {
                        return self.fail("chunk data not followed by CRLF".into());
                    }
                    self.state = State::ChunkSize;
                }
                State::Trailers => {
                    let Some(line) = self.take_line()? else { return Ok(out) };
                    if line.is_empty() {
                        let t = std::mem::take(&mut self.trailers);
                        out.push(Event::End(t));
                        self.messages_done += 1;
                        self.state = State::Head;
                    } else {
                        let h = self.parse_header_line(&line)?;
                        self.trailers.push(h);
                    }
                }
                State::UntilClose => {
                    if self.buf.is_empty() {
                        return Ok(out);
                    }
                    let chunk = std::mem::take(&mut self.buf);
                    out.push(Event::Body(chunk));
                }
            }
        }
    }

    /// the peer closed its sending side: Ok(Some(End)) for a close-delimited body, Ok(None) at a
    /// clean message boundary, Err when a message was cut
    pub fn eof(&mut self) -> Result<Option<Event>, ParseError> {
        match self.state {
            State::UntilClose => {
                self.state = State::Head;
                self.messages_done += 1;
                Ok(Some(Event::End(vec![])))
            }
            State::Head if self.buf.is_empty() => Ok(None),
            State::Head => Err(ParseError(format!("connection closed inside a message head ({} bytes)", self.buf.len()))),
            State::Failed => Err(ParseError("parser already failed".into())),
            _ => Err(ParseError(format!("connection closed inside a message body (state {:?})", self.state))),
        }
    }
}

fn find_head_end(buf: &[u8], strict: bool) -> Option<usize> {
    if let Some(p) = memfind(buf, b"\r\n\r\n") {
        // a lenient reader also ends the head at the first LF LF / LF CR LF if earlier
        if !strict {
            if let Some(q) = memfind(buf, b"\n\n") {
                if q + 2 < p + 4 {
                    return Some(q + 2);
                }
            }
        }
        return Some(p + 4);
    }
    if !strict {
        if let Some(q) = memfind(buf, b"\n\n") {
            return Some(q + 2);
        }
        if let Some(q) = memfind(buf, b"\n\r\n") {
            return Some(q + 3);
        }
    } else if let Some(q) = memfind(buf, b"\n\n") {
        // let the strict reader see (and reject) the bare LF
        return Some(q + 2);
    }
    None
}

pub fn memfind(hay: &[u8], needle: &[u8]) -> Option<usize> {
    if needle.is_empty() || hay.len() < needle.len() {
        return None;
    }
    hay.windows(needle.len()).position(|w| w == needle)
}

/// a whole message collected by `collect`
#[derive(Clone, Debug, PartialEq, Eq)]
pub struct Message {
    pub head: Head,
    pub body: Vec<u8>,
    pub trailers: Vec<(String, Vec<u8>)>,
    pub complete: bool,
}

/// group events into messages (complete=false for a trailing unfinished one)
pub fn collect(events: Vec<Event>) -> Vec<Message> {
    let mut out: Vec<Message> = Vec::new();
    for e in events {
        match e {
            Event::Head(h) => out.push(Message {
                head: h,
                body: Vec::new(),
                trailers: Vec::new(),
                complete: false,
            }),
            Event::Body(b) => {
                if let Some(m) = out.last_mut() {
                    m.body.extend_from_slice(&b);
                }
            }
            Event::End(t) => {
                if let Some(m) = out.last_mut() {
                    m.trailers = t;
                    m.complete = true;
                }
            }
        }
    }
    out
}

/// render a chunked body with the given chunk sizes (cycled) and optional trailers
pub fn chunked_encode(body: &[u8], chunk_sizes: &[usize], trailers: &[(String, String)]) -> Vec<u8> {
    let mut out = Vec::with_capacity(body.len() + body.len() / 8 + 64);
    let mut off = 0;
    let mut i = 0;
    while off < body.len() {
        let sz = chunk_sizes[i % chunk_sizes.len()].max(1).min(body.len() - off);
        out.extend_from_slice(format!("{sz:x}\r\n").as_bytes());
        out.extend_from_slice(&body[off..off + sz]);
        out.extend_from_slice(b"\r\n");
        off += sz;
        i += 1;
    }
    out.extend_from_slice(b"0\r\n");
    for (k, v) in trailers {
        out.extend_from_slice(format!("{k}: {v}\r\n").as_bytes());
    }
    out.extend_from_slice(b"\r\n");
    out
}
