//! Scripted peers: raw TCP clients/backends with explicit I/O programs, an incremental HTTP/1.1
//! message parser, a TLS client that records the presented chain.

pub mod h1;
pub mod h2;
pub mod tls;

use std::{
    io::{self, Read, Write},
    net::{IpAddr, Shutdown, SocketAddr, TcpListener, TcpStream},
    sync::{
        Arc,
        atomic::{AtomicBool, AtomicUsize, Ordering},
    },
    thread::JoinHandle,
    time::{Duration, Instant},
};

use socket2::{Domain, Protocol, Socket, Type};

/// How a peer paces its I/O. Only *sound* provocations: real segmentation, real slow reading,
/// real small kernel buffers (see DESIGN.md 2.5).
#[derive(Clone, Debug, Default)]
pub struct IoProgram {
    /// write at most this many bytes per write() (0 = everything at once)
    pub write_seg: usize,
    /// pause between write segments
    pub write_pause_us: u64,
    /// read at most this many bytes per read() (0 = 64 KiB)
    pub read_chunk: usize,
    /// pause after each read (slow reader)
    pub read_pause_us: u64,
    /// SO_RCVBUF / SO_SNDBUF of this peer's socket (0 = kernel default)
    pub rcvbuf: usize,
    pub sndbuf: usize,
}

impl IoProgram {
    pub fn fast() -> IoProgram {
        IoProgram::default()
    }
    pub fn describe(&self) -> String {
        format!(
            "w{}@{}us r{}@{}us rb{} sb{}",
            self.write_seg, self.write_pause_us, self.read_chunk, self.read_pause_us, self.rcvbuf, self.sndbuf
        )
    }
}

/// connect a TCP client, optionally from a chosen source address, applying the program's buffers
pub fn connect(target: SocketAddr, bind_ip: Option<IpAddr>, prog: &IoProgram, timeout: Duration) -> io::Result<TcpStream> {
    let domain = if target.is_ipv4() { Domain::IPV4 } else { Domain::IPV6 };
    let sock = Socket::new(domain, Type::STREAM, Some(Protocol::TCP))?;
    if prog.rcvbuf > 0 {
        let _ = sock.set_recv_buffer_size(prog.rcvbuf);
    }
    if prog.sndbuf > 0 {
        let _ = sock.set_send_buffer_size(prog.sndbuf);
    }
    if let Some(ip) = bind_ip {
        sock.bind(&SocketAddr::new(ip, 0).into())?;
    }
    sock.connect_timeout(&target.into(), timeout)?;
    sock.set_tcp_nodelay(true)?;
    Ok(sock.into())
}

/// write `data` according to the program; returns bytes written (short on error)
pub fn paced_write(stream: &mut TcpStream, data: &[u8], prog: &IoProgram, deadline: Instant) -> io::Result<usize> {
    let seg = if prog.write_seg == 0 { data.len().max(1) } else { prog.write_seg };
    let mut off = 0;
    while off < data.len() {
        let end = (off + seg).min(data.len());
        let left = deadline.saturating_duration_since(Instant::now());
        if left.is_zero() {
            return Err(io::Error::new(io::ErrorKind::TimedOut, "write deadline"));
        }
        stream.set_write_timeout(Some(left.max(Duration::from_millis(1))))?;
        match stream.write(&data[off..end]) {
            Ok(0) => return Err(io::Error::new(io::ErrorKind::WriteZero, "write returned 0")),
            Ok(n) => off += n,
            Err(e) if e.kind() == io::ErrorKind::Interrupted => continue,
            Err(e) if e.kind() == io::ErrorKind::WouldBlock || e.kind() == io::ErrorKind::TimedOut => {
                return Err(io::Error::new(io::ErrorKind::TimedOut, "write deadline"));
            }
            Err(e) => return Err(e),
        }
        if prog.write_pause_us > 0 && off < data.len() {
            std::thread::sleep(Duration::from_micros(prog.write_pause_us));
        }
    }
    Ok(off)
}

/// one read according to the program; Ok(0) = EOF; Err(TimedOut) when nothing arrived in `wait`
pub fn paced_read(stream: &mut TcpStream, buf: &mut [u8], prog: &IoProgram, wait: Duration) -> io::Result<usize> {
    let chunk = if prog.read_chunk == 0 { buf.len() } else { prog.read_chunk.min(buf.len()) };
    stream.set_read_timeout(Some(wait.max(Duration::from_millis(1))))?;
    loop {
        match stream.read(&mut buf[..chunk]) {
            Ok(n) => {
                if prog.read_pause_us > 0 && n > 0 {
                    std::thread::sleep(Duration::from_micros(prog.read_pause_us));
                }
                return Ok(n);
            }
            Err(e) if e.kind() == io::ErrorKind::Interrupted => continue,
            Err(e) if e.kind() == io::ErrorKind::WouldBlock || e.kind() == io::ErrorKind::TimedOut => {
                return Err(io::Error::new(io::ErrorKind::TimedOut, "read wait elapsed"));
            }
            Err(e) => return Err(e),
        }
    }
}

/// abortive close (RST) of a TCP stream
pub fn reset(stream: TcpStream) {
    let sock = Socket::from(stream);
    let _ = sock.set_linger(Some(Duration::ZERO));
    drop(sock);
}

pub fn half_close(stream: &TcpStream) {
    let _ = stream.shutdown(Shutdown::Write);
}

/// A scripted backend: accepts on `addr`, runs `handler(stream, connection_index)` in a thread
/// per connection. Dropping (or `stop`) closes the listener; connection threads end with their
/// handlers.
pub struct BackendServer {
    pub addr: SocketAddr,
    stop: Arc<AtomicBool>,
    pub accepted: Arc<AtomicUsize>,
    thread: Option<JoinHandle<()>>,
}

impl BackendServer {
    pub fn start<F>(addr: SocketAddr, prog: IoProgram, handler: F) -> io::Result<BackendServer>
    where
        F: Fn(TcpStream, usize) + Send + Sync + 'static,
    {
        let domain = if addr.is_ipv4() { Domain::IPV4 } else { Domain::IPV6 };
        let sock = Socket::new(domain, Type::STREAM, Some(Protocol::TCP))?;
        sock.set_reuse_address(true)?;
        // buffer sizes set on the listener are inherited by accepted sockets
        if prog.rcvbuf > 0 {
            let _ = sock.set_recv_buffer_size(prog.rcvbuf);
        }
        if prog.sndbuf > 0 {
            let _ = sock.set_send_buffer_size(prog.sndbuf);
        }
        sock.bind(&addr.into())?;
        sock.listen(1024)?;
        let listener: TcpListener = sock.into();
        listener.set_nonblocking(true)?;
        let stop = Arc::new(AtomicBool::new(false));
        let accepted = Arc::new(AtomicUsize::new(0));
        let handler = Arc::new(handler);
        let t_stop = stop.clone();
        let t_acc = accepted.clone();
        let thread = std::thread::Builder::new()
            .name(format!("backend-{addr}"))
            .spawn(move || {
                while !t_stop.load(Ordering::SeqCst) {
                    match listener.accept() {
                        Ok((stream, _)) => {
                            let _ = stream.set_nonblocking(false);
                            let _ = stream.set_nodelay(true);
                            let idx = t_acc.fetch_add(1, Ordering::SeqCst);
                            let h = handler.clone();
                            let _ = std::thread::Builder::new()
                                .name(format!("backend-conn-{addr}-{idx}"))
                                .spawn(move || h(stream, idx));
                        }
                        Err(e) if e.kind() == io::ErrorKind::WouldBlock => {
                            std::thread::sleep(Duration::from_millis(1));
                        }
                        Err(_) => std::thread::sleep(Duration::from_millis(1)),
                    }
                }
            })?;
        Ok(BackendServer {
            addr,
            stop,
            accepted,
            thread: Some(thread),
        })
    }

    pub fn stop(&mut self) {
        self.stop.store(true, Ordering::SeqCst);
        if let Some(t) = self.thread.take() {
            let _ = t.join();
        }
    }
}

impl Drop for BackendServer {
    fn drop(&mut self) {
        self.stop();
    }
}
