//! TLS client on rustls (ring provider) that accepts any server certificate and records the
//! chain that was presented, so monitors can judge *which* certificate sozu served.

use std::{
    io::{self, Read, Write},
    net::TcpStream,
    sync::Arc,
    time::Duration,
};

use rustls::{
    ClientConfig, ClientConnection, DigitallySignedStruct, SignatureScheme, StreamOwned,
    client::danger::{HandshakeSignatureValid, ServerCertVerified, ServerCertVerifier},
    pki_types::{CertificateDer, ServerName, UnixTime},
};

#[derive(Debug)]
struct AcceptAny(Vec<SignatureScheme>);

impl ServerCertVerifier for AcceptAny {
    fn verify_server_cert(
        &self,
        _end_entity: &CertificateDer<'_>,
        _intermediates: &[CertificateDer<'_>],
        _server_name: &ServerName<'_>,
        _ocsp: &[u8],
        _now: UnixTime,
    ) -> Result<ServerCertVerified, rustls::Error> {
        Ok(ServerCertVerified::assertion())
    }
    fn verify_tls12_signature(
        &self,
        _message: &[u8],
        _cert: &CertificateDer<'_>,
        _dss: &DigitallySignedStruct,
    ) -> Result<HandshakeSignatureValid, rustls::Error> {
        Ok(HandshakeSignatureValid::assertion())
    }
    fn verify_tls13_signature(
        &self,
        _message: &[u8],
        _cert: &CertificateDer<'_>,
        _dss: &DigitallySignedStruct,
    ) -> Result<HandshakeSignatureValid, rustls::Error> {
        Ok(HandshakeSignatureValid::assertion())
    }
    fn supported_verify_schemes(&self) -> Vec<SignatureScheme> {
        self.0.clone()
    }
}

/// client configuration offering the given ALPN protocols (e.g. `["h2"]`, `["http/1.1"]`)
pub fn client_config(alpn: &[&str]) -> Arc<ClientConfig> {
    let provider = Arc::new(rustls::crypto::ring::default_provider());
    let schemes = provider.signature_verification_algorithms.supported_schemes();
    let mut cfg = ClientConfig::builder_with_provider(provider)
        .with_safe_default_protocol_versions()
        .expect("protocol versions")
        .dangerous()
        .with_custom_certificate_verifier(Arc::new(AcceptAny(schemes)))
        .with_no_client_auth();
    cfg.alpn_protocols = alpn.iter().map(|p| p.as_bytes().to_vec()).collect();
    Arc::new(cfg)
}

pub struct TlsClient {
    pub stream: StreamOwned<ClientConnection, TcpStream>,
}

#[derive(Clone, Debug)]
pub struct HandshakeInfo {
    /// DER of every certificate of the presented chain, leaf first
    pub chain: Vec<Vec<u8>>,
    pub alpn: Option<Vec<u8>>,
}

impl TlsClient {
    /// run the handshake to completion over an established TCP stream. `sni` None = no SNI
    /// extension (rustls needs a name: an IP address literal makes it omit the extension).
    pub fn handshake(
        tcp: TcpStream,
        sni: &str,
        config: Arc<ClientConfig>,
        timeout: Duration,
    ) -> io::Result<(TlsClient, HandshakeInfo)> {
        let name = ServerName::try_from(sni.to_owned())
            .map_err(|e| io::Error::new(io::ErrorKind::InvalidInput, format!("{e}")))?;
        let conn = ClientConnection::new(config, name)
            .map_err(|e| io::Error::new(io::ErrorKind::Other, format!("{e}")))?;
        tcp.set_read_timeout(Some(timeout))?;
        tcp.set_write_timeout(Some(timeout))?;
        let mut stream = StreamOwned::new(conn, tcp);
        while stream.conn.is_handshaking() {
            stream
                .conn
                .complete_io(&mut stream.sock)
                .map_err(|e| io::Error::new(e.kind(), format!("handshake: {e}")))?;
        }
        let chain = stream
            .conn
            .peer_certificates()
            .map(|c| c.iter().map(|d| d.as_ref().to_vec()).collect())
            .unwrap_or_default();
        let alpn = stream.conn.alpn_protocol().map(|p| p.to_vec());
        Ok((TlsClient { stream }, HandshakeInfo { chain, alpn }))
    }

    pub fn set_timeouts(&mut self, read: Duration, write: Duration) {
        let _ = self.stream.sock.set_read_timeout(Some(read.max(Duration::from_millis(1))));
        let _ = self.stream.sock.set_write_timeout(Some(write.max(Duration::from_millis(1))));
    }
}

impl Read for TlsClient {
    fn read(&mut self, buf: &mut [u8]) -> io::Result<usize> {
        self.stream.read(buf)
    }
}

impl Write for TlsClient {
    fn write(&mut self, buf: &[u8]) -> io::Result<usize> {
        self.stream.write(buf)
    }
    fn flush(&mut self) -> io::Result<()> {
        self.stream.flush()
    }
}
