//! `vh` - verification harness for sozu: one sub-command per monitor.
//!
//! usage: vh <check> [--tier quick|thorough] [--seed N] [--replay file] [--threads N]
//!           [--budget seconds] [--opt k=v ...]

#![allow(dead_code, unused_imports)]
mod c01_bodies;
mod c02_answers;
mod c03_smuggling;
mod c04_router;
mod c05_roundtrip;
mod c06_diff;
mod c07_rejected;
mod c08_worker;
mod c09_hub;
mod c10_handover;
mod c11_channel;
mod c12_backends;
mod c13_headers;
mod c14_h2limits;
mod c15_h2hostile;
mod c16_resources;
mod c17_tls;
mod c18_tcp;
mod c19_udp;
mod c20_configfile;
mod common;
mod lab;
mod peers;
mod smoke;

use std::{collections::BTreeMap, path::PathBuf, time::{Duration, Instant}};

use common::{Ctx, Report, Tier};

fn dispatch(name: &str, ctx: &Ctx) -> Option<Report> {
    Some(match name {
        "C01" => c01_bodies::run(ctx),
        "C02" => c02_answers::run(ctx),
        "C03" => c03_smuggling::run(ctx),
        "C04" => c04_router::run(ctx),
        "C05" => c05_roundtrip::run(ctx),
        "C06" => c06_diff::run(ctx),
        "C07" => c07_rejected::run(ctx),
        "C08" => c08_worker::run(ctx),
        "C09" => c09_hub::run(ctx),
        "C10" => c10_handover::run(ctx),
        "C11" => c11_channel::run(ctx),
        "C12" => c12_backends::run(ctx),
        "C13" => c13_headers::run(ctx),
        "C14" => c14_h2limits::run(ctx),
        "C15" => c15_h2hostile::run(ctx),
        "C16" => c16_resources::run(ctx),
        "C17" => c17_tls::run(ctx),
        "C18" => c18_tcp::run(ctx),
        "C19" => c19_udp::run(ctx),
        "C20" => c20_configfile::run(ctx),
        "smoke" => smoke::run(ctx),
        _ => return None,
    })
}

fn fd_soft_limit() -> u64 {
    let mut lim = libc::rlimit { rlim_cur: 0, rlim_max: 0 };
    if unsafe { libc::getrlimit(libc::RLIMIT_NOFILE, &mut lim) } == 0 {
        lim.rlim_cur as u64
    } else {
        1024
    }
}

fn main() {
    let args: Vec<String> = std::env::args().collect();
    if args.len() < 2 {
        eprintln!("usage: vh <check> [--tier quick|thorough] [--seed N] [--replay file] [--threads N] [--budget s] [--opt k=v]");
        std::process::exit(2);
    }
    let name = args[1].clone();
    let mut tier = match std::env::var("VERIF_TIER").ok().as_deref() {
        Some("thorough") => Tier::Thorough,
        _ => Tier::Quick,
    };
    let mut seed: u64 = std::env::var("VERIF_SEED")
        .ok()
        .and_then(|s| s.trim().parse::<i64>().ok())
        .map(|v| v as u64)
        .unwrap_or(20260925);
    let mut replay = None;
    let mut threads = std::thread::available_parallelism().map(|n| n.get()).unwrap_or(8);
    let mut budget: Option<u64> = None;
    let mut opts = BTreeMap::new();
    let mut prop = name.clone();
    let mut i = 2;
    while i < args.len() {
        let a = args[i].as_str();
        let v = args.get(i + 1).cloned();
        match a {
            "--tier" => {
                tier = if v.as_deref() == Some("thorough") { Tier::Thorough } else { Tier::Quick };
                i += 1;
            }
            "--seed" => {
                seed = v.and_then(|s| s.parse::<i64>().ok()).map(|x| x as u64).unwrap_or(seed);
                i += 1;
            }
            "--replay" => {
                replay = v.map(PathBuf::from);
                i += 1;
            }
            "--threads" => {
                threads = v.and_then(|s| s.parse().ok()).unwrap_or(threads);
                i += 1;
            }
            "--budget" => {
                budget = v.and_then(|s| s.parse().ok());
                i += 1;
            }
            "--prop" => {
                prop = v.unwrap_or(prop);
                i += 1;
            }
            "--opt" => {
                if let Some(kv) = v {
                    if let Some((k, val)) = kv.split_once('=') {
                        opts.insert(k.to_owned(), val.to_owned());
                    }
                }
                i += 1;
            }
            other => {
                eprintln!("unknown argument {other}");
                std::process::exit(2);
            }
        }
        i += 1;
    }
    let root = std::env::var("VERIF_ROOT").map(PathBuf::from).unwrap_or_else(|_| PathBuf::from("/verif"));
    let budget = Duration::from_secs(budget.unwrap_or(match tier {
        Tier::Quick => 75,
        Tier::Thorough => 900,
    }));
    // File descriptors bound how many cells (worker + peers) can run at once: raise the soft limit
    // to the hard one and, on a small limit, run fewer cells rather than exhaust descriptors (an
    // accept() failing with EMFILE inside sozu would look like a deaf listener).
    lab::raise_fd_limit();
    let fd_limit = fd_soft_limit();
    if fd_limit < 8_192 {
        threads = threads.min(((fd_limit / 256) as usize).max(4));
    }
    opts.entry("fd_limit".to_owned()).or_insert_with(|| fd_limit.to_string());
    let ctx = Ctx {
        prop,
        tier,
        seed,
        replay,
        root,
        threads,
        started: Instant::now(),
        budget,
        opts,
    };
    common::par::install_panic_hook();
    match dispatch(&name, &ctx) {
        Some(report) => {
            let code = report.finish(&ctx);
            std::process::exit(code);
        }
        None => {
            eprintln!("no such check: {name}");
            std::process::exit(2);
        }
    }
}
