//! xoshiro256** seeded through splitmix64. All randomness of the harness comes from here.

#[derive(Clone, Debug)]
pub struct Rng {
    s: [u64; 4],
}

pub fn splitmix64(x: &mut u64) -> u64 {
    *x = x.wrapping_add(0x9E37_79B9_7F4A_7C15);
    let mut z = *x;
    z = (z ^ (z >> 30)).wrapping_mul(0xBF58_476D_1CE4_E5B9);
    z = (z ^ (z >> 27)).wrapping_mul(0x94D0_49BB_1331_11EB);
    z ^ (z >> 31)
}

impl Rng {
    pub fn new(seed: u64) -> Rng {
        let mut x = seed;
        let s = [
            splitmix64(&mut x),
            splitmix64(&mut x),
            splitmix64(&mut x),
            splitmix64(&mut x),
        ];
        Rng { s }
    }

    /// generator for case `n` of run `seed`, optionally namespaced by `stream`
    pub fn for_case(seed: u64, stream: u64, n: u64) -> Rng {
        let mut x = seed ^ stream.wrapping_mul(0xD6E8_FEB8_6659_FD93);
        let a = splitmix64(&mut x);
        let mut y = a ^ n.wrapping_mul(0x9E37_79B9_7F4A_7C15);
        Rng::new(splitmix64(&mut y))
    }

    pub fn next_u64(&mut self) -> u64 {
        let result = self.s[1].wrapping_mul(5).rotate_left(7).wrapping_mul(9);
        let t = self.s[1] << 17;
        self.s[2] ^= self.s[0];
        self.s[3] ^= self.s[1];
        self.s[1] ^= self.s[2];
        self.s[0] ^= self.s[3];
        self.s[2] ^= t;
        self.s[3] = self.s[3].rotate_left(45);
        result
    }

    /// uniform in 0..n (n > 0)
    pub fn below(&mut self, n: u64) -> u64 {
        debug_assert!(n > 0);
        ((self.next_u64() as u128 * n as u128) >> 64) as u64
    }

    pub fn usize_below(&mut self, n: usize) -> usize {
        self.below(n as u64) as usize
    }

    /// uniform in lo..=hi
    pub fn range(&mut self, lo: u64, hi: u64) -> u64 {
        lo + self.below(hi - lo + 1)
    }

    pub fn urange(&mut self, lo: usize, hi: usize) -> usize {
        self.range(lo as u64, hi as u64) as usize
    }

    pub fn chance(&mut self, num: u64, den: u64) -> bool {
        self.below(den) < num
    }

    pub fn bool(&mut self) -> bool {
        self.next_u64() & 1 == 1
    }

    pub fn pick<'a, T>(&mut self, items: &'a [T]) -> &'a T {
        &items[self.usize_below(items.len())]
    }

    pub fn shuffle<T>(&mut self, items: &mut [T]) {
        for i in (1..items.len()).rev() {
            let j = self.usize_below(i + 1);
            items.swap(i, j);
        }
    }

    pub fn bytes(&mut self, n: usize) -> Vec<u8> {
        let mut v = Vec::with_capacity(n);
        while v.len() < n {
            let x = self.next_u64().to_le_bytes();
            let take = (n - v.len()).min(8);
            v.extend_from_slice(&x[..take]);
        }
        v
    }

    /// a size biased towards the given boundaries (±2) and otherwise log-uniform up to max
    pub fn boundary_size(&mut self, boundaries: &[usize], max: usize) -> usize {
        if !boundaries.is_empty() && self.chance(3, 5) {
            let b = *self.pick(boundaries) as i64;
            let d = self.range(0, 4) as i64 - 2;
            return (b + d).clamp(0, max as i64) as usize;
        }
        if max == 0 {
            return 0;
        }
        let bits = 64 - (max as u64).leading_zeros() as u64;
        let b = self.range(0, bits);
        let hi = if b >= 63 { u64::MAX } else { (1u64 << b).saturating_sub(0) };
        (self.below(hi.max(1)) as usize).min(max)
    }
}

/// Self-describing payloads: byte i of message `id` is keystream(id)[i]
pub fn keystream_byte(id: u64, i: u64) -> u8 {
    // one splitmix per 8-byte block: cheap, seekable
    let mut x = id.wrapping_mul(0xA076_1D64_78BD_642F) ^ (i >> 3);
    let v = splitmix64(&mut x);
    (v >> ((i & 7) * 8)) as u8
}

pub fn keystream(id: u64, off: u64, len: usize) -> Vec<u8> {
    (0..len as u64).map(|k| keystream_byte(id, off + k)).collect()
}

/// first offset at which `data` (claimed to start at `off` of message `id`) differs
pub fn keystream_mismatch(id: u64, off: u64, data: &[u8]) -> Option<usize> {
    data.iter()
        .enumerate()
        .find(|(k, b)| **b != keystream_byte(id, off + *k as u64))
        .map(|(k, _)| k)
}

pub fn fnv1a(data: &[u8]) -> u64 {
    let mut h: u64 = 0xcbf2_9ce4_8422_2325;
    for b in data {
        h ^= *b as u64;
        h = h.wrapping_mul(0x0000_0100_0000_01B3);
    }
    h
}
