//! Verdict bookkeeping shared by all monitors: three-valued verdicts, known findings,
//! replay files, evidence files, exit codes.

use std::{
    collections::{BTreeMap, BTreeSet, HashSet},
    path::PathBuf,
    time::{Duration, Instant},
};

use serde_json::{Map, Value, json};

use super::rng::fnv1a;

#[derive(Clone, Copy, Debug, PartialEq, Eq)]
pub enum Tier {
    Quick,
    Thorough,
}

impl Tier {
    pub fn name(self) -> &'static str {
        match self {
            Tier::Quick => "quick",
            Tier::Thorough => "thorough",
        }
    }
    /// pick the quick or the thorough value
    pub fn pick<T>(self, quick: T, thorough: T) -> T {
        match self {
            Tier::Quick => quick,
            Tier::Thorough => thorough,
        }
    }
}

#[derive(Clone, Debug)]
pub struct Ctx {
    pub prop: String,
    pub tier: Tier,
    pub seed: u64,
    pub replay: Option<PathBuf>,
    pub root: PathBuf,
    pub threads: usize,
    pub started: Instant,
    /// soft wall-clock budget for the generation loop (cases stop being *started* after it)
    pub budget: Duration,
    /// free-form options (`--opt k=v`)
    pub opts: BTreeMap<String, String>,
}

impl Ctx {
    pub fn out_of_time(&self) -> bool {
        self.started.elapsed() > self.budget
    }
    pub fn opt_u64(&self, key: &str, default: u64) -> u64 {
        self.opts
            .get(key)
            .and_then(|v| v.parse().ok())
            .unwrap_or(default)
    }
    pub fn opt(&self, key: &str) -> Option<&str> {
        self.opts.get(key).map(|s| s.as_str())
    }
}

#[derive(Clone, Debug)]
pub struct Violation {
    /// exact structured key; known findings match on it
    pub signature: String,
    pub what: String,
    pub witness: Value,
}

#[derive(Clone, Debug, Default)]
pub struct Report {
    pub level: String,
    pub rule: String,
    pub evaluations: u64,
    pub inconclusive: u64,
    pub inconclusive_reasons: BTreeMap<String, u64>,
    distinct: HashSet<u64>,
    pub samples: Vec<Value>,
    pub observed: BTreeMap<String, u64>,
    pub required: BTreeSet<String>,
    pub extra: Map<String, Value>,
    pub violations: Vec<Violation>,
    pub assumptions: Vec<String>,
    pub exhaustive: Option<bool>,
    pub broken: Vec<String>,
    pub max_samples: usize,
}

impl Report {
    pub fn new(level: &str, rule: &str) -> Report {
        Report {
            level: level.to_owned(),
            rule: rule.to_owned(),
            max_samples: 6,
            ..Default::default()
        }
    }

    /// a fresh accumulator with the same static description (for worker threads)
    pub fn fork(&self) -> Report {
        Report {
            level: self.level.clone(),
            rule: self.rule.clone(),
            max_samples: self.max_samples,
            ..Default::default()
        }
    }

    /// one explored case; `fingerprint` identifies its shape, `nontrivial` per the stated rule
    pub fn case(&mut self, fingerprint: u64, nontrivial: bool) {
        self.evaluations += 1;
        if nontrivial {
            self.distinct.insert(fingerprint);
        }
    }

    pub fn case_bytes(&mut self, shape: &[u8], nontrivial: bool) {
        self.case(fnv1a(shape), nontrivial)
    }

    pub fn obs(&mut self, key: &str, n: u64) {
        *self.observed.entry(key.to_owned()).or_insert(0) += n;
    }

    /// running maximum, stored under `max:<key>`
    pub fn obs_max(&mut self, key: &str, n: u64) {
        let e = self.observed.entry(format!("max:{key}")).or_insert(0);
        if n > *e {
            *e = n;
        }
    }

    /// the run is broken (exit 2) unless `key` was observed at least once
    pub fn require(&mut self, key: &str) {
        self.required.insert(key.to_owned());
        self.observed.entry(key.to_owned()).or_insert(0);
    }

    pub fn sample(&mut self, v: Value) {
        if self.samples.len() < self.max_samples {
            self.samples.push(v);
        }
    }

    pub fn inconclusive(&mut self, reason: &str) {
        self.inconclusive += 1;
        *self
            .inconclusive_reasons
            .entry(reason.to_owned())
            .or_insert(0) += 1;
    }

    pub fn violation(&mut self, signature: &str, what: &str, witness: Value) {
        // keep at most 3 witnesses per signature, count the rest
        let same = self
            .violations
            .iter()
            .filter(|v| v.signature == signature)
            .count();
        self.obs(&format!("violation:{signature}"), 1);
        if same < 3 {
            self.violations.push(Violation {
                signature: signature.to_owned(),
                what: what.to_owned(),
                witness,
            });
        }
    }

    pub fn broken(&mut self, why: &str) {
        if self.broken.len() < 20 {
            self.broken.push(why.to_owned());
        }
    }

    pub fn assume(&mut self, a: &str) {
        if !self.assumptions.iter().any(|x| x == a) {
            self.assumptions.push(a.to_owned());
        }
    }

    pub fn set(&mut self, key: &str, v: Value) {
        self.extra.insert(key.to_owned(), v);
    }

    pub fn merge(&mut self, other: Report) {
        self.evaluations += other.evaluations;
        self.inconclusive += other.inconclusive;
        for (k, v) in other.inconclusive_reasons {
            *self.inconclusive_reasons.entry(k).or_insert(0) += v;
        }
        self.distinct.extend(other.distinct);
        for s in other.samples {
            if self.samples.len() < self.max_samples {
                self.samples.push(s);
            }
        }
        for (k, v) in other.observed {
            if k.starts_with("max:") {
                let e = self.observed.entry(k).or_insert(0);
                if v > *e {
                    *e = v;
                }
            } else {
                *self.observed.entry(k).or_insert(0) += v;
            }
        }
        self.required.extend(other.required);
        for (k, v) in other.extra {
            self.extra.insert(k, v);
        }
        for v in other.violations {
            let same = self
                .violations
                .iter()
                .filter(|x| x.signature == v.signature)
                .count();
            if same < 3 {
                self.violations.push(v);
            }
        }
        for a in other.assumptions {
            self.assume(&a);
        }
        for b in other.broken {
            self.broken(&b);
        }
        if other.exhaustive == Some(false) {
            self.exhaustive = Some(false);
        } else if self.exhaustive.is_none() {
            self.exhaustive = other.exhaustive;
        }
    }

    pub fn distinct_count(&self) -> usize {
        self.distinct.len()
    }

    /// classify against the known findings, write replays and evidence, print the verdict
    /// lines, return the exit code (0 held, 1 violation, 2 broken/inconclusive)
    pub fn finish(mut self, ctx: &Ctx) -> i32 {
        let known = load_known(ctx);
        let mut by_sig: BTreeMap<String, Vec<&Violation>> = BTreeMap::new();
        for v in &self.violations {
            by_sig.entry(v.signature.clone()).or_default().push(v);
        }
        let mut new_violations = 0i64;
        let mut known_seen = Vec::new();
        let mut lines = Vec::new();
        let replay_dir = ctx.root.join("replays");
        for (sig, vs) in &by_sig {
            let prop_sig = format!("{}/{}", ctx.prop, sig);
            if let Some(what) = known.get(&prop_sig) {
                let n = self
                    .observed
                    .get(&format!("violation:{sig}"))
                    .copied()
                    .unwrap_or(vs.len() as u64);
                lines.push(format!(
                    "KNOWN-FINDING: property={} {} [{}; seen {} time(s) this run]",
                    ctx.prop, what, sig, n
                ));
                known_seen.push(json!({"signature": sig, "count": n}));
            } else {
                new_violations += 1;
                let _ = std::fs::create_dir_all(&replay_dir);
                let path = replay_dir.join(format!(
                    "{}-{:016x}.json",
                    ctx.prop,
                    fnv1a(sig.as_bytes())
                ));
                let body = json!({
                    "property": ctx.prop,
                    "signature": sig,
                    "what": vs[0].what,
                    "tier": ctx.tier.name(),
                    "seed": ctx.seed,
                    "opts": ctx.opts,
                    "witnesses": vs.iter().map(|v| v.witness.clone()).collect::<Vec<_>>(),
                });
                let _ = std::fs::write(
                    &path,
                    serde_json::to_string_pretty(&body).unwrap_or_default(),
                );
                lines.push(format!("   what: {} [{}]", vs[0].what, sig));
                lines.push(format!(
                    "VIOLATION property={} replay={}",
                    ctx.prop,
                    path.display()
                ));
            }
        }

        for key in &self.required {
            if self.observed.get(key).copied().unwrap_or(0) == 0 {
                self.broken
                    .push(format!("monitor observed nothing for required event '{key}'"));
            }
        }
        if self.evaluations == 0 {
            self.broken.push("no case was evaluated".to_owned());
        }
        if ctx.replay.is_none() && self.samples.is_empty() {
            self.broken
                .push("no sample case was written out (the evidence schema needs at least one)".to_owned());
        }
        if ctx.replay.is_none() && self.distinct.len() < 2 {
            self.broken
                .push("fewer than 2 distinct non-trivial cases were explored".to_owned());
        }
        if self.inconclusive * 20 > self.evaluations.max(1) {
            self.broken.push(format!(
                "inconclusive share too high: {} of {}",
                self.inconclusive, self.evaluations
            ));
        }

        // evidence (replay runs do not overwrite the evidence of the last full run)
        if ctx.replay.is_none() {
            let mut coverage = Map::new();
            coverage.insert("evaluations".into(), json!(self.evaluations));
            coverage.insert("distinct_nontrivial".into(), json!(self.distinct.len()));
            coverage.insert("rule".into(), json!(self.rule));
            coverage.insert("samples".into(), Value::Array(self.samples.clone()));
            coverage.insert("inconclusive".into(), json!(self.inconclusive));
            if !self.inconclusive_reasons.is_empty() {
                coverage.insert(
                    "inconclusive_reasons".into(),
                    json!(self.inconclusive_reasons),
                );
            }
            coverage.insert("observed".into(), json!(self.observed));
            if let Some(e) = self.exhaustive {
                coverage.insert("exhaustive".into(), json!(e));
            }
            if !known_seen.is_empty() {
                coverage.insert("known_findings_seen".into(), Value::Array(known_seen));
            }
            if !self.broken.is_empty() {
                coverage.insert("broken".into(), json!(self.broken));
            }
            for (k, v) in &self.extra {
                coverage.insert(k.clone(), v.clone());
            }
            let evidence = json!({
                "property_id": ctx.prop,
                "tier": ctx.tier.name(),
                "seed": ctx.seed,
                "level": self.level,
                "coverage": Value::Object(coverage),
                "assumptions": self.assumptions,
                "wall_s": (ctx.started.elapsed().as_millis() as f64) / 1000.0,
                "violations": new_violations,
            });
            let dir = ctx.root.join("evidence");
            let _ = std::fs::create_dir_all(&dir);
            let path = dir.join(format!("{}.json", ctx.prop));
            if let Err(e) = std::fs::write(
                &path,
                serde_json::to_string_pretty(&evidence).unwrap_or_default() + "\n",
            ) {
                self.broken.push(format!("cannot write evidence: {e}"));
            }
        }

        for l in &lines {
            println!("{l}");
        }
        println!(
            "{} {}: evaluations={} distinct_nontrivial={} inconclusive={} new_violations={} wall={:.1}s",
            ctx.prop,
            ctx.tier.name(),
            self.evaluations,
            self.distinct.len(),
            self.inconclusive,
            new_violations,
            ctx.started.elapsed().as_secs_f64()
        );
        if new_violations > 0 {
            return 1;
        }
        if !self.broken.is_empty() {
            for b in &self.broken {
                println!("BROKEN-CHECK property={} {}", ctx.prop, b);
            }
            return 2;
        }
        0
    }
}

/// `<prop>/<signature>` -> what, for entries with status "known" only
fn load_known(ctx: &Ctx) -> BTreeMap<String, String> {
    let mut out = BTreeMap::new();
    let path = ctx.root.join("known_findings.json");
    let Ok(text) = std::fs::read_to_string(&path) else {
        return out;
    };
    let Ok(v) = serde_json::from_str::<Value>(&text) else {
        eprintln!("known_findings.json does not parse; ignoring it");
        return out;
    };
    if let Some(list) = v.get("findings").and_then(|f| f.as_array()) {
        for f in list {
            let status = f.get("status").and_then(|s| s.as_str()).unwrap_or("");
            if status != "known" {
                continue;
            }
            if let (Some(p), Some(s), Some(w)) = (
                f.get("property").and_then(|s| s.as_str()),
                f.get("signature").and_then(|s| s.as_str()),
                f.get("what").and_then(|s| s.as_str()),
            ) {
                out.insert(format!("{p}/{s}"), w.to_owned());
            }
        }
    }
    out
}
