pub mod par;
pub mod report;
pub mod rng;

pub use par::{PanicRec, guard, par_cases, par_cases_named};
pub use report::{Ctx, Report, Tier, Violation};
pub use rng::Rng;
