//! Parallel case runner and panic attribution.

use std::{
    collections::HashMap,
    panic::{AssertUnwindSafe, catch_unwind},
    sync::{
        Mutex, OnceLock,
        atomic::{AtomicU64, Ordering},
    },
};

use super::report::{Ctx, Report};

#[derive(Clone, Debug)]
pub struct PanicRec {
    pub thread: String,
    pub location: String,
    pub message: String,
}

impl PanicRec {
    /// a panic raised by code under /repo (sozu) rather than by the harness or a dependency
    pub fn in_sozu(&self) -> bool {
        self.location.starts_with(&sozu_root())
    }
    pub fn signature(&self) -> String {
        // file:line without the column, stable enough to key a finding on
        let mut parts = self.location.rsplitn(2, ':');
        let _col = parts.next();
        let file_line = parts.next().unwrap_or(&self.location);
        format!("panic@{}", file_line.trim_start_matches(sozu_root().as_str()))
    }
}

/// where the sozu sources under test live: /repo/, or $VH_SOZU_ROOT when the harness was built
/// against a scratch copy (mutation testing)
pub fn sozu_root() -> String {
    let mut r = std::env::var("VH_SOZU_ROOT").unwrap_or_else(|_| "/repo/".to_owned());
    if !r.ends_with('/') {
        r.push('/');
    }
    r
}

fn panics() -> &'static Mutex<HashMap<String, Vec<PanicRec>>> {
    static P: OnceLock<Mutex<HashMap<String, Vec<PanicRec>>>> = OnceLock::new();
    P.get_or_init(|| Mutex::new(HashMap::new()))
}

fn thread_key() -> String {
    let t = std::thread::current();
    match t.name() {
        Some(n) => n.to_owned(),
        None => format!("{:?}", t.id()),
    }
}

/// record every panic (thread, location, message) instead of printing a backtrace
pub fn install_panic_hook() {
    std::panic::set_hook(Box::new(|info| {
        let location = info
            .location()
            .map(|l| format!("{}:{}:{}", l.file(), l.line(), l.column()))
            .unwrap_or_else(|| "<unknown>".to_owned());
        let message = if let Some(s) = info.payload().downcast_ref::<&str>() {
            (*s).to_owned()
        } else if let Some(s) = info.payload().downcast_ref::<String>() {
            s.clone()
        } else {
            "<non-string panic payload>".to_owned()
        };
        let rec = PanicRec {
            thread: thread_key(),
            location,
            message,
        };
        if std::env::var_os("VH_PANIC_TRACE").is_some() {
            eprintln!("panic in {}: {} at {}", rec.thread, rec.message, rec.location);
        }
        let mut p = panics().lock().unwrap_or_else(|e| e.into_inner());
        p.entry(rec.thread.clone()).or_default().push(rec);
    }));
}

/// panics recorded for the thread called `name` (and forget them)
pub fn take_panics(name: &str) -> Vec<PanicRec> {
    let mut p = panics().lock().unwrap_or_else(|e| e.into_inner());
    p.remove(name).unwrap_or_default()
}

/// run `f`, turning a panic into the recorded PanicRec
pub fn guard<T>(f: impl FnOnce() -> T) -> Result<T, PanicRec> {
    match catch_unwind(AssertUnwindSafe(f)) {
        Ok(v) => Ok(v),
        Err(_) => {
            let mut recs = take_panics(&thread_key());
            Err(recs.pop().unwrap_or(PanicRec {
                thread: thread_key(),
                location: "<unknown>".to_owned(),
                message: "<unrecorded panic>".to_owned(),
            }))
        }
    }
}

/// Run cases 0..n on `ctx.threads` threads. Each thread owns a forked Report; case i is handed
/// to `f(i, &mut report)`. Stops starting cases once the budget is spent. A panic inside `f`
/// that `f` did not handle itself is attributed: under /repo => violation "panic@file:line",
/// elsewhere => broken check.
pub fn par_cases<F>(ctx: &Ctx, base: &mut Report, n: u64, f: F)
where
    F: Fn(u64, &mut Report) + Sync,
{
    par_cases_named(ctx, base, n, "case", f)
}

pub fn par_cases_named<F>(ctx: &Ctx, base: &mut Report, n: u64, label: &str, f: F)
where
    F: Fn(u64, &mut Report) + Sync,
{
    let next = AtomicU64::new(0);
    let threads = ctx.threads.max(1);
    let results: Vec<Report> = std::thread::scope(|s| {
        let mut handles = Vec::new();
        for t in 0..threads {
            let next = &next;
            let f = &f;
            let mut rep = base.fork();
            let b = std::thread::Builder::new().name(format!("vh-{label}-{t}"));
            handles.push(
                b.spawn_scoped(s, move || {
                    loop {
                        if ctx.out_of_time() {
                            rep.exhaustive = Some(false);
                            rep.obs("cases_not_started_budget_exhausted", 1);
                            break;
                        }
                        let i = next.fetch_add(1, Ordering::SeqCst);
                        if i >= n {
                            break;
                        }
                        if let Err(p) = guard(|| f(i, &mut rep)) {
                            if p.in_sozu() {
                                rep.violation(
                                    &p.signature(),
                                    &format!("sozu panicked: {} at {}", p.message, p.location),
                                    serde_json::json!({"case": i, "seed": ctx.seed, "label": label,
                                        "panic": p.message, "location": p.location}),
                                );
                            } else {
                                rep.broken(&format!(
                                    "harness panic in {label} {i}: {} at {}",
                                    p.message, p.location
                                ));
                            }
                        }
                    }
                    rep
                })
                .expect("spawn"),
            );
        }
        handles
            .into_iter()
            .map(|h| h.join().expect("runner thread"))
            .collect()
    });
    for r in results {
        base.merge(r);
    }
}
