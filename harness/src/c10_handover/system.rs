//! C10 monitor (C): system lab — the real `sozu` binary (main process + forked/exec'd workers),
//! `UpgradeWorker` through the unix command socket (same framing as `sozu` ctl: a blocking
//! `Channel<Request, Response>`), under the same client fleet and in-flight clients as monitor (B).
//! Crash points: the old worker process gets SIGKILL before it can answer `ReturnListenSockets`
//! (it is SIGSTOPped first), right after the main process announced the new worker (the descriptors
//! are out), or while it is soft-stopping (held there by a parked request).
//!
//! Everything lives under `<root>/build/run-C10-<pid>/`; the whole process group of every `sozu`
//! started here is killed at the end of its run and the directory is removed.

use std::{
    collections::BTreeMap,
    net::SocketAddr,
    os::unix::process::CommandExt,
    path::{Path, PathBuf},
    process::{Child, Command, Stdio},
    sync::{Arc, atomic::Ordering},
    time::{Duration, Instant},
};

use serde_json::{Value, json};
use sozu_command_lib::{
    channel::Channel,
    proto::command::{ListWorkers, Request, Response, ResponseStatus, RunState, request::RequestType, response_content::ContentType},
};

use super::traffic::*;
use crate::{
    common::{Ctx, Report, Rng, par_cases_named},
    lab,
    peers::{BackendServer, IoProgram},
};

const MONITOR: &str = "C/system";
const STREAM_C: u64 = 0xC10C_0001;

fn find_or_build_binary(ctx: &Ctx, rep: &mut Report) -> Option<PathBuf> {
    if let Some(p) = ctx.opt("sozu_bin") {
        let p = PathBuf::from(p);
        if p.is_file() {
            return Some(p);
        }
    }
    let target = ctx.root.join("build/sozu-bin-target");
    let bin = target.join("verif/sozu");
    // the profile of the harness crate, given on the command line: /repo's workspace does not define it
    let out = Command::new("cargo")
        .args(["build", "--offline", "--profile", "verif"])
        .args(["--config", "profile.verif.inherits=\"release\"", "--config", "profile.verif.opt-level=1", "--config", "profile.verif.lto=false"])
        .args(["--config", "profile.verif.codegen-units=16", "--config", "profile.verif.debug=1", "--config", "profile.verif.overflow-checks=true"])
        .args(["--config", "profile.verif.incremental=false"])
        .args(["--manifest-path", "/repo/bin/Cargo.toml", "--no-default-features", "--features", "crypto-ring", "--target-dir"])
        .arg(&target)
        .env("CARGO_NET_OFFLINE", "true")
        .stdin(Stdio::null())
        .output();
    match out {
        Ok(o) if o.status.success() && bin.is_file() => Some(bin),
        Ok(o) => {
            rep.broken(&format!("C: could not build the sozu binary: {}", String::from_utf8_lossy(&o.stderr).lines().rev().take(6).collect::<Vec<_>>().join(" | ")));
            None
        }
        Err(e) => {
            rep.broken(&format!("C: could not run cargo: {e}"));
            None
        }
    }
}

#[derive(Clone, Copy, Debug, PartialEq, Eq)]
enum Point {
    None,
    BeforeAnswer,
    AfterFds,
    DuringSoftStop,
}

impl Point {
    fn name(self) -> &'static str {
        match self {
            Point::None => "upgrade",
            Point::BeforeAnswer => "kill_before_answer",
            Point::AfterFds => "kill_after_fds",
            Point::DuringSoftStop => "kill_during_soft_stop",
        }
    }
}

struct Proc {
    child: Child,
    dir: PathBuf,
}

impl Drop for Proc {
    fn drop(&mut self) {
        let pid = self.child.id() as i32;
        // SAFETY: the child was started as leader of its own process group (process_group(0)):
        // -pid addresses exactly that group (main process and the workers it forked)
        unsafe {
            libc::kill(-pid, libc::SIGKILL);
        }
        let _ = self.child.wait();
        let _ = std::fs::remove_dir_all(&self.dir);
    }
}

fn write_config(dir: &Path, listeners: &[(Kind, SocketAddr)], http_back: SocketAddr, tcp_back: SocketAddr, workers: usize) -> std::io::Result<PathBuf> {
    let mut t = String::new();
    t.push_str(&format!(
        "command_socket = \"{}\"\ncommand_buffer_size = 16384\nmax_command_buffer_size = 1638400\nworker_count = {workers}\nworker_automatic_restart = true\nworker_timeout = 5\nhandle_process_affinity = false\nmax_connections = 2000\nbuffer_size = 16393\nactivate_listeners = true\nlog_level = \"error\"\nlog_target = \"stdout\"\nfront_timeout = 120\nback_timeout = 120\nrequest_timeout = 120\n\n",
        dir.join("s.sock").display()
    ));
    for (kind, addr) in listeners {
        t.push_str(&format!("[[listeners]]\nprotocol = \"{}\"\naddress = \"{addr}\"\n", kind.name()));
        if *kind == Kind::Https {
            // the scripted H2 client gives window back often: keep the flood defences out of the way
            t.push_str("h2_max_window_update_stream0_per_window = 1000000\nh2_max_glitch_count = 1000000\n");
        }
        t.push('\n');
    }
    t.push_str("[clusters]\n[clusters.h]\nprotocol = \"http\"\nfrontends = [\n");
    for (kind, addr) in listeners {
        match kind {
            Kind::Http => t.push_str(&format!("  {{ address = \"{addr}\", hostname = \"{HOST}\" }},\n")),
            Kind::Https => t.push_str(&format!(
                "  {{ address = \"{addr}\", hostname = \"{HOST}\", certificate = \"/repo/lib/assets/certificate.pem\", key = \"/repo/lib/assets/key.pem\", certificate_chain = \"/repo/lib/assets/certificate_chain.pem\" }},\n"
            )),
            Kind::Tcp => {}
        }
    }
    t.push_str(&format!("]\nbackends = [ {{ address = \"{http_back}\", backend_id = \"h-sys\" }} ]\n\n"));
    for (i, (kind, addr)) in listeners.iter().enumerate() {
        if *kind == Kind::Tcp {
            t.push_str(&format!("[clusters.t{i}]\nprotocol = \"tcp\"\nfrontends = [ {{ address = \"{addr}\" }} ]\nbackends = [ {{ address = \"{tcp_back}\", backend_id = \"t-sys-{i}\" }} ]\n\n"));
        }
    }
    let path = dir.join("c.toml");
    std::fs::write(&path, t)?;
    Ok(path)
}

type Ctl = Channel<Request, Response>;

fn ctl_connect(sock: &Path) -> Result<Ctl, String> {
    let mut c: Ctl = Channel::from_path(&sock.to_string_lossy(), 16384, 1_638_400).map_err(|e| e.to_string())?;
    c.blocking().map_err(|e| e.to_string())?;
    Ok(c)
}

/// (id, pid, run state) of every worker the main process knows
fn list_workers(sock: &Path) -> Result<Vec<(u32, i32, RunState)>, String> {
    let mut c = ctl_connect(sock)?;
    c.write_message(&RequestType::ListWorkers(ListWorkers {}).into()).map_err(|e| e.to_string())?;
    let start = Instant::now();
    loop {
        if start.elapsed() > Duration::from_secs(10) {
            return Err("no answer to ListWorkers in 10 s".into());
        }
        let r = c.read_message_blocking_timeout(Some(Duration::from_secs(10))).map_err(|e| e.to_string())?;
        match r.status() {
            ResponseStatus::Processing => continue,
            ResponseStatus::Failure => return Err(format!("ListWorkers failed: {}", r.message)),
            ResponseStatus::Ok => {
                if let Some(ContentType::Workers(w)) = r.content.and_then(|c| c.content_type) {
                    return Ok(w.vec.iter().map(|w| (w.id, w.pid, w.run_state())).collect());
                }
                return Err("ListWorkers answered without a worker list".into());
            }
        }
    }
}

fn pid_alive(pid: i32) -> bool {
    // a zombie still "exists" for kill(pid, 0): look at its state
    match std::fs::read_to_string(format!("/proc/{pid}/stat")) {
        Ok(s) => !s.rsplit(')').next().unwrap_or("").trim_start().starts_with('Z'),
        Err(_) => false,
    }
}

/// LISTEN sockets per local address from /proc/net/tcp: (count, sum of their accept-queue lengths)
fn listen_sockets(addrs: &[SocketAddr]) -> BTreeMap<SocketAddr, (usize, u64)> {
    let mut out: BTreeMap<SocketAddr, (usize, u64)> = addrs.iter().map(|a| (*a, (0, 0))).collect();
    let Ok(text) = std::fs::read_to_string("/proc/net/tcp") else { return out };
    for line in text.lines().skip(1) {
        let f: Vec<&str> = line.split_whitespace().collect();
        if f.len() < 5 || f[3] != "0A" {
            continue;
        }
        let Some((ip, port)) = f[1].split_once(':') else { continue };
        let (Ok(ip), Ok(port)) = (u32::from_str_radix(ip, 16), u16::from_str_radix(port, 16)) else { continue };
        let a = SocketAddr::from((std::net::Ipv4Addr::from(u32::from_be(ip)), port));
        if let Some(e) = out.get_mut(&a) {
            e.0 += 1;
            // tx_queue:rx_queue — for a listening socket rx_queue is the current accept backlog
            if let Some((_, rx)) = f[4].split_once(':') {
                e.1 += u64::from_str_radix(rx, 16).unwrap_or(0);
            }
        }
    }
    out
}

/// which of `pids` hold each LISTEN socket of `addr` (inode from /proc/net/tcp, holders from /proc/<pid>/fd)
fn listen_socket_holders(addr: SocketAddr, pids: &[(i32, String)]) -> Value {
    let mut inodes = Vec::new();
    if let Ok(text) = std::fs::read_to_string("/proc/net/tcp") {
        for line in text.lines().skip(1) {
            let f: Vec<&str> = line.split_whitespace().collect();
            if f.len() < 10 || f[3] != "0A" {
                continue;
            }
            let Some((ip, port)) = f[1].split_once(':') else { continue };
            let (Ok(ip), Ok(port)) = (u32::from_str_radix(ip, 16), u16::from_str_radix(port, 16)) else { continue };
            if SocketAddr::from((std::net::Ipv4Addr::from(u32::from_be(ip)), port)) == addr {
                let backlog = f[4].split_once(':').map(|x| u64::from_str_radix(x.1, 16).unwrap_or(0)).unwrap_or(0);
                inodes.push((f[9].to_owned(), backlog));
            }
        }
    }
    let mut out = Vec::new();
    for (inode, backlog) in inodes {
        let needle = format!("socket:[{inode}]");
        let mut holders = Vec::new();
        for (pid, role) in pids {
            if let Ok(rd) = std::fs::read_dir(format!("/proc/{pid}/fd")) {
                let n = rd.flatten().filter(|e| std::fs::read_link(e.path()).is_ok_and(|l| l.to_string_lossy() == needle)).count();
                if n > 0 {
                    holders.push(format!("{role} (pid {pid}) x{n}"));
                }
            }
        }
        out.push(json!({"inode": inode, "connections_waiting_in_accept_queue": backlog, "held_by": holders}));
    }
    json!(out)
}

struct Find {
    sig: String,
    what: String,
    witness: Value,
}

fn one_run(ctx: &Ctx, bin: &Path, i: u64, rep: &mut Report) {
    let mut rng = Rng::for_case(ctx.seed, STREAM_C, i);
    let point = [Point::None, Point::AfterFds, Point::None, Point::DuringSoftStop, Point::None, Point::BeforeAnswer][(i % 6) as usize];
    let workers = if i % 2 == 0 { 1 } else { 2 };
    let n = rng.urange(3, 6);
    let ip = lab::fresh_ip();
    let kinds: Vec<Kind> = (0..n).map(|k| [Kind::Http, Kind::Https, Kind::Tcp][(k + i as usize) % 3]).collect();
    let listeners: Vec<(Kind, SocketAddr)> = kinds.iter().enumerate().map(|(k, kind)| (*kind, lab::sa(ip, 8000 + k as u16))).collect();
    let (http_back, tcp_back) = (lab::sa(ip, 9000), lab::sa(ip, 9100));
    let dir = ctx.root.join(format!("build/run-C10-{}/{i}", std::process::id()));
    let shape = format!("C/{}/{workers}w/{n}l", point.name());
    let plan_json = json!({"scenario": point.name(), "worker_count": workers, "listeners": listeners.iter().map(|(k, a)| format!("{} {a}", k.name())).collect::<Vec<_>>()});
    let sh = Arc::new(Shared::new(i.wrapping_mul(1_000_000) + 500_000_000_000));
    let mut finds: Vec<Find> = Vec::new();
    let r = drive(ctx, bin, i, point, workers, &listeners, http_back, tcp_back, &dir, &sh, &mut rng, rep, &mut finds, &plan_json);
    sh.abort.store(true, Ordering::SeqCst);
    sh.fleet_stop.store(true, Ordering::SeqCst);
    sh.gates[0].release();
    sh.gates[1].release();
    rep.case_bytes(shape.as_bytes(), r.is_ok());
    match r {
        Ok(()) => rep.obs(&format!("C.runs/{}", point.name()), 1),
        Err(e) => rep.inconclusive(&format!("C: {e}")),
    }
    for f in finds {
        rep.violation(&f.sig, &f.what, f.witness);
    }
    let _ = std::fs::remove_dir_all(&dir);
}

#[allow(clippy::too_many_arguments)]
fn drive(
    ctx: &Ctx,
    bin: &Path,
    i: u64,
    point: Point,
    workers: usize,
    listeners: &[(Kind, SocketAddr)],
    http_back: SocketAddr,
    tcp_back: SocketAddr,
    dir: &Path,
    sh: &Arc<Shared>,
    rng: &mut Rng,
    rep: &mut Report,
    finds: &mut Vec<Find>,
    plan_json: &Value,
) -> Result<(), String> {
    std::fs::create_dir_all(dir).map_err(|e| e.to_string())?;
    let cfg = write_config(dir, listeners, http_back, tcp_back, workers).map_err(|e| e.to_string())?;
    let mut backends = vec![
        BackendServer::start(http_back, IoProgram::fast(), http_backend_handler(sh.clone(), "sys")).map_err(|e| format!("backend: {e}"))?,
        BackendServer::start(tcp_back, IoProgram::fast(), tcp_backend_handler(sh.clone(), b'S')).map_err(|e| format!("backend: {e}"))?,
    ];
    let log = std::fs::File::create(dir.join("out.log")).map_err(|e| e.to_string())?;
    let mut child = Command::new(bin);
    let child = child
        .args(["start", "-c"])
        .arg(&cfg)
        .current_dir(dir)
        .stdin(Stdio::null())
        .stdout(log.try_clone().map_err(|e| e.to_string())?)
        .stderr(log)
        .process_group(0);
    // SAFETY: the closure runs in the forked child before exec and only calls prctl (async-signal-safe):
    // the main process of this sozu instance dies with the harness, its workers then see their
    // command channel closed and leave
    let child = unsafe {
        child.pre_exec(|| {
            libc::prctl(libc::PR_SET_PDEATHSIG, libc::SIGKILL);
            Ok(())
        })
    }
        .spawn()
        .map_err(|e| format!("could not start sozu: {e}"))?;
    let mut proc_ = Proc { child, dir: dir.to_owned() };
    let sock = dir.join("s.sock");
    let base = |sh: &Shared| json!({"monitor": MONITOR, "case": i, "seed": ctx.seed, "plan": plan_json, "timeline": sh.timeline(), "config": cfg.display().to_string(),
        "reproduce": format!("vh C10 --tier thorough --seed {} --opt only=C (run {i}); sozu start -c <the TOML of the plan>, UpgradeWorker for the first worker over the command socket", ctx.seed)});

    // ---- wait until the proxy serves every listener
    let start = Instant::now();
    let mut prng = Rng::for_case(ctx.seed, STREAM_C + 7, i);
    sh.fleet_wait_ms.store(3000, Ordering::SeqCst);
    let mut ready = false;
    while start.elapsed() < Duration::from_secs(40) {
        if let Ok(Some(st)) = proc_.child.try_wait() {
            let tail = std::fs::read_to_string(dir.join("out.log")).unwrap_or_default();
            return Err(format!("sozu exited at start-up ({st}): {}", tail.lines().rev().take(4).collect::<Vec<_>>().join(" | ")));
        }
        if sock.exists() && list_workers(&sock).is_ok_and(|w| w.len() == workers && w.iter().all(|x| x.2 == RunState::Running)) {
            let all = (0..listeners.len()).all(|li| {
                let p = probe(sh, &mut prng, listeners, li);
                p.connect_err.is_none() && p.handshake_err.is_none() && p.reqs.first().is_some_and(|r| matches!(r.end, ReqEnd::Ok))
            });
            if all {
                ready = true;
                break;
            }
        }
        std::thread::sleep(Duration::from_millis(100));
    }
    if !ready {
        let tail = std::fs::read_to_string(dir.join("out.log")).unwrap_or_default();
        return Err(format!("sozu did not serve every listener within 40 s: {}", tail.lines().rev().take(4).collect::<Vec<_>>().join(" | ")));
    }
    sh.fleet_wait_ms.store(6000, Ordering::SeqCst);
    sh.step("serving");
    let before = list_workers(&sock)?;
    let (old_id, old_pid, _) = before[0];
    let addrs: Vec<SocketAddr> = listeners.iter().map(|l| l.1).collect();
    let listen_before = listen_sockets(&addrs);

    // ---- in-flight requests (on whichever worker the kernel picks) and the fleet
    let mut inflight = Vec::new();
    let phases: Vec<Phase> = PHASES.iter().copied().filter(|p| listeners.iter().any(|(k, _)| p.needs().contains(k))).collect();
    for k in 0..rng.urange(3, 6) {
        let ph = phases[(k + i as usize) % phases.len()];
        let homes: Vec<usize> = listeners.iter().enumerate().filter(|(_, (kd, _))| ph.needs().contains(kd)).map(|(x, _)| x).collect();
        let plan = InflightPlan { phase: ph, listener: *rng.pick(&homes), gate: 0, resp_len: *rng.pick(&[2usize, 1000, 16393, 40_000]), up_len: *rng.pick(&[2usize, 5000, 40_000]), streams: rng.urange(2, 4) };
        let flag = Arc::new(ParkFlag(std::sync::atomic::AtomicBool::new(false)));
        let (kind, addr) = listeners[plan.listener];
        let (sh2, p2, f2) = (sh.clone(), plan.clone(), flag.clone());
        inflight.push((std::thread::spawn(move || run_inflight(sh2, p2, kind, addr, f2)), flag));
    }
    let t = Instant::now();
    while !inflight.iter().all(|(h, f)| f.0.load(Ordering::SeqCst) || h.is_finished()) && t.elapsed() < Duration::from_secs(20) {
        std::thread::sleep(Duration::from_millis(2));
    }
    sh.step("in_flight_parked");
    let mut fleet = Vec::new();
    for tix in 0..2u64 {
        let (sh2, l2) = (sh.clone(), listeners.to_vec());
        let r = Rng::for_case(ctx.seed, STREAM_C + 100 + tix, i);
        fleet.push(std::thread::spawn(move || fleet_thread(sh2, r, l2, 20, 3000)));
    }
    std::thread::sleep(Duration::from_millis(rng.range(20, 80)));

    // ---- UpgradeWorker
    if point == Point::BeforeAnswer {
        // SAFETY: signalling a worker process of the sozu instance this run started (pid from ListWorkers)
        unsafe {
            libc::kill(old_pid, libc::SIGSTOP);
        }
        sh.step("old_worker_sigstop");
    }
    let mut ctl = ctl_connect(&sock)?;
    sh.step("upgrade_worker_sent");
    ctl.write_message(&RequestType::UpgradeWorker(old_id).into()).map_err(|e| format!("could not send UpgradeWorker: {e}"))?;
    if point == Point::BeforeAnswer {
        std::thread::sleep(Duration::from_millis(rng.range(20, 200)));
        // SAFETY: as above
        unsafe {
            libc::kill(old_pid, libc::SIGKILL);
        }
        sh.step("old_worker_sigkill");
        sh.cancel_before_us.store(sh.us(), Ordering::SeqCst);
    }
    let mut messages: Vec<String> = Vec::new();
    let mut final_status: Option<(ResponseStatus, String)> = None;
    let mut killed = point == Point::BeforeAnswer;
    let wait = Instant::now();
    while wait.elapsed() < Duration::from_secs(40) {
        match ctl.read_message_blocking_timeout(Some(Duration::from_millis(500))) {
            Ok(r) => {
                messages.push(format!("{:?}: {}", r.status(), r.message));
                match r.status() {
                    ResponseStatus::Processing => {
                        let trigger = match point {
                            Point::AfterFds => r.message.contains("Launched a new worker"),
                            Point::DuringSoftStop => r.message.contains("Soft stopping worker") || r.message.contains("is processing"),
                            _ => false,
                        };
                        if trigger && !killed {
                            if point == Point::DuringSoftStop {
                                std::thread::sleep(Duration::from_millis(rng.range(5, 60)));
                            }
                            // SAFETY: as above
                            unsafe {
                                libc::kill(old_pid, libc::SIGKILL);
                            }
                            killed = true;
                            sh.step("old_worker_sigkill");
                            sh.cancel_before_us.store(sh.at("upgrade_worker_sent").unwrap_or(1), Ordering::SeqCst);
                        }
                    }
                    s => {
                        final_status = Some((s, r.message.clone()));
                        break;
                    }
                }
            }
            Err(sozu_command_lib::channel::ChannelError::TimeoutReached(_)) => {}
            Err(e) => {
                messages.push(format!("channel error: {e}"));
                break;
            }
        }
        // with a request parked on it the old worker never finishes its soft stop: the final answer of
        // the upgrade waits for it, so open the gates once the successor is announced
        if point == Point::None && messages.iter().any(|m| m.contains("Soft stopping worker")) && !sh.gates[0].is_open() {
            std::thread::sleep(Duration::from_millis(rng.range(0, 300)));
            sh.gates[0].release();
            sh.gates[1].release();
            sh.step("gates_open");
        }
        if killed && wait.elapsed() > Duration::from_secs(1) && !sh.gates[0].is_open() {
            sh.gates[0].release();
            sh.gates[1].release();
            sh.step("gates_open");
        }
    }
    sh.step("upgrade_answered_or_given_up");
    sh.gates[0].release();
    sh.gates[1].release();
    rep.obs("C.upgrade_requests", 1);
    match &final_status {
        Some((ResponseStatus::Ok, _)) => rep.obs("C.operator_final_answer/ok", 1),
        Some((_, _)) => rep.obs("C.operator_final_answer/failure", 1),
        None => {}
    }
    if final_status.is_none() {
        finds.push(Find {
            sig: format!("system/{}/no_final_answer_to_operator", point.name()),
            what: "UpgradeWorker got no final answer on the command socket within 40 s".into(),
            witness: {
                let mut w = base(sh);
                w["messages"] = json!(messages);
                w
            },
        });
    } else if point == Point::None && final_status.as_ref().is_some_and(|s| s.0 != ResponseStatus::Ok) {
        finds.push(Find {
            sig: "system/upgrade/answered_failure".into(),
            what: format!("an undisturbed UpgradeWorker was answered with a failure: {}", final_status.as_ref().unwrap().1),
            witness: {
                let mut w = base(sh);
                w["messages"] = json!(messages);
                w
            },
        });
    }
    if killed {
        rep.obs(&format!("C.crash_points/{}", point.name()), 1);
    }
    // a run whose kill never happened is an undisturbed upgrade and is judged as one
    let fam = if killed { point.name() } else { Point::None.name() };

    // ---- settle: fleet a little longer, then stop
    std::thread::sleep(Duration::from_millis(400));
    sh.fleet_stop.store(true, Ordering::SeqCst);
    sh.step("fleet_stopped");
    let mut results = Vec::new();
    for (h, _) in inflight {
        let t = Instant::now();
        while !h.is_finished() && t.elapsed() < Duration::from_secs(80) {
            std::thread::sleep(Duration::from_millis(5));
        }
        if !h.is_finished() {
            return Err("an in-flight client thread did not end".into());
        }
        if let Ok(r) = h.join() {
            results.push(r);
        }
    }
    let mut conns = Vec::new();
    for h in fleet {
        let t = Instant::now();
        while !h.is_finished() && t.elapsed() < Duration::from_secs(60) {
            std::thread::sleep(Duration::from_millis(5));
        }
        if !h.is_finished() {
            return Err("a fleet thread did not end".into());
        }
        conns.extend(h.join().unwrap_or_default());
    }
    sh.step("clients_done");

    // ---- who is there now
    let mut after = list_workers(&sock).unwrap_or_default();
    let t = Instant::now();
    // an automatic restart (after a kill) takes a moment
    while t.elapsed() < Duration::from_secs(15) && !after.iter().any(|w| w.2 == RunState::Running && w.1 != old_pid) {
        std::thread::sleep(Duration::from_millis(200));
        after = list_workers(&sock).unwrap_or_default();
    }
    let old_gone_by = Instant::now();
    while pid_alive(old_pid) && old_gone_by.elapsed() < Duration::from_secs(12) {
        std::thread::sleep(Duration::from_millis(100));
    }
    let workers_json = json!({"before": before.iter().map(|w| format!("{} pid {} {:?}", w.0, w.1, w.2)).collect::<Vec<_>>(), "after": after.iter().map(|w| format!("{} pid {} {:?}", w.0, w.1, w.2)).collect::<Vec<_>>(), "old_worker_pid_alive": pid_alive(old_pid)});
    if proc_.child.try_wait().ok().flatten().is_some() {
        finds.push(Find { sig: format!("system/{}/main_process_died", fam), what: "the main process exited during the upgrade".into(), witness: base(sh) });
        return Ok(());
    }
    if pid_alive(old_pid) && final_status.as_ref().is_some_and(|s| s.0 == ResponseStatus::Ok) {
        finds.push(Find {
            sig: format!("system/{}/old_worker_still_running", fam),
            what: "the upgrade was answered OK, every client is done, yet the old worker process is still there 12 s later".into(),
            witness: {
                let mut w = base(sh);
                w["workers"] = workers_json.clone();
                w
            },
        });
    } else if !pid_alive(old_pid) {
        rep.obs("C.old_worker_process_gone", 1);
    }

    // ---- in-flight
    for r in &results {
        let ph = r.plan.phase.name();
        if r.parked_us.is_none() {
            rep.obs("C.inflight_not_parked", 1);
            continue;
        }
        rep.obs(&format!("C.inflight_parked/{ph}"), 1);
        let extra = |sh: &Shared| {
            let mut w = base(sh);
            w["in_flight"] = r.plan.json();
            w["client_saw"] = r.detail.clone();
            w["parked_at_us"] = json!(r.parked_us);
            w["ended_at_us"] = json!(r.end_us);
            w["workers"] = workers_json.clone();
            w["operator_messages"] = json!(messages);
            w
        };
        match &r.fate {
            Fate::Completed => rep.obs(&format!("C.inflight_completed/{ph}"), 1),
            Fate::ExemptRace => rep.obs("C.exempt/keepalive_request_raced_with_close", 1),
            Fate::Setup(_) => rep.obs("C.inflight_setup_failures", 1),
            _ if killed => rep.obs("C.exempt/in_flight_while_a_worker_was_killed", 1),
            Fate::Cut(_) | Fate::Hung(_) if !r.plan.phase.is_request() => {
                rep.obs(&format!("C.exempt/{}_at_soft_stop", if r.plan.phase == Phase::TcpPipe { "tcp_relay_cut" } else { "websocket_tunnel_cut" }), 1)
            }
            Fate::Corrupt(why) => finds.push(Find { sig: format!("system/{}/in_flight_corrupted/{ph}", fam), what: format!("in-flight exchange ({ph}) finished with wrong content: {why}"), witness: extra(sh) }),
            Fate::Hung(why) => finds.push(Find { sig: format!("system/{}/in_flight_request_hung/{ph}", fam), what: format!("in-flight exchange ({ph}) neither completed nor was closed: {why}"), witness: extra(sh) }),
            Fate::Cut(why) => {
                let sig = match r.plan.phase {
                    Phase::H2Streams => "h2_streams_cut_during_drain".to_owned(),
                    _ => format!("in_flight_request_cut/{ph}"),
                };
                finds.push(Find { sig: format!("system/{}/{sig}", fam), what: format!("in-flight exchange cut ({ph}): {why}"), witness: extra(sh) });
            }
        }
    }

    // ---- fleet (oracle 1 and "accepted connections are served")
    let t_up = sh.at("upgrade_worker_sent").unwrap_or(0);
    for c in &conns {
        rep.obs("C.fleet_connections", 1);
        let proto = c.kind.name();
        if c.connect_start_us >= t_up {
            rep.obs("C.connects_attempted_during_upgrade", 1);
        }
        let conn_json = |sh: &Shared| {
            let mut w = base(sh);
            w["connection"] = c.json();
            w["workers"] = workers_json.clone();
            w
        };
        if let Some((class, text)) = &c.connect_err {
            // a killed worker that never gave its listeners back takes them with it (1 worker): not judged
            if point == Point::BeforeAnswer {
                rep.obs("C.exempt/connect_failed_after_kill_before_answer", 1);
                continue;
            }
            let cls = if class.starts_with("other") { "other" } else { class.as_str() };
            finds.push(Find { sig: format!("system/{}/connect_failed/{cls}", fam), what: format!("connect() to a configured {proto} listener failed during the upgrade: {text}"), witness: conn_json(sh) });
            continue;
        }
        if c.connect_start_us >= t_up {
            rep.obs("C.connects_succeeded_during_upgrade", 1);
        }
        let first_bad = if let Some(h) = &c.handshake_err {
            Some(format!("TLS handshake failed: {h}"))
        } else {
            match c.reqs.first().map(|r| &r.end) {
                Some(ReqEnd::Ok) => None,
                Some(e) => Some(format!("{e:?}")),
                None => Some("no request sent".into()),
            }
        };
        if let Some(why) = first_bad {
            if c.kind == Kind::Tcp && c.reqs.first().is_some_and(|r| matches!(r.end, ReqEnd::Partial(_))) {
                // the relay was up (the backend's first byte arrived) and was torn down: not a request
                rep.obs("C.exempt/tcp_relay_cut_at_soft_stop", 1);
                continue;
            }
            if killed {
                rep.obs("C.exempt/first_request_lost_while_a_worker_was_killed", 1);
                continue;
            }
            let hung = why.starts_with("Timeout");
            let sig = if hung { "connection_never_served" } else { "fresh_connection_not_served" };
            finds.push(Find { sig: format!("system/{}/{sig}", fam), what: format!("the first request of a fresh {proto} connection (connect() succeeded) was not answered: {why}"), witness: conn_json(sh) });
        }
    }

    // ---- afterwards: every listener answers, every time (oracle 2)
    sh.fleet_wait_ms.store(2500, Ordering::SeqCst);
    let listen_after = listen_sockets(&addrs);
    let running_after = after.iter().filter(|w| w.2 == RunState::Running).count();
    for (li, (kind, addr)) in listeners.iter().enumerate() {
        let mut bad = Vec::new();
        let rounds = 24;
        for _ in 0..rounds {
            let p = probe(sh, &mut prng, listeners, li);
            let ok = p.connect_err.is_none() && p.handshake_err.is_none() && p.reqs.first().is_some_and(|r| matches!(r.end, ReqEnd::Ok));
            if ok {
                rep.obs("C.probes_answered_after_upgrade", 1);
            } else {
                bad.push(p.json());
            }
            if bad.len() >= 3 {
                break;
            }
        }
        let (n_before, _) = listen_before.get(addr).copied().unwrap_or((0, 0));
        let (n_after, backlog) = listen_after.get(addr).copied().unwrap_or((0, 0));
        if !bad.is_empty() {
            finds.push(Find {
                sig: format!("system/{}/listener_not_fully_served_after_upgrade", fam),
                what: format!("after the upgrade {} of the probes of {} listener {addr} got no answer ({} listening sockets on the address before, {} after, {} worker(s) running)", bad.len(), kind.name(), n_before, n_after, running_after),
                witness: {
                    let mut w = base(sh);
                    w["unanswered_probes"] = json!(bad);
                    w["workers"] = workers_json.clone();
                    w["listening_sockets_on_address(/proc/net/tcp)"] = json!({"before": n_before, "after": n_after, "accept_backlog_after": backlog});
                    let mut pids: Vec<(i32, String)> = vec![(proc_.child.id() as i32, "main process".to_owned())];
                    pids.extend(after.iter().map(|x| (x.1, format!("worker {} {:?}", x.0, x.2))));
                    w["listening_socket_holders"] = listen_socket_holders(*addr, &pids);
                    w["operator_messages"] = json!(messages);
                    w
                },
            });
        } else {
            rep.obs("C.listeners_fully_served_after_upgrade", 1);
        }
        rep.obs_max("C.listening_sockets_per_address_after_upgrade", n_after as u64);
    }
    sh.step("probed");
    for b in backends.iter_mut() {
        b.stop();
    }
    drop(proc_);
    Ok(())
}

pub fn run_system(ctx: &Ctx, rep: &mut Report) {
    rep.assume("monitor C: crash points are hit from outside the main process: SIGSTOP + SIGKILL before the answer to ReturnListenSockets, SIGKILL when the main process announces the new worker (descriptors out) or the soft stop; which internal step the kill lands in is recorded from the operator messages, not chosen exactly");
    rep.assume("monitor C: TCP relays and upgraded (WebSocket) tunnels torn down at the soft stop are counted (C.exempt/...), not judged: they are not requests in flight");
    rep.assume("monitor C: requests and fresh connections that fail while a worker process is being killed on purpose are not judged; connect() failures after a kill-before-answer are not judged (a lone worker takes its listening sockets with it)");
    if let Some(path) = &ctx.replay {
        let v: Value = serde_json::from_str(&std::fs::read_to_string(path).unwrap_or_default()).unwrap_or(Value::Null);
        let cases: Vec<(u64, u64)> = v["witnesses"]
            .as_array()
            .map(|a| a.iter().filter(|w| w["monitor"].as_str() == Some(MONITOR)).filter_map(|w| Some((w["case"].as_u64()?, w["seed"].as_u64().unwrap_or(ctx.seed)))).collect())
            .unwrap_or_default();
        if cases.is_empty() {
            return;
        }
        let Some(bin) = find_or_build_binary(ctx, rep) else { return };
        for (c, seed) in cases {
            let mut rctx = ctx.clone();
            rctx.seed = seed;
            one_run(&rctx, &bin, c, rep);
        }
        return;
    }
    let Some(bin) = find_or_build_binary(ctx, rep) else { return };
    for k in ["C.upgrade_requests", "C.operator_final_answer/ok", "C.connects_succeeded_during_upgrade", "C.probes_answered_after_upgrade", "C.crash_points/kill_after_fds", "C.crash_points/kill_before_answer", "C.crash_points/kill_during_soft_stop"] {
        rep.require(k);
    }
    let runs = ctx.opt_u64("c_runs", ctx.tier.pick(12, 120));
    let mut cctx = ctx.clone();
    cctx.threads = ctx.opt_u64("c_threads", 6) as usize;
    // (C) has its own slice of the budget: it starts after (B) used most of the run's
    cctx.budget = ctx.started.elapsed() + Duration::from_secs(ctx.opt_u64("c_budget", ctx.tier.pick(60, 240)));
    let bin2 = bin.clone();
    par_cases_named(&cctx, rep, runs, "crun", move |i, r| one_run(ctx, &bin2, i, r));
    let _ = std::fs::remove_dir_all(ctx.root.join(format!("build/run-C10-{}", std::process::id())));
}
