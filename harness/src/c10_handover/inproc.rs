//! C10 monitor (B): in-process hand-over under traffic.
//!
//! The harness plays the main process of a worker upgrade (bin/src/command/upgrade.rs,
//! e2e/src/sozu/worker.rs `Worker::upgrade`, doc/upgrade_e2e_tests.md): old worker O serves a set
//! of listeners; `ReturnListenSockets` to O, the listeners come back over the SCM socket, `SoftStop`
//! to O, a new worker N is started with the received descriptors and a state whose listeners are
//! inactive, then every listener is activated on N. Scripted clients keep connecting during the
//! whole sequence and scripted backends hold requests of O in chosen phases. Also: the plain soft
//! stop (no successor) and the old worker "dying" (hard stop / command channel dropped) before it
//! answered, after the descriptors are out, or during its soft stop.
//!
//! Graceful deadline: `h2_graceful_shutdown_deadline_seconds` (doc/configure.md:883, default 5 s,
//! H2 connections only; H1 requests are waited for without a deadline). All parked requests are
//! released well inside it; the old worker must be gone `EXIT_SLACK` after its last session ended.

use std::{
    collections::{BTreeMap, BTreeSet},
    net::SocketAddr,
    os::unix::io::{FromRawFd, IntoRawFd, RawFd},
    sync::{Arc, Mutex, atomic::Ordering},
    thread::JoinHandle,
    time::{Duration, Instant},
};

use serde_json::{Value, json};
use socket2::Socket;
use sozu_command_lib::{
    channel::Channel,
    config::ListenerBuilder,
    proto::command::{
        ActivateListener, AddBackend, AddCertificate, CertificateAndKey, Cluster, HardStop, ListenerType, LoadBalancingParams, RemoveBackend, Request, RequestTcpFrontend,
        ResponseStatus, ReturnListenSockets, SoftStop, Status, TlsVersion, WorkerRequest, WorkerResponse, request::RequestType,
    },
    scm_socket::Listeners,
    state::ConfigState,
};

use super::traffic::*;
use crate::{
    common::{Ctx, Report, Rng, par::PanicRec, par_cases},
    lab::{self, Worker, WorkerOpts, worker::CallError},
    peers::{BackendServer, IoProgram},
};

const STREAM_PLAN: u64 = 0xC10B_0001;
const STREAM_FLEET: u64 = 0xC10B_1000;
const MONITOR: &str = "B/inproc";
/// documented H2 graceful deadline (seconds) + slack: bound for "O is gone once its sessions ended"
const GRACEFUL_DEADLINE: Duration = Duration::from_secs(5);
const EXIT_SLACK: Duration = Duration::from_secs(6);

#[derive(Clone, Copy, Debug, PartialEq, Eq)]
enum Scenario {
    /// harness self-check (`--opt control=1`): same traffic, no hand-over at all
    Control,
    Handover,
    SoftStop,
    CrashBeforeReturn,
    CrashAfterFds,
    CrashDuringSoftStop,
}

impl Scenario {
    fn name(self) -> &'static str {
        match self {
            Scenario::Control => "control",
            Scenario::Handover => "handover",
            Scenario::SoftStop => "softstop",
            Scenario::CrashBeforeReturn => "crash_before_return",
            Scenario::CrashAfterFds => "crash_after_fds",
            Scenario::CrashDuringSoftStop => "crash_during_soft_stop",
        }
    }
    fn is_crash(self) -> bool {
        matches!(self, Scenario::CrashBeforeReturn | Scenario::CrashAfterFds | Scenario::CrashDuringSoftStop)
    }
}

#[derive(Clone, Debug)]
struct Plan {
    case: u64,
    seed: u64,
    scenario: Scenario,
    /// old worker "dies" by HardStop (false) or by losing its command channel (true)
    crash_drop_channel: bool,
    kinds: Vec<Kind>,
    /// listeners configured with a `public_address` different from the address they are bound to
    public: Vec<bool>,
    /// pre-history: listener additions the worker must reject (0 = HTTPS listener offering TLS 1.1
    /// only, 1 = HTTPS listener with an unparsable answer template, 2 = HTTP listener with one);
    /// TCP and UDP listener additions cannot be rejected short of a full session table
    rejected: Vec<u8>,
    /// exactly one exchange (H1, parked before the response head) is open on the old worker when it
    /// is told to stop: no other parked exchange, the fleet starts once the listeners were handed back
    lone: bool,
    inflight: Vec<InflightPlan>,
    fleet_threads: usize,
    fleet_slow_pct: u64,
    burst: usize,
    pre_ms: u64,
    /// the successor gets the state the real main process gives it (bin/src/command/server.rs
    /// `launch_new_worker`: the full state, listeners marked active) instead of the e2e variant
    /// (listeners inactive until activated from the descriptors)
    main_like_state: bool,
    /// SoftStop goes out before (true) or after (false) the new worker is started and activated
    softstop_first: bool,
    gap_ms: u64,
    /// step after which gate g opens: 0 = descriptors received (before SoftStop), 1 = SoftStop sent,
    /// 2 = successor activated, 3 = successor activated + late_ms
    release_at: [u8; 2],
    late_ms: u64,
    tail_ms: u64,
}

impl Plan {
    fn json(&self) -> Value {
        json!({
            "scenario": self.scenario.name(),
            "successor_initial_state": if self.main_like_state { "as the main process builds it: listeners active" } else { "as e2e Worker::upgrade builds it: listeners inactive" },
            "old_worker_dies_by": if !self.scenario.is_crash() { Value::Null } else if self.crash_drop_channel { json!("command channel dropped") } else { json!("HardStop") },
            "listeners": self.kinds.iter().enumerate().map(|(i, k)| format!("{}@:{}{}", k.name(), 8000 + i, if self.public[i] { " public_address=203.0.113.x" } else { "" })).collect::<Vec<_>>(),
            "rejected_listener_additions_before_the_traffic": self.rejected.iter().map(|k| match k {
                0 => "AddHttpsListener offering TLS 1.1 only",
                1 => "AddHttpsListener with an unparsable 404 answer template",
                _ => "AddHttpListener with an unparsable 404 answer template",
            }).collect::<Vec<_>>(),
            "lone_exchange": self.lone,
            "in_flight": self.inflight.iter().map(|p| p.json()).collect::<Vec<_>>(),
            "fleet_threads": self.fleet_threads, "fleet_percent_slow_first_byte": self.fleet_slow_pct, "burst_connections_while_nobody_accepts": self.burst,
            "pause_before_hand_over_ms": self.pre_ms, "soft_stop_before_successor_start": self.softstop_first, "gap_ms": self.gap_ms,
            "gate_release_step": {"gate0": self.release_at[0], "gate1": self.release_at[1], "legend": "0 fds received, 1 SoftStop sent, 2 successor activated, 3 activated + late_ms"},
            "late_ms": self.late_ms, "fleet_tail_ms": self.tail_ms,
        })
    }
    fn shape(&self) -> String {
        let mut kinds: BTreeMap<&str, usize> = BTreeMap::new();
        for k in &self.kinds {
            *kinds.entry(k.name()).or_default() += 1;
        }
        let phases: BTreeSet<&str> = self.inflight.iter().map(|p| p.phase.name()).collect();
        let public: BTreeSet<&str> = self.kinds.iter().zip(&self.public).filter(|(_, p)| **p).map(|(k, _)| k.name()).collect();
        let bucket = |n: usize| match n {
            0 => 0,
            1 => 1,
            2..=4 => 4,
            5..=16 => 16,
            17..=64 => 64,
            _ => 200,
        };
        format!(
            "{}{}/{}/{:?}/pub{:?}/{:?}/{}/{:?}/b{}/rej{}/lone{}",
            self.scenario.name(),
            if self.main_like_state { "+main" } else { "" },
            self.crash_drop_channel,
            kinds.iter().map(|(k, n)| (*k, bucket(*n))).collect::<Vec<_>>(),
            public,
            phases,
            self.softstop_first,
            self.release_at,
            (self.burst > 0) as u8,
            self.rejected.len(),
            self.lone as u8
        )
    }
}

fn make_plan(ctx: &Ctx, case: u64) -> Plan {
    let mut rng = Rng::for_case(ctx.seed, STREAM_PLAN, case);
    let scenario = if ctx.opt("control") == Some("1") {
        Scenario::Control
    } else {
        match case % 10 {
        0 | 5 => Scenario::SoftStop,
        3 => Scenario::CrashBeforeReturn,
        6 => Scenario::CrashAfterFds,
        9 => Scenario::CrashDuringSoftStop,
        _ => Scenario::Handover,
        }
    };
    let thorough = ctx.tier.pick(false, true);
    let roll = rng.below(100);
    let n = if let Some(n) = ctx.opt("listeners").and_then(|v| v.parse::<usize>().ok()) {
        n.clamp(1, 200)
    } else if roll < 15 {
        1
    } else if roll < 50 {
        rng.urange(2, 4)
    } else if !thorough || roll < 80 {
        rng.urange(5, 16)
    } else if roll < 96 {
        rng.urange(17, 64)
    } else {
        rng.urange(65, 200)
    };
    let mut kinds: Vec<Kind> = (0..n).map(|_| *rng.pick(&[Kind::Http, Kind::Http, Kind::Https, Kind::Tcp])).collect();
    // the first three listeners rotate over the protocols so that every in-flight phase has a home
    for (i, k) in kinds.iter_mut().enumerate().take(3) {
        *k = [Kind::Http, Kind::Https, Kind::Tcp][(i + case as usize) % 3];
    }
    // listener options that must not leak into the hand-over: an advertised address that is not the bound one
    let public: Vec<bool> = kinds.iter().map(|_| rng.chance(2, 5)).collect();
    let mut inflight = Vec::new();
    if !scenario.is_crash() || rng.chance(1, 2) {
        let want = rng.urange(2, 6);
        let mut pool: Vec<Phase> = PHASES.to_vec();
        rng.shuffle(&mut pool);
        for ph in pool.into_iter().cycle().take(want * 3) {
            if inflight.len() >= want {
                break;
            }
            let homes: Vec<usize> = kinds.iter().enumerate().filter(|(_, k)| ph.needs().contains(k)).map(|(i, _)| i).collect();
            if homes.is_empty() {
                continue;
            }
            inflight.push(InflightPlan {
                phase: ph,
                listener: *rng.pick(&homes),
                gate: rng.usize_below(2),
                resp_len: *rng.pick(&[2usize, 1000, 16393, 70_000, 200_000]),
                up_len: *rng.pick(&[2usize, 5000, 40_000, 120_000]),
                streams: rng.urange(2, 5),
            });
        }
    }
    let a = rng.range(0, 3) as u8;
    let b = rng.range(a as u64, 3) as u8;
    let rejected: Vec<u8> = (0..rng.urange(0, 3)).map(|_| rng.below(3) as u8).collect();
    let home = kinds.iter().position(|k| *k == Kind::Http).or_else(|| kinds.iter().position(|k| *k == Kind::Https));
    let lone = matches!(scenario, Scenario::Handover | Scenario::SoftStop) && rng.chance(1, 3) && home.is_some();
    let (mut a, mut b) = (a, b);
    if let (true, Some(home)) = (lone, home) {
        // the single exchange stays parked for a few drain ticks after the stop
        inflight = vec![InflightPlan { phase: Phase::BeforeHeaders, listener: home, gate: 1, resp_len: *rng.pick(&[2usize, 1000, 16393]), up_len: 0, streams: 0 }];
        (a, b) = (3, 3);
    }
    Plan {
        case,
        seed: ctx.seed,
        scenario,
        // before the listeners were handed back only HardStop closes them inside this process (a
        // dropped channel leaves the in-thread worker's sockets open, which a dead process would not)
        crash_drop_channel: rng.bool() && scenario != Scenario::CrashBeforeReturn,
        kinds,
        public,
        rejected,
        lone,
        inflight,
        fleet_threads: if lone && scenario == Scenario::SoftStop { 0 } else { ctx.tier.pick(2, 3) },
        fleet_slow_pct: *rng.pick(&[0u64, 20, 60]),
        burst: if rng.chance(1, 2) { rng.urange(4, 40) } else { 0 },
        pre_ms: rng.below(30),
        main_like_state: scenario == Scenario::Handover && case % 4 == 2,
        softstop_first: rng.chance(2, 3),
        gap_ms: *rng.pick(&[0u64, 0, 5, 40, 150]),
        release_at: [a, b],
        late_ms: rng.range(120, 450),
        tail_ms: rng.range(40, 200),
    }
}

// ------------------------------------------------------------------------------------------------
// configuration of a cell
// ------------------------------------------------------------------------------------------------

struct Cell {
    listeners: Vec<(Kind, SocketAddr)>,
    /// `public_address` of each listener (None = not set): what the listener advertises, never what it is bound to
    public: Vec<Option<SocketAddr>>,
    http_old: SocketAddr,
    http_new: SocketAddr,
    tcp_old: SocketAddr,
    tcp_new: SocketAddr,
}

fn send_ok(w: &mut Worker, state: &mut ConfigState, rt: RequestType) -> Result<(), String> {
    let req: Request = rt.clone().into();
    match w.call(rt, Duration::from_secs(20)) {
        Ok(r) if r.status == ResponseStatus::Ok as i32 => {
            let _ = state.dispatch(&req);
            Ok(())
        }
        Ok(r) => Err(format!("{:?} answered {:?}: {}", req.request_type.as_ref().map(short), r.status, r.message)),
        Err(CallError::Timeout(_)) => Err("no answer in 20 s".into()),
        Err(CallError::Channel(e)) => Err(format!("channel: {e}")),
    }
}

fn short(rt: &RequestType) -> String {
    let s = format!("{rt:?}");
    s.split(['(', '{', ' ']).next().unwrap_or("").to_owned()
}

fn lt(kind: Kind) -> ListenerType {
    match kind {
        Kind::Http => ListenerType::Http,
        Kind::Https => ListenerType::Https,
        Kind::Tcp => ListenerType::Tcp,
    }
}

fn configure(w: &mut Worker, state: &mut ConfigState, cell: &Cell) -> Result<(), String> {
    let cert = std::fs::read_to_string("/repo/lib/assets/certificate.pem").map_err(|e| e.to_string())?;
    let key = std::fs::read_to_string("/repo/lib/assets/key.pem").map_err(|e| e.to_string())?;
    send_ok(w, state, RequestType::AddCluster(Cluster { cluster_id: "h".into(), ..Default::default() }))?;
    send_ok(w, state, RequestType::AddCluster(Cluster { cluster_id: "t".into(), ..Default::default() }))?;
    for (li, (kind, addr)) in cell.listeners.iter().enumerate() {
        let tweak = |b: &mut ListenerBuilder| {
            b.public_address = cell.public[li];
            b.front_timeout = Some(120);
            b.back_timeout = Some(120);
            b.request_timeout = Some(120);
            b.connect_timeout = Some(10);
            // documented defences that legitimately cancel chatty peers (the scripted H2 client gives
            // window back after every DATA frame): out of the way, as in C14
            b.h2_stream_idle_timeout_seconds = Some(3600);
            b.h2_max_window_update_stream0_per_window = Some(1_000_000);
            b.h2_max_settings_per_window = Some(100_000);
            b.h2_max_ping_per_window = Some(100_000);
            b.h2_max_glitch_count = Some(1_000_000);
            b.h2_max_empty_data_per_window = Some(100_000);
        };
        match kind {
            Kind::Http => {
                let mut b = ListenerBuilder::new_http((*addr).into());
                tweak(&mut b);
                send_ok(w, state, RequestType::AddHttpListener(b.to_http(None).map_err(|e| e.to_string())?))?;
            }
            Kind::Https => {
                let mut b = ListenerBuilder::new_https((*addr).into());
                tweak(&mut b);
                send_ok(w, state, RequestType::AddHttpsListener(b.to_tls(None).map_err(|e| e.to_string())?))?;
            }
            Kind::Tcp => {
                let mut b = ListenerBuilder::new_tcp((*addr).into());
                tweak(&mut b);
                send_ok(w, state, RequestType::AddTcpListener(b.to_tcp(None).map_err(|e| e.to_string())?))?;
            }
        }
        send_ok(w, state, RequestType::ActivateListener(ActivateListener { address: (*addr).into(), proxy: lt(*kind).into(), from_scm: false }))?;
        match kind {
            Kind::Http => send_ok(w, state, RequestType::AddHttpFrontend(Worker::http_frontend("h", *addr, HOST, "/")))?,
            Kind::Https => {
                send_ok(w, state, RequestType::AddHttpsFrontend(Worker::http_frontend("h", *addr, HOST, "/")))?;
                send_ok(
                    w,
                    state,
                    RequestType::AddCertificate(AddCertificate {
                        address: (*addr).into(),
                        certificate: CertificateAndKey { certificate: cert.clone(), certificate_chain: vec![], key: key.clone(), versions: vec![], names: vec![HOST.into()] },
                        expired_at: None,
                    }),
                )?;
            }
            Kind::Tcp => send_ok(w, state, RequestType::AddTcpFrontend(RequestTcpFrontend { cluster_id: "t".into(), address: (*addr).into(), ..Default::default() }))?,
        }
    }
    for (cluster, id, addr) in [("h", "h-old", cell.http_old), ("t", "t-old", cell.tcp_old)] {
        send_ok(
            w,
            state,
            RequestType::AddBackend(AddBackend {
                cluster_id: cluster.into(),
                backend_id: id.into(),
                address: addr.into(),
                load_balancing_parameters: Some(LoadBalancingParams::default()),
                sticky_id: None,
                backup: None,
            }),
        )?;
    }
    Ok(())
}

/// pre-history: listener additions the worker answers with a failure; they must leave no trace in
/// what a later soft stop waits for
fn rejected_additions(w: &mut Worker, state: &mut ConfigState, cell: &Cell, plan: &Plan, rep: &mut Report) -> Result<(), String> {
    let ip = match cell.listeners[0].1 {
        SocketAddr::V4(a) => *a.ip(),
        _ => return Ok(()),
    };
    for (j, kind) in plan.rejected.iter().enumerate() {
        let addr = lab::sa(ip, 8900 + j as u16);
        let bad_template = ("404".to_owned(), "this is not an HTTP response".to_owned());
        let rt = match kind {
            0 | 1 => {
                let mut c = ListenerBuilder::new_https(addr.into()).to_tls(None).map_err(|e| e.to_string())?;
                if *kind == 0 {
                    c.versions = vec![TlsVersion::TlsV11 as i32];
                } else {
                    c.answers.insert(bad_template.0, bad_template.1);
                }
                RequestType::AddHttpsListener(c)
            }
            _ => {
                let mut c = ListenerBuilder::new_http(addr.into()).to_http(None).map_err(|e| e.to_string())?;
                c.answers.insert(bad_template.0, bad_template.1);
                RequestType::AddHttpListener(c)
            }
        };
        let req: Request = rt.clone().into();
        match w.call(rt, Duration::from_secs(20)) {
            Ok(r) if r.status == ResponseStatus::Failure as i32 => rep.obs("B.rejected_listener_additions", 1),
            Ok(_) => {
                // the worker took it: an inactive listener on an unused address, kept in the successor's state too
                let _ = state.dispatch(&req);
                rep.obs("B.listener_additions_meant_to_be_rejected_but_accepted", 1);
            }
            Err(e) => return Err(format!("no answer to a listener addition meant to be rejected: {e:?}")),
        }
    }
    Ok(())
}

/// the successor's state: same listeners, frontends, certificates; backends swapped for the ones
/// tagged "new"; listeners inactive when they will be activated from the received descriptors
fn successor_state(state: &ConfigState, cell: &Cell, deactivate: bool) -> ConfigState {
    let mut s = state.clone();
    if deactivate {
        for l in s.http_listeners.values_mut() {
            l.active = false;
        }
        for l in s.https_listeners.values_mut() {
            l.active = false;
        }
        for l in s.tcp_listeners.values_mut() {
            l.active = false;
        }
    }
    for (cluster, old_id, old, new_id, new) in [("h", "h-old", cell.http_old, "h-new", cell.http_new), ("t", "t-old", cell.tcp_old, "t-new", cell.tcp_new)] {
        let _ = s.dispatch(&RequestType::RemoveBackend(RemoveBackend { cluster_id: cluster.into(), backend_id: old_id.into(), address: old.into() }).into());
        let _ = s.dispatch(
            &RequestType::AddBackend(AddBackend {
                cluster_id: cluster.into(),
                backend_id: new_id.into(),
                address: new.into(),
                load_balancing_parameters: Some(LoadBalancingParams::default()),
                sticky_id: None,
                backup: None,
            })
            .into(),
        );
    }
    s
}

fn sockname(fd: RawFd) -> Option<SocketAddr> {
    // SAFETY: the descriptor is only borrowed: ownership is released again with into_raw_fd
    let s = unsafe { Socket::from_raw_fd(fd) };
    let r = s.local_addr().ok().and_then(|a| a.as_socket());
    let _ = s.into_raw_fd();
    r
}

fn set_rcvtimeo(fd: RawFd, d: Duration) {
    let tv = libc::timeval { tv_sec: d.as_secs() as libc::time_t, tv_usec: d.subsec_micros() as libc::suseconds_t };
    // SAFETY: plain setsockopt on a descriptor we own
    unsafe {
        libc::setsockopt(fd, libc::SOL_SOCKET, libc::SO_RCVTIMEO, &tv as *const _ as *const libc::c_void, std::mem::size_of::<libc::timeval>() as libc::socklen_t);
    }
}

// ------------------------------------------------------------------------------------------------
// findings of one case
// ------------------------------------------------------------------------------------------------

struct Finding {
    sig: String,
    what: String,
    witness: Value,
    /// decided by a wall-clock bound: counts only when it reproduces in isolation
    timed: bool,
}

pub struct Pending {
    pub case: u64,
    pub sig: String,
}

struct Run<'a> {
    ctx: &'a Ctx,
    plan: Plan,
    sh: Arc<Shared>,
    findings: Vec<Finding>,
    family: &'static str,
}

impl Run<'_> {
    fn base(&self) -> Value {
        json!({"monitor": MONITOR, "case": self.plan.case, "seed": self.plan.seed, "tier": self.ctx.tier.name(), "plan": self.plan.json(), "timeline": self.sh.timeline(),
            "reproduce": format!("vh C10 --tier {} --seed {} --opt only=B --opt case={}", self.ctx.tier.name(), self.plan.seed, self.plan.case)})
    }
    fn find(&mut self, sig: &str, what: &str, extra: Value, timed: bool) {
        let mut w = self.base();
        if let (Some(o), Some(e)) = (w.as_object_mut(), extra.as_object()) {
            for (k, v) in e {
                o.insert(k.clone(), v.clone());
            }
        }
        self.findings.push(Finding { sig: format!("{}/{sig}", self.family), what: what.to_owned(), witness: w, timed });
    }
}

fn panic_json(p: &PanicRec) -> Value {
    json!({"thread": p.thread, "message": p.message, "location": p.location})
}

/// kill the in-thread old worker: HardStop, or close its command channel
fn kill_worker(sh: &Shared, w: &mut Worker, drop_channel: bool, keep: &mut Vec<Channel<WorkerResponse, WorkerRequest>>) {
    // what the dead worker had accepted is nobody's business any more: connections made before it
    // gave its listeners back (or before the kill when it never did) are abandoned by the clients
    let t = sh.at("return_listen_sockets_sent").unwrap_or_else(|| sh.us());
    sh.cancel_before_us.store(t.max(1), Ordering::SeqCst);
    if drop_channel {
        if let Ok((a, b)) = Channel::<WorkerRequest, WorkerResponse>::generate(w.config.command_buffer_size, w.config.max_command_buffer_size) {
            let old = std::mem::replace(&mut w.channel, a);
            drop(old);
            keep.push(b);
        }
    } else {
        let _ = w.send(RequestType::HardStop(HardStop {}));
    }
}

fn events_json(sh: &Shared, w: &Worker) -> Value {
    let ev = w.probe.events();
    let accepts = ev.iter().filter(|e| e.kind == "accept").count();
    let tail: Vec<Value> = ev.iter().filter(|e| e.kind != "accept").map(|e| json!({"event": e.kind, "detail": e.detail, "at_us": sh.us_of(e.at)})).collect();
    let last_accept = ev.iter().filter(|e| e.kind == "accept").last().map(|e| sh.us_of(e.at));
    json!({"accept_events": accepts, "last_accept_at_us": last_accept, "other_events": tail})
}

// ------------------------------------------------------------------------------------------------
// one case
// ------------------------------------------------------------------------------------------------

pub fn run_case(ctx: &Ctx, case: u64, rep: &mut Report, pending: &Mutex<Vec<Pending>>, isolated: bool) {
    let plan = make_plan(ctx, case);
    let family: &'static str = match plan.scenario {
        Scenario::Control => "control",
        Scenario::Handover if plan.main_like_state => "handover_as_main",
        Scenario::Handover => "handover",
        Scenario::SoftStop => "softstop",
        Scenario::CrashBeforeReturn => "crash_before_return",
        Scenario::CrashAfterFds => "crash_after_fds",
        Scenario::CrashDuringSoftStop => "crash_during_soft_stop",
    };
    let sh = Arc::new(Shared::new(case.wrapping_mul(1_000_000) + 1));
    let mut run = Run { ctx, plan: plan.clone(), sh: sh.clone(), findings: Vec::new(), family };
    let started = Instant::now();
    let outcome = execute(&mut run, rep);
    rep.obs_max("B.case_wall_ms", started.elapsed().as_millis() as u64);
    rep.obs("B.case_wall_ms_total", started.elapsed().as_millis() as u64);
    // wind everything down whatever happened
    sh.abort.store(true, Ordering::SeqCst);
    sh.fleet_stop.store(true, Ordering::SeqCst);
    sh.gates[0].release();
    sh.gates[1].release();
    let nontrivial = outcome.is_ok();
    rep.case_bytes(plan.shape().as_bytes(), nontrivial);
    match outcome {
        Ok(()) => {
            rep.obs(&format!("B.handovers/{}", plan.scenario.name()), 1);
            if plan.main_like_state {
                rep.obs("B.handovers_with_the_main_process_state", 1);
            }
            rep.obs_max("B.listeners_per_handover", plan.kinds.len() as u64);
        }
        Err(why) => rep.inconclusive(&format!("B: {why}")),
    }
    if rep.samples.len() < 3 && case % 7 == 1 {
        rep.sample(json!({"monitor": MONITOR, "case": case, "plan": plan.json(), "timeline": sh.timeline()}));
    }
    for f in run.findings {
        if f.timed && !isolated {
            rep.obs("B.time_bounded_misses_sent_to_isolated_rerun", 1);
            pending.lock().unwrap().push(Pending { case, sig: f.sig });
        } else {
            rep.violation(&f.sig, &f.what, f.witness);
        }
    }
}

struct Traffic {
    inflight: Vec<(JoinHandle<InflightResult>, Arc<ParkFlag>)>,
    fleet: Vec<JoinHandle<Vec<FleetConn>>>,
}

fn join_with<T>(h: JoinHandle<T>, max: Duration) -> Option<T> {
    let start = Instant::now();
    while !h.is_finished() {
        if start.elapsed() > max {
            return None;
        }
        std::thread::sleep(Duration::from_millis(2));
    }
    h.join().ok()
}

fn execute(run: &mut Run, rep: &mut Report) -> Result<(), String> {
    let plan = run.plan.clone();
    let sh = run.sh.clone();
    let ip = lab::fresh_ip();
    let cell = Cell {
        listeners: plan.kinds.iter().enumerate().map(|(i, k)| (*k, lab::sa(ip, 8000 + i as u16))).collect(),
        public: plan.public.iter().enumerate().map(|(i, p)| p.then(|| SocketAddr::from(([203, 0, 113, (i % 250) as u8 + 1], 443 + i as u16)))).collect(),
        http_old: lab::sa(ip, 9000),
        http_new: lab::sa(ip, 9001),
        tcp_old: lab::sa(ip, 9100),
        tcp_new: lab::sa(ip, 9101),
    };
    let mut backends = Vec::new();
    for (addr, tag) in [(cell.http_old, "old"), (cell.http_new, "new")] {
        backends.push(BackendServer::start(addr, IoProgram::fast(), http_backend_handler(sh.clone(), tag)).map_err(|e| format!("backend {addr}: {e}"))?);
    }
    for (addr, tag) in [(cell.tcp_old, b'O'), (cell.tcp_new, b'N')] {
        backends.push(BackendServer::start(addr, IoProgram::fast(), tcp_backend_handler(sh.clone(), tag)).map_err(|e| format!("backend {addr}: {e}"))?);
    }
    let mut opts = WorkerOpts::default();
    opts.max_connections = 4000;
    opts.max_buffers = 4000;
    let mut old = Worker::start(opts.clone());
    {
        let (sh2, probe) = (sh.clone(), old.probe.clone());
        let _ = std::thread::Builder::new().name(format!("c10-loopclock-{}", plan.case)).spawn(move || {
            while !sh2.abort.load(Ordering::SeqCst) && sh2.t0.elapsed() < Duration::from_secs(120) {
                let sample = (sh2.us(), probe.snapshot().iteration);
                sh2.loop_samples.lock().unwrap().push(sample);
                std::thread::sleep(Duration::from_millis(10));
            }
        });
    }
    let mut state = ConfigState::new();
    let mut keep_channels = Vec::new();
    let mut new: Option<Worker> = None;

    let result = drive(run, rep, &plan, &cell, &mut old, &mut new, &mut state, &opts, &mut keep_channels);

    // tear down; panics of either worker are findings of their own
    sh.abort.store(true, Ordering::SeqCst);
    sh.fleet_stop.store(true, Ordering::SeqCst);
    sh.gates[0].release();
    sh.gates[1].release();
    let ev_old = events_json(&sh, &old);
    let mut panics: Vec<(&str, PanicRec)> = Vec::new();
    if let Some(n) = new {
        for p in n.stop() {
            panics.push(("successor", p));
        }
    }
    for p in old.stop() {
        panics.push(("old worker", p));
    }
    for (who, p) in panics {
        if p.in_sozu() {
            run.findings.push(Finding {
                sig: p.signature(),
                what: format!("the {who} panicked during {}: {} at {}", plan.scenario.name(), p.message, p.location),
                witness: {
                    let mut w = run.base();
                    w["panic"] = panic_json(&p);
                    w["worker"] = json!(who);
                    w["old_worker_events"] = ev_old.clone();
                    w
                },
                timed: false,
            });
        } else {
            rep.broken(&format!("harness-side panic in a worker thread ({who}): {} at {}", p.message, p.location));
        }
    }
    rep.obs("B.panic_checks", 1);
    for b in backends.iter_mut() {
        b.stop();
    }
    result
}

#[allow(clippy::too_many_arguments)]
fn drive(
    run: &mut Run,
    rep: &mut Report,
    plan: &Plan,
    cell: &Cell,
    old: &mut Worker,
    new_slot: &mut Option<Worker>,
    state: &mut ConfigState,
    opts: &WorkerOpts,
    keep_channels: &mut Vec<Channel<WorkerResponse, WorkerRequest>>,
) -> Result<(), String> {
    let sh = run.sh.clone();
    configure(old, state, cell).map_err(|e| format!("the old worker refused the cell configuration: {e}"))?;
    rejected_additions(old, state, cell, plan, rep)?;
    let mut prng = Rng::for_case(plan.seed, STREAM_FLEET + 99, plan.case);

    // warm-up: every listener answers through the old worker
    for li in 0..cell.listeners.len() {
        let p = probe(&sh, &mut prng, &cell.listeners, li);
        let ok = p.connect_err.is_none() && p.handshake_err.is_none() && p.reqs.first().is_some_and(|r| matches!(r.end, ReqEnd::Ok) && r.tag.as_deref() == Some("old"));
        if !ok {
            return Err(format!("warm-up probe of listener {li} through the old worker failed: {}", p.json()));
        }
    }
    sh.step("warmed_up");

    // park the in-flight requests
    let mut traffic = Traffic { inflight: Vec::new(), fleet: Vec::new() };
    for ip in &plan.inflight {
        let flag = Arc::new(ParkFlag(std::sync::atomic::AtomicBool::new(false)));
        let (kind, addr) = cell.listeners[ip.listener];
        let (sh2, ip2, f2) = (sh.clone(), ip.clone(), flag.clone());
        let h = std::thread::Builder::new().name(format!("c10-inflight-{}", plan.case)).spawn(move || run_inflight(sh2, ip2, kind, addr, f2)).map_err(|e| e.to_string())?;
        traffic.inflight.push((h, flag));
    }
    let start = Instant::now();
    loop {
        if traffic.inflight.iter().all(|(h, f)| f.0.load(Ordering::SeqCst) || h.is_finished()) {
            break;
        }
        if start.elapsed() > Duration::from_secs(20) {
            break;
        }
        std::thread::sleep(Duration::from_millis(1));
    }
    sh.step("in_flight_parked");

    // fleet (with a lone exchange it starts once the old worker accepts no more)
    let start_fleet = |traffic: &mut Traffic| -> Result<(), String> {
        for t in 0..plan.fleet_threads {
            let (sh2, l2) = (sh.clone(), cell.listeners.clone());
            let rng = Rng::for_case(plan.seed, STREAM_FLEET + t as u64, plan.case);
            let slow = plan.fleet_slow_pct;
            traffic.fleet.push(std::thread::Builder::new().name(format!("c10-fleet-{}", plan.case)).spawn(move || fleet_thread(sh2, rng, l2, slow, 4000)).map_err(|e| e.to_string())?);
        }
        Ok(())
    };
    if !plan.lone {
        start_fleet(&mut traffic)?;
    } else {
        // nothing but the parked exchange is open on the old worker: the warm-up connections are gone
        let start = Instant::now();
        while old.probe.snapshot().nb_connections != 1 && start.elapsed() < Duration::from_secs(3) {
            std::thread::sleep(Duration::from_millis(2));
        }
        let snap = old.probe.snapshot();
        let parked = traffic.inflight.first().is_some_and(|(_, f)| f.0.load(Ordering::SeqCst));
        if parked && snap.nb_connections == 1 {
            rep.obs("B.softstops_with_single_parked_exchange", 1);
            rep.obs_max("B.slab_entries_above_base_with_single_parked_exchange", snap.slab_len.saturating_sub(snap.base_sessions_count) as u64);
            sh.step("single_exchange_open_on_the_old_worker");
        }
    }
    if plan.burst > 0 && plan.scenario != Scenario::SoftStop && plan.scenario != Scenario::CrashBeforeReturn {
        let (sh2, l2, n) = (sh.clone(), cell.listeners.clone(), plan.burst);
        let rng = Rng::for_case(plan.seed, STREAM_FLEET + 50, plan.case);
        traffic.fleet.push(std::thread::Builder::new().name(format!("c10-burst-{}", plan.case)).spawn(move || burst_thread(sh2, rng, l2, n)).map_err(|e| e.to_string())?);
    }
    std::thread::sleep(Duration::from_millis(plan.pre_ms));

    let release = |step: u8| {
        for g in 0..2 {
            if plan.release_at[g] <= step {
                sh.gates[g].release();
            }
        }
    };

    let mut softstop_id: Option<String> = None;
    let mut received: Option<Listeners> = None;
    let mut old_killed = false;
    let mut setup_error: Option<String> = None;

    match plan.scenario {
        Scenario::Control => {
            std::thread::sleep(Duration::from_millis(plan.gap_ms));
            release(3);
        }
        Scenario::SoftStop => {
            // the fleet stops starting connections just before the stop; what is under way continues
            sh.fleet_stop.store(true, Ordering::SeqCst);
            sh.step("soft_stop_sent");
            softstop_id = Some(old.soft_stop().map_err(|e| format!("could not send SoftStop: {e}"))?);
            std::thread::sleep(Duration::from_millis(plan.gap_ms));
            release(1);
            std::thread::sleep(Duration::from_millis(if plan.release_at[1] >= 3 { plan.late_ms } else { 0 }));
            release(3);
        }
        Scenario::CrashBeforeReturn => {
            sh.step("old_worker_killed");
            kill_worker(&sh, old, plan.crash_drop_channel, keep_channels);
            old_killed = true;
            if !old.join(Duration::from_secs(10)) {
                setup_error = Some("the old worker thread did not end after the kill".into());
            }
            release(3);
            let n = Worker::start(WorkerOpts { initial_state: successor_state(state, cell, false), listeners: None, ..opts.clone() });
            *new_slot = Some(n);
            let n = new_slot.as_mut().unwrap();
            sh.step("successor_started");
            match n.call(RequestType::Status(Status {}), Duration::from_secs(20)) {
                Ok(_) => {}
                Err(e) => setup_error = Some(format!("the successor does not answer Status: {e:?}")),
            }
            sh.step("successor_activated");
        }
        _ => {
            // ---- ReturnListenSockets
            sh.step("return_listen_sockets_sent");
            let id = old.send(RequestType::ReturnListenSockets(ReturnListenSockets {})).map_err(|e| format!("could not send ReturnListenSockets: {e}"))?;
            match old.wait_final(&id, Duration::from_secs(20)) {
                Ok(r) if r.status == ResponseStatus::Ok as i32 => {}
                Ok(r) => {
                    run.find("return_listen_sockets_failed", &format!("the old worker answered ReturnListenSockets with a failure: {}", r.message), json!({"answer": r.message}), false);
                    return finish_traffic(run, rep, plan, cell, traffic, old, None, None, false, true);
                }
                Err(e) => return Err(format!("no answer to ReturnListenSockets: {e:?}")),
            }
            sh.step("return_listen_sockets_answered");
            set_rcvtimeo(old.scm_main.fd, Duration::from_secs(10));
            let _ = old.scm_main.set_blocking(true);
            let got = match old.scm_main.receive_listeners() {
                Ok(l) => l,
                Err(e) => {
                    let text = e.to_string();
                    if text.contains("EAGAIN") || text.contains("EWOULDBLOCK") {
                        return Err("receive_listeners hit the harness watchdog".into());
                    }
                    run.find("receive_listeners_failed", &format!("the listeners the old worker sent back could not be received: {text}"), json!({"error": text, "listeners": cell.listeners.len()}), false);
                    return finish_traffic(run, rep, plan, cell, traffic, old, None, None, false, true);
                }
            };
            sh.step("fds_received");
            if plan.lone {
                start_fleet(&mut traffic)?;
            }
            check_manifest(run, rep, cell, &got);
            sh.burst_go.store(true, Ordering::SeqCst);
            release(0);

            let crash_now = plan.scenario == Scenario::CrashAfterFds;
            if crash_now {
                std::thread::sleep(Duration::from_millis(plan.gap_ms.min(40)));
                sh.step("old_worker_killed");
                kill_worker(&sh, old, plan.crash_drop_channel, keep_channels);
                old_killed = true;
            } else if plan.softstop_first {
                sh.step("soft_stop_sent");
                softstop_id = Some(old.soft_stop().map_err(|e| format!("could not send SoftStop: {e}"))?);
                release(1);
                std::thread::sleep(Duration::from_millis(plan.gap_ms));
                if plan.scenario == Scenario::CrashDuringSoftStop && plan.case % 2 == 0 {
                    sh.step("old_worker_killed");
                    kill_worker(&sh, old, plan.crash_drop_channel, keep_channels);
                    old_killed = true;
                }
            }

            // ---- successor
            let n = Worker::start(WorkerOpts { initial_state: successor_state(state, cell, !plan.main_like_state), listeners: Some(got.clone()), ..opts.clone() });
            got.close();
            *new_slot = Some(n);
            let n = new_slot.as_mut().unwrap();
            sh.step("successor_started");
            let mut act_ids = Vec::new();
            for (kind, addr) in &cell.listeners {
                match n.send(RequestType::ActivateListener(ActivateListener { address: (*addr).into(), proxy: lt(*kind).into(), from_scm: true })) {
                    Ok(id) => act_ids.push((id, *kind, *addr)),
                    Err(e) => setup_error = Some(format!("could not send ActivateListener: {e}")),
                }
            }
            for (id, kind, addr) in act_ids {
                match n.wait_final(&id, Duration::from_secs(30)) {
                    Ok(r) if r.status == ResponseStatus::Ok as i32 => rep.obs("B.listeners_activated_from_scm", 1),
                    Ok(r) => run.find(
                        &format!("activation_failed/{}", kind.name()),
                        &format!("the successor could not activate {} listener {addr} from the received descriptor: {}", kind.name(), r.message),
                        json!({"listener": addr.to_string(), "answer": r.message}),
                        false,
                    ),
                    Err(e) => setup_error = Some(format!("no answer to ActivateListener: {e:?}")),
                }
            }
            sh.step("successor_activated");
            received = Some(got);

            if !old_killed && !plan.softstop_first {
                std::thread::sleep(Duration::from_millis(plan.gap_ms));
                sh.step("soft_stop_sent");
                softstop_id = Some(old.soft_stop().map_err(|e| format!("could not send SoftStop: {e}"))?);
            }
            release(2);
            if plan.scenario == Scenario::CrashDuringSoftStop && !old_killed {
                std::thread::sleep(Duration::from_millis(plan.gap_ms.min(60)));
                sh.step("old_worker_killed");
                kill_worker(&sh, old, plan.crash_drop_channel, keep_channels);
                old_killed = true;
            }
            std::thread::sleep(Duration::from_millis(if plan.release_at.iter().any(|r| *r >= 3) { plan.late_ms } else { 0 }));
            release(3);
        }
    }
    sh.step("gates_open");
    if let Some(e) = setup_error {
        let _ = finish_traffic(run, rep, plan, cell, traffic, old, None, None, true, true);
        return Err(e);
    }
    let _ = received;
    finish_traffic(run, rep, plan, cell, traffic, old, new_slot.as_mut(), softstop_id, old_killed, false)
}

/// oracle 2a: the (address, descriptor) pairs that came back are exactly the configured listeners
fn check_manifest(run: &mut Run, rep: &mut Report, cell: &Cell, got: &Listeners) {
    let mut expected: BTreeSet<(Kind, SocketAddr)> = cell.listeners.iter().copied().collect();
    for (kind, list) in [(Kind::Http, &got.http), (Kind::Https, &got.tls), (Kind::Tcp, &got.tcp)] {
        for (addr, fd) in list {
            if !expected.remove(&(kind, *addr)) {
                run.find("manifest/unexpected_listener", &format!("the old worker returned a {} listener {addr} that was not configured (or twice)", kind.name()), json!({"listener": addr.to_string()}), false);
                continue;
            }
            let bound = sockname(*fd);
            if bound != Some(*addr) {
                run.find(
                    "manifest/fd_bound_to_other_address",
                    &format!("descriptor returned for {} listener {addr} is bound to {bound:?}", kind.name()),
                    json!({"listener": addr.to_string(), "getsockname": format!("{bound:?}")}),
                    false,
                );
            } else {
                rep.obs("B.manifest_pairs_checked", 1);
            }
        }
    }
    if !got.udp.is_empty() {
        run.find("manifest/unexpected_listener", "the old worker returned UDP listeners although none was configured", json!({"udp": got.udp.len()}), false);
    }
    for (kind, addr) in expected {
        run.find(
            &format!("manifest/listener_missing/{}", kind.name()),
            &format!("{} listener {addr} is missing from the listeners the old worker handed back", kind.name()),
            json!({"listener": addr.to_string(), "returned": {"http": got.http.len(), "tls": got.tls.len(), "tcp": got.tcp.len()}}),
            false,
        );
    }
}

#[allow(clippy::too_many_arguments)]
fn finish_traffic(
    run: &mut Run,
    rep: &mut Report,
    plan: &Plan,
    cell: &Cell,
    traffic: Traffic,
    old: &mut Worker,
    new: Option<&mut Worker>,
    softstop_id: Option<String>,
    old_killed: bool,
    aborted: bool,
) -> Result<(), String> {
    let sh = run.sh.clone();
    if aborted {
        sh.abort.store(true, Ordering::SeqCst);
        sh.gates[0].release();
        sh.gates[1].release();
    }
    // let the fleet run a little past the activation, then stop it
    if !aborted {
        std::thread::sleep(Duration::from_millis(plan.tail_ms));
    }
    sh.fleet_stop.store(true, Ordering::SeqCst);
    sh.burst_go.store(true, Ordering::SeqCst);
    sh.step("fleet_stopped");
    let mut inflight = Vec::new();
    {
        // the in-thread old worker cannot take its sockets with it when its event loop returns (a
        // process would): once its thread is gone, clients still waiting on it are told to give up —
        // what they were waiting for is judged from the event log (exit with a request in flight)
        let start = Instant::now();
        let mut gone_since: Option<Instant> = None;
        while !traffic.inflight.iter().all(|(h, _)| h.is_finished()) && start.elapsed() < Duration::from_secs(90) {
            if !old.is_running() && !old_killed {
                let g = *gone_since.get_or_insert_with(Instant::now);
                if g.elapsed() > Duration::from_millis(700) && sh.cancel_before_us.load(Ordering::SeqCst) == 0 {
                    sh.step("old_worker_thread_gone_clients_still_waiting");
                    sh.cancel_before_us.store(sh.at("soft_stop_sent").unwrap_or(1).max(1), Ordering::SeqCst);
                }
            }
            std::thread::sleep(Duration::from_millis(2));
        }
    }
    for (h, _) in traffic.inflight {
        match join_with(h, Duration::from_secs(5)) {
            Some(r) => inflight.push(r),
            None => return Err("an in-flight client thread did not end".into()),
        }
    }
    sh.step("in_flight_clients_done");
    let mut conns: Vec<FleetConn> = Vec::new();
    for h in traffic.fleet {
        match join_with(h, Duration::from_secs(60)) {
            Some(v) => conns.extend(v),
            None => return Err("a fleet thread did not end".into()),
        }
    }
    sh.step("fleet_done");
    if aborted {
        return Ok(());
    }

    // ---- old worker: final answer, exit, event log (oracle 4)
    let t_clients_done = Instant::now();
    let mut ack_us: Option<u64> = None;
    if let (Some(id), false) = (&softstop_id, old_killed) {
        let wait = GRACEFUL_DEADLINE + EXIT_SLACK;
        let fin = old.wait_final(id, wait);
        let joined = old.join(Duration::from_secs(4));
        // anything else the old worker wrote
        while let Ok(Some(_)) = old.recv(Duration::from_millis(20)) {}
        let finals: Vec<&WorkerResponse> = old.log.iter().filter(|r| &r.id == id && r.status != ResponseStatus::Processing as i32).collect();
        if plan.scenario == Scenario::SoftStop && !matches!(fin, Err(CallError::Timeout(_))) {
            // somebody knocks after the acknowledgement: a worker that still listened and accepted
            // would show it in its event log (the connects themselves are not judged)
            for (_, addr) in cell.listeners.iter().take(4) {
                if let Ok(s) = std::net::TcpStream::connect_timeout(addr, Duration::from_millis(300)) {
                    rep.obs("B.connects_after_ack_succeeded(listener still open)", 1);
                    drop(s);
                } else {
                    rep.obs("B.connects_after_ack_refused", 1);
                }
            }
            std::thread::sleep(Duration::from_millis(150));
        }
        let ev = old.probe.events();
        let acks: Vec<usize> = ev.iter().enumerate().filter(|(_, e)| e.kind == "soft_stop_ack").map(|(i, _)| i).collect();
        let exits: Vec<usize> = ev.iter().enumerate().filter(|(_, e)| e.kind == "exit").map(|(i, _)| i).collect();
        rep.obs("B.soft_stop_ack_events", acks.len() as u64);
        rep.obs("B.accept_events_old_worker", ev.iter().filter(|e| e.kind == "accept").count() as u64);
        ack_us = acks.first().map(|i| sh.us_of(ev[*i].at));
        let evj = events_json(&sh, old);
        let snap = old.probe.snapshot();
        let snapj = json!({"slab_len": snap.slab_len, "base_sessions_count": snap.base_sessions_count, "nb_connections": snap.nb_connections, "shutting_down": snap.shutting_down});
        if matches!(fin, Err(CallError::Timeout(_))) && acks.is_empty() {
            run.find(
                "old_worker_never_acknowledges",
                &format!("every client of the old worker was done, yet no final answer to SoftStop within {} s", wait.as_secs()),
                json!({"old_worker_events": evj, "last_loop_snapshot": snapj, "waited_s_after_last_client": t_clients_done.elapsed().as_secs_f64()}),
                true,
            );
        } else {
            rep.obs("B.event_log_checked", 1);
            if acks.len() != 1 {
                run.find(&format!("soft_stop_ack_count/{}", acks.len().min(2)), &format!("{} soft-stop acknowledgements in the old worker's event log", acks.len()), json!({"old_worker_events": evj}), false);
            }
            if let Some(a) = acks.first() {
                if let Some(late) = ev.iter().enumerate().find(|(i, e)| i > a && e.kind == "accept") {
                    run.find(
                        "accept_after_ack",
                        "the old worker accepted a connection after it acknowledged the soft stop",
                        json!({"old_worker_events": evj, "accept": {"detail": late.1.detail, "at_us": sh.us_of(late.1.at)}}),
                        false,
                    );
                }
                if !exits.iter().any(|x| x > a) && !joined {
                    run.find("no_exit_after_ack", "the old worker acknowledged the soft stop but its event loop did not return", json!({"old_worker_events": evj, "last_loop_snapshot": snapj}), true);
                }
            }
            let oks = finals.iter().filter(|r| r.status == ResponseStatus::Ok as i32).count();
            let fails = finals.len() - oks;
            if fails > 0 {
                run.find("soft_stop_answered_failure", &format!("SoftStop answered with a failure: {}", finals.iter().map(|r| r.message.clone()).collect::<Vec<_>>().join(" | ")), json!({"old_worker_events": evj}), false);
            } else if oks != 1 && !acks.is_empty() {
                run.find(&format!("soft_stop_final_answers/{}", oks.min(2)), &format!("{oks} final OK answers to the SoftStop request on the command channel (1 expected)"), json!({"old_worker_events": evj, "answers": oks}), false);
            } else if oks == 1 {
                rep.obs("B.soft_stop_answered_exactly_once", 1);
            }
            if joined {
                rep.obs("B.old_worker_thread_ended", 1);
            }
        }
    } else if old_killed {
        let joined = old.join(Duration::from_secs(10));
        rep.obs(&format!("B.crash_cases/{}/{}", plan.scenario.name(), if plan.crash_drop_channel { "channel_dropped" } else { "hard_stop" }), 1);
        if !joined {
            run.find("killed_worker_does_not_end", "the old worker's event loop did not return after the kill", json!({}), true);
        }
    }

    // ---- successor: every listener answers, served by the successor (oracle 2b)
    if let Some(n) = new {
        let mut prng = Rng::for_case(plan.seed, STREAM_FLEET + 98, plan.case);
        for li in 0..cell.listeners.len() {
            let p = probe(&sh, &mut prng, &cell.listeners, li);
            let (kind, addr) = cell.listeners[li];
            let first = p.reqs.first();
            if let Some((class, text)) = &p.connect_err {
                let timed = class == "timeout";
                run.find(&format!("listener_lost/connect_{class}/{}", kind.name()), &format!("after the hand-over connect() to {} listener {addr} fails: {text}", kind.name()), json!({"probe": p.json()}), timed);
            } else if p.handshake_err.is_some() || !first.is_some_and(|r| matches!(r.end, ReqEnd::Ok)) {
                let timed = first.is_some_and(|r| matches!(r.end, ReqEnd::Timeout(_)));
                run.find(
                    &format!("listener_not_served_by_successor/{}", kind.name()),
                    &format!("after the hand-over {} listener {addr} accepts connections but the probe is not answered", kind.name()),
                    json!({"probe": p.json(), "successor_running": n.is_running()}),
                    timed,
                );
            } else if first.and_then(|r| r.tag.as_deref()) != Some("new") {
                run.find(
                    &format!("probe_served_by_old_worker/{}", kind.name()),
                    &format!("after the hand-over a fresh connection to {} listener {addr} is still served by the old worker", kind.name()),
                    json!({"probe": p.json()}),
                    false,
                );
            } else {
                rep.obs("B.probes_served_by_successor", 1);
            }
        }
    }

    judge_inflight(run, rep, plan, &inflight, ack_us, old_killed);
    judge_fleet(run, rep, plan, &conns, old_killed);
    Ok(())
}

/// A hung exchange is decided without a wall-clock argument when the backend had handed the whole
/// final response of every request of the exchange to the kernel (loopback: available to the worker
/// at once) and the old worker then completed at least 20 event-loop iterations, each a chance to
/// relay it, before the client gave up: Some(iterations).
fn hung_decided(sh: &Shared, r: &InflightResult) -> Option<u64> {
    let ids: &[u64] = match r.plan.phase {
        Phase::KeepAlive => &r.ids[r.ids.len().saturating_sub(1)..],
        _ => &r.ids,
    };
    let mut last = 0;
    for id in ids {
        last = last.max(sh.seen_of(*id).final_written_us?);
    }
    if ids.is_empty() {
        return None;
    }
    sh.loop_iterations_between(last, r.end_us).filter(|n| *n >= 20)
}

fn judge_inflight(run: &mut Run, rep: &mut Report, plan: &Plan, results: &[InflightResult], ack_us: Option<u64>, old_killed: bool) {
    let sh = run.sh.clone();
    for r in results {
        let ph = r.plan.phase.name();
        if r.parked_us.is_none() {
            rep.obs(&format!("B.inflight_not_parked/{ph}"), 1);
            if let Fate::Setup(why) = &r.fate {
                rep.obs("B.inflight_setup_failures", 1);
                if rep.samples.len() < 6 {
                    rep.sample(json!({"monitor": MONITOR, "case": plan.case, "in_flight_setup_failure": {"phase": ph, "why": why}}));
                }
            }
            continue;
        }
        rep.obs(&format!("B.inflight_parked/{ph}"), 1);
        if old_killed {
            // the old worker was killed on purpose: its requests die with it
            rep.obs(&format!("B.exempt/in_flight_on_killed_worker/{ph}"), 1);
            continue;
        }
        let seen: Vec<Value> = r.ids.iter().map(|id| json!({"id": id, "backend_saw": format!("{:?}", sh.seen_of(*id))})).collect();
        let extra = json!({"in_flight": r.plan.json(), "parked_at_us": r.parked_us, "ended_at_us": r.end_us, "client_saw": r.detail, "backend_side": seen,
            "old_worker_ack_at_us": ack_us, "served_by": r.tag,
            "expected": "a request the backend holds completely (or whose response has started) when the hand-over begins is completed intact"});
        if r.plan.phase == Phase::H2Streams {
            let f = format!("{:?}", r.fate);
            rep.obs(&format!("B.h2_outcome/{}/body_{}/gate_step_{}", f.split('(').next().unwrap_or(""), r.plan.resp_len, plan.release_at[r.plan.gate.min(1)]), 1);
            if let (Fate::Completed, Some(ms)) = (&r.fate, r.detail["ms_from_release_to_end"].as_u64()) {
                let bucket = match ms {
                    0..=49 => "<50ms",
                    50..=199 => "<200ms",
                    200..=999 => "<1s",
                    1000..=2999 => "<3s",
                    _ => ">=3s",
                };
                rep.obs(&format!("B.h2_transfer_time_after_release/{bucket}"), 1);
                rep.obs_max("B.h2_transfer_ms_after_release", ms);
            }
        }
        if r.detail["interim_responses"].as_array().is_some_and(|a| !a.is_empty()) {
            rep.obs(&format!("B.interim_response_relayed_during_drain/{ph}"), 1);
        }
        if !r.plan.phase.is_request() && matches!(r.fate, Fate::Cut(_) | Fate::Hung(_)) {
            // a TCP relay or an upgraded tunnel is not a request in flight: torn down at the stop,
            // observed, not judged (a wrong byte in what was relayed before is: Fate::Corrupt)
            rep.obs(&format!("B.exempt/{}_at_soft_stop", if r.plan.phase == Phase::TcpPipe { "tcp_relay_cut" } else { "websocket_tunnel_cut" }), 1);
            continue;
        }
        match &r.fate {
            Fate::Completed => {
                rep.obs(&format!("B.inflight_completed/{ph}"), 1);
                if r.tag.as_deref() == Some("old") {
                    rep.obs("B.inflight_completed_by_old_worker", 1);
                }
            }
            Fate::ExemptRace => rep.obs("B.exempt/keepalive_request_raced_with_close", 1),
            Fate::Setup(why) => {
                rep.obs("B.inflight_setup_failures", 1);
                let _ = why;
            }
            Fate::Corrupt(why) => run.find(&format!("in_flight_corrupted/{ph}"), &format!("an in-flight exchange ({ph}) finished with wrong content: {why}"), extra, false),
            Fate::Hung(why) | Fate::Cut(why) if !matches!(r.plan.phase, Phase::TcpPipe | Phase::WebSocket) && (why.contains("cancelled") || matches!(r.fate, Fate::Hung(_))) && ack_us.is_some_and(|a| a < r.end_us) => run.find(
                "exit_with_request_in_flight",
                &format!("the old worker acknowledged the soft stop and left while an exchange ({ph}) was still in flight: {why}"),
                extra,
                false,
            ),
            Fate::Hung(why) if hung_decided(&sh, r).is_some() => {
                let n = hung_decided(&sh, r).unwrap_or(0);
                let mut extra = extra;
                extra["old_worker_loop_iterations_after_the_backend_wrote_the_whole_response"] = json!(n);
                rep.obs("B.hung_exchanges_decided_by_the_loop_clock", 1);
                run.find(
                    &format!("in_flight_request_hung/{ph}"),
                    &format!("an in-flight exchange ({ph}) neither completed nor was closed although the backend had written the whole response and the old worker ran {n} event-loop iterations after that: {why}"),
                    extra,
                    false,
                )
            }
            Fate::Hung(why) => run.find(&format!("in_flight_request_hung/{ph}"), &format!("an in-flight exchange ({ph}) neither completed nor was closed: {why}"), extra, true),
            Fate::Cut(why) => {
                let exited_first = ack_us.is_some_and(|a| a <= r.end_us + 200_000);
                let since_stop = sh.at("soft_stop_sent").map(|t| r.end_us.saturating_sub(t));
                let sig = match r.plan.phase {
                    // two distinct ways an H2 connection loses streams during the drain: closed by
                    // the worker although streams were still open and moving, or nothing moves any
                    // more until the graceful deadline closes it
                    Phase::H2Streams if since_stop.is_some_and(|d| d >= GRACEFUL_DEADLINE.as_micros() as u64 - 500_000) => "h2_streams_stalled_until_deadline".to_owned(),
                    Phase::H2Streams => "h2_connection_closed_with_streams_open".to_owned(),
                    _ if exited_first => "exit_with_request_in_flight".to_owned(),
                    _ => format!("in_flight_request_cut/{ph}"),
                };
                run.find(&sig, &format!("in-flight exchange cut ({ph}): {why}"), extra, false);
            }
        }
    }
}

fn judge_fleet(run: &mut Run, rep: &mut Report, plan: &Plan, conns: &[FleetConn], old_killed: bool) {
    let sh = run.sh.clone();
    let t_return = sh.at("return_listen_sockets_sent");
    let t_answered = sh.at("return_listen_sockets_answered");
    let t_fds = sh.at("fds_received");
    let t_act = sh.at("successor_activated");
    let t_soft = sh.at("soft_stop_sent");
    let t_kill = sh.at("old_worker_killed");
    let t_stop = sh.at("fleet_stopped").unwrap_or(u64::MAX);
    for c in conns {
        rep.obs("B.fleet_connections", 1);
        if c.burst {
            rep.obs("B.burst_connections", 1);
        }
        let proto = c.kind.name();
        // which connect() calls fall under oracle 1
        let judged_connect = match plan.scenario {
            Scenario::Handover | Scenario::Control => true,
            Scenario::SoftStop => t_soft.is_some_and(|t| c.connected_us < t),
            Scenario::CrashBeforeReturn => false,
            _ => true,
        };
        let in_window = t_return.is_some_and(|t| c.connect_start_us >= t) && c.connect_start_us <= t_stop;
        if in_window {
            rep.obs("B.connects_attempted_during_handover", 1);
        }
        if let Some((class, text)) = &c.connect_err {
            if !judged_connect {
                rep.obs(&format!("B.exempt/connect_failed_outside_the_statement/{}", plan.scenario.name()), 1);
                continue;
            }
            if class == "timeout" {
                run.find("connect_timeout", &format!("connect() to a {proto} listener got no answer: {text}"), json!({"connection": c.json()}), true);
            } else {
                let cls = if class.starts_with("other") { "other" } else { class.as_str() };
                run.find(
                    &format!("connect_failed/{cls}"),
                    &format!("connect() to a configured {proto} listener failed during the hand-over: {text}"),
                    json!({"connection": c.json(), "expected": "the listening socket is shared between the workers: the kernel keeps accepting"}),
                    false,
                );
            }
            continue;
        }
        if in_window {
            rep.obs("B.connects_succeeded_during_handover", 1);
        }
        if let (Some(f), Some(a)) = (t_fds, t_act) {
            if c.connected_us >= f && c.connected_us <= a {
                rep.obs("B.connections_made_while_no_worker_accepts", 1);
            }
        }
        // who is responsible for this connection
        let owner = match plan.scenario {
            Scenario::SoftStop | Scenario::Control => "old",
            Scenario::CrashBeforeReturn => "unknown",
            _ => {
                if t_answered.is_some_and(|t| c.connected_us < t.saturating_sub(0)) && t_return.is_some_and(|t| c.connected_us < t) {
                    "old"
                } else if t_fds.is_some_and(|t| c.connect_start_us >= t) {
                    "successor"
                } else {
                    "either"
                }
            }
        };
        let first_failed: Option<(String, bool, bool)> = if let Some(h) = &c.handshake_err {
            Some((format!("TLS handshake failed: {h}"), false, false))
        } else {
            match c.reqs.first().map(|r| &r.end) {
                Some(ReqEnd::Ok) => None,
                Some(ReqEnd::Zero(w)) => Some((format!("closed with zero response bytes ({w})"), false, false)),
                Some(ReqEnd::Partial(w)) => Some((format!("response cut: {w}"), false, true)),
                Some(ReqEnd::Timeout(w)) => Some((format!("no answer before the watchdog ({w})"), true, false)),
                Some(ReqEnd::Corrupt(w)) => Some((format!("wrong response: {w}"), false, true)),
                None => Some(("no request was sent".into(), false, false)),
            }
        };
        for r in &c.reqs {
            if matches!(r.end, ReqEnd::Ok) {
                rep.obs(&format!("B.fleet_served_by/{}", r.tag.as_deref().unwrap_or("?")), 1);
            }
        }
        if let Some((_, _, true)) = first_failed {
            if c.kind == Kind::Tcp && !matches!(c.reqs.first().map(|r| &r.end), Some(ReqEnd::Corrupt(_))) {
                // the relay was up (the backend's first byte arrived) and was torn down: not a request
                rep.obs("B.exempt/tcp_relay_cut_at_soft_stop", 1);
                continue;
            }
        }
        if let Some((why, timed, has_bytes)) = first_failed {
            let exempt = match plan.scenario {
                // a lone worker closes its listening socket: connections it had not served yet are lost by design
                Scenario::SoftStop => !has_bytes,
                Scenario::CrashBeforeReturn => true,
                // the old worker was killed: what it had accepted dies with it
                Scenario::CrashAfterFds | Scenario::CrashDuringSoftStop => owner != "successor" || t_kill.is_none(),
                Scenario::Handover | Scenario::Control => false,
            };
            if exempt && !(old_killed && owner == "successor") {
                rep.obs(&format!("B.exempt/first_request_lost/{}", plan.scenario.name()), 1);
            } else {
                let sig = match owner {
                    "old" => "fresh_connection_dropped_by_old_worker".to_owned(),
                    "successor" => "connection_not_served_by_successor".to_owned(),
                    _ => "fresh_connection_not_served".to_owned(),
                };
                run.find(
                    &sig,
                    &format!("the first request of a fresh {proto} connection (connect() succeeded) was not answered: {why}"),
                    json!({"connection": c.json(), "accepted_by": owner, "expected": "a connection the kernel accepted on a configured listener is served by the old worker or by its successor"}),
                    timed,
                );
            }
            continue;
        }
        // later requests on a kept-alive connection
        for r in c.reqs.iter().skip(1) {
            match &r.end {
                ReqEnd::Ok => {}
                ReqEnd::Zero(_) => rep.obs("B.exempt/keepalive_request_raced_with_close", 1),
                ReqEnd::Timeout(_) if old_killed => rep.obs("B.exempt/response_cut_by_killed_worker", 1),
                ReqEnd::Timeout(w) => run.find("keepalive_request_hung", &format!("a request on a kept-alive connection got no answer and no close: {w}"), json!({"connection": c.json()}), true),
                ReqEnd::Partial(w) | ReqEnd::Corrupt(w) => {
                    if old_killed {
                        rep.obs("B.exempt/response_cut_by_killed_worker", 1);
                    } else {
                        run.find("response_cut", &format!("a response that had started was cut: {w}"), json!({"connection": c.json()}), false)
                    }
                }
            }
        }
    }
}

// ------------------------------------------------------------------------------------------------
// entry point
// ------------------------------------------------------------------------------------------------

pub fn run_inproc(ctx: &Ctx, rep: &mut Report) {
    lab::raise_fd_limit();
    rep.assume("monitor B: the in-thread workers share one process, so 'old worker dying' is emulated by HardStop or by closing its command channel; a real SIGKILL is monitor C's job");
    rep.assume("monitor B: the successor's clusters point to backends tagged 'new' (same listeners, frontends, certificates) so that answers tell which worker served them");
    rep.assume("monitor B: a TCP relay or an upgraded (WebSocket) tunnel is not a 'request in flight': their being torn down at a soft stop is counted (B.exempt/tcp_relay_cut_at_soft_stop, B.exempt/websocket_tunnel_cut_at_soft_stop), not judged; the bytes relayed before the cut are still compared with what was sent");
    rep.assume("monitor B: a request written on an idle kept-alive connection that is closed with zero response bytes is the inherent HTTP race and is not judged; after a plain soft stop of a lone worker, connections it had not started to answer are not judged either");
    rep.assume("monitor B: verdicts that rest on a wall-clock bound (no answer / no exit within the graceful deadline + slack) count only when the same case reproduces them when re-run alone");
    // (case, seed) of the witnesses of a replay file
    let replay_cases: Option<Vec<(u64, u64)>> = ctx.replay.as_ref().map(|path| {
        let v: Value = serde_json::from_str(&std::fs::read_to_string(path).unwrap_or_default()).unwrap_or(Value::Null);
        v["witnesses"]
            .as_array()
            .map(|a| a.iter().filter(|w| w["monitor"].as_str() == Some(MONITOR)).filter_map(|w| Some((w["case"].as_u64()?, w["seed"].as_u64().unwrap_or(ctx.seed)))).collect())
            .unwrap_or_default()
    });
    let pending: Mutex<Vec<Pending>> = Mutex::new(Vec::new());
    if let Some(cases) = replay_cases {
        for (c, seed) in cases {
            let mut rctx = ctx.clone();
            rctx.seed = seed;
            run_case(&rctx, c, rep, &pending, true);
        }
        return;
    }
    if let Some(c) = ctx.opt("case").and_then(|v| v.parse::<u64>().ok()) {
        run_case(ctx, c, rep, &pending, true);
        return;
    }
    let control = ctx.opt("control") == Some("1");
    for ph in PHASES {
        rep.require(&format!("B.inflight_parked/{}", ph.name()));
    }
    for k in [
        "B.handovers/handover",
        "B.handovers/softstop",
        "B.handovers/crash_before_return",
        "B.handovers/crash_after_fds",
        "B.handovers/crash_during_soft_stop",
        "B.connects_succeeded_during_handover",
        "B.connections_made_while_no_worker_accepts",
        "B.soft_stop_ack_events",
        "B.event_log_checked",
        "B.probes_served_by_successor",
        "B.manifest_pairs_checked",
        "B.inflight_completed/before_headers",
        "B.rejected_listener_additions",
        "B.softstops_with_single_parked_exchange",
        "B.interim_response_relayed_during_drain/expect_100_continue",
        "B.interim_response_relayed_during_drain/early_hints_103",
    ] {
        if !control {
            rep.require(k);
        }
    }
    let n = ctx.opt_u64("cases", ctx.tier.pick(400, 6000));
    let mut bctx = ctx.clone();
    bctx.budget = ctx.budget.saturating_sub(Duration::from_secs(ctx.tier.pick(14, 300)));
    bctx.threads = ctx.opt_u64("b_threads", ctx.threads.min(16) as u64) as usize;
    par_cases(&bctx, rep, n, |i, r| run_case(ctx, i, r, &pending, false));
    // time-bounded misses: once more, alone
    let mut todo: BTreeMap<u64, BTreeSet<String>> = BTreeMap::new();
    for p in pending.into_inner().unwrap() {
        todo.entry(p.case).or_default().insert(p.sig);
    }
    // one case per distinct signature set is enough, two at most (each costs a watchdog)
    let mut seen_sigs: BTreeSet<BTreeSet<String>> = BTreeSet::new();
    let pending_cases = todo.len();
    let todo: Vec<(u64, BTreeSet<String>)> = todo.into_iter().filter(|(_, sigs)| seen_sigs.insert(sigs.clone())).take(2).collect();
    for _ in todo.len()..pending_cases {
        rep.inconclusive("B: time-bounded miss not re-run alone (another case with the same signature, or the cap of two re-runs, stands for it)");
    }
    for (case, sigs) in todo {
        let mut scratch = rep.fork();
        run_case(ctx, case, &mut scratch, &Mutex::new(Vec::new()), true);
        let reproduced: Vec<&String> = sigs.iter().filter(|s| scratch.violations.iter().any(|v| &v.signature == *s)).collect();
        if reproduced.is_empty() {
            rep.inconclusive(&format!("B: time-bounded miss not reproduced when case was re-run alone ({})", sigs.iter().cloned().collect::<Vec<_>>().join(", ")));
        } else {
            rep.obs("B.time_bounded_misses_reproduced_in_isolation", reproduced.len() as u64);
        }
        scratch.inconclusive = 0;
        scratch.inconclusive_reasons.clear();
        rep.merge(scratch);
    }
}
