//! C10 monitor (B): scripted peers of one hand-over cell — tagged backends that park requests on
//! gates, clients that hold a request in a chosen phase, and the client fleet that keeps
//! connecting during the whole hand-over.

use std::{
    collections::HashMap,
    io::{self, Read, Write},
    net::{Shutdown, SocketAddr, TcpStream},
    sync::{
        Arc, Mutex,
        atomic::{AtomicBool, AtomicU64, Ordering},
    },
    time::{Duration, Instant},
};

use serde_json::{Value, json};

use crate::{
    common::rng::{Rng, keystream, keystream_mismatch},
    peers::{
        self, IoProgram, h1,
        h2::{self, Event as H2Event, H2Conn, Replenish, Role},
        tls::{self, TlsClient},
    },
};

pub const HOST: &str = "c10.test";
const UP_SALT: u64 = 0x5555_0000_0000_0000;

#[derive(Clone, Copy, Debug, PartialEq, Eq, Hash, PartialOrd, Ord)]
pub enum Kind {
    Http,
    Https,
    Tcp,
}

impl Kind {
    pub fn name(self) -> &'static str {
        match self {
            Kind::Http => "http",
            Kind::Https => "https",
            Kind::Tcp => "tcp",
        }
    }
}

#[derive(Clone, Copy, Debug, PartialEq, Eq, Hash, PartialOrd, Ord)]
pub enum Phase {
    BeforeHeaders,
    MidDownload,
    MidUpload,
    KeepAlive,
    WebSocket,
    TcpPipe,
    H2Streams,
    /// upload with `Expect: 100-continue`: the backend's `100 Continue` is relayed after the stop
    Expect100,
    /// the backend answers `103 Early Hints` after the stop, the final response a little later
    EarlyHints,
}

pub const PHASES: [Phase; 9] = [
    Phase::BeforeHeaders,
    Phase::MidDownload,
    Phase::MidUpload,
    Phase::KeepAlive,
    Phase::WebSocket,
    Phase::TcpPipe,
    Phase::H2Streams,
    Phase::Expect100,
    Phase::EarlyHints,
];

impl Phase {
    pub fn name(self) -> &'static str {
        match self {
            Phase::BeforeHeaders => "before_headers",
            Phase::MidDownload => "mid_download",
            Phase::MidUpload => "mid_upload",
            Phase::KeepAlive => "idle_keepalive",
            Phase::WebSocket => "websocket",
            Phase::TcpPipe => "tcp_pipe",
            Phase::H2Streams => "h2_streams",
            Phase::Expect100 => "expect_100_continue",
            Phase::EarlyHints => "early_hints_103",
        }
    }
    /// tunnels and relays are not requests: what happens to them at a soft stop is observed, not judged
    pub fn is_request(self) -> bool {
        !matches!(self, Phase::WebSocket | Phase::TcpPipe)
    }
    pub fn needs(self) -> &'static [Kind] {
        match self {
            Phase::TcpPipe => &[Kind::Tcp],
            Phase::H2Streams => &[Kind::Https],
            _ => &[Kind::Http, Kind::Https],
        }
    }
}

/// a latch the orchestrator opens at a chosen step of the hand-over
pub struct Gate(AtomicBool);

impl Gate {
    pub fn new() -> Gate {
        Gate(AtomicBool::new(false))
    }
    pub fn release(&self) {
        self.0.store(true, Ordering::SeqCst);
    }
    pub fn is_open(&self) -> bool {
        self.0.load(Ordering::SeqCst)
    }
}

#[derive(Clone, Debug, Default)]
pub struct Seen {
    pub head: bool,
    pub body_bytes: usize,
    pub body_ok: bool,
    pub complete: bool,
    pub tag: &'static str,
    /// when the backend had handed the whole final response to the kernel (us since t0)
    pub final_written_us: Option<u64>,
}

/// state shared by every thread of one cell
pub struct Shared {
    pub t0: Instant,
    pub gates: [Gate; 2],
    pub seen: Mutex<HashMap<u64, Seen>>,
    pub steps: Mutex<Vec<(String, u64)>>,
    /// (us since t0, event-loop iteration counter of the old worker), sampled while the case runs:
    /// a logical clock that tells a worker that was not scheduled from one that did not act
    pub loop_samples: Mutex<Vec<(u64, u64)>>,
    pub fleet_stop: AtomicBool,
    pub burst_go: AtomicBool,
    pub abort: AtomicBool,
    pub next_id: AtomicU64,
    /// connections established before this instant (us) belonged to a worker that was killed on
    /// purpose: whoever still waits on one of them gives up (0 = nobody was killed)
    pub cancel_before_us: AtomicU64,
    /// how long a fleet client / probe waits for an answer (ms)
    pub fleet_wait_ms: AtomicU64,
    pub tls_h1: Arc<rustls::ClientConfig>,
    pub tls_h2: Arc<rustls::ClientConfig>,
}

impl Shared {
    pub fn new(id_base: u64) -> Shared {
        Shared {
            t0: Instant::now(),
            gates: [Gate::new(), Gate::new()],
            seen: Mutex::new(HashMap::new()),
            steps: Mutex::new(Vec::new()),
            loop_samples: Mutex::new(Vec::new()),
            fleet_stop: AtomicBool::new(false),
            burst_go: AtomicBool::new(false),
            abort: AtomicBool::new(false),
            next_id: AtomicU64::new(id_base),
            cancel_before_us: AtomicU64::new(0),
            fleet_wait_ms: AtomicU64::new(15_000),
            tls_h1: tls::client_config(&["http/1.1"]),
            tls_h2: tls::client_config(&["h2"]),
        }
    }
    pub fn us(&self) -> u64 {
        self.t0.elapsed().as_micros() as u64
    }
    pub fn us_of(&self, at: Instant) -> u64 {
        at.saturating_duration_since(self.t0).as_micros() as u64
    }
    pub fn step(&self, name: &str) -> u64 {
        let t = self.us();
        self.steps.lock().unwrap().push((name.to_owned(), t));
        t
    }
    pub fn at(&self, name: &str) -> Option<u64> {
        self.steps.lock().unwrap().iter().find(|(n, _)| n == name).map(|(_, t)| *t)
    }
    pub fn timeline(&self) -> Value {
        Value::Array(self.steps.lock().unwrap().iter().map(|(n, t)| json!({"step": n, "at_us": t})).collect())
    }
    /// event-loop iterations the old worker completed between two instants (None: not sampled)
    pub fn loop_iterations_between(&self, from_us: u64, to_us: u64) -> Option<u64> {
        let s = self.loop_samples.lock().unwrap();
        let at = |t: u64| s.iter().rev().find(|(ts, _)| *ts <= t).map(|(_, i)| *i);
        // the sample at or before `from` undercounts nothing: iterations only grow
        let first_after = s.iter().find(|(ts, _)| *ts >= from_us).map(|(_, i)| *i)?;
        Some(at(to_us)?.saturating_sub(first_after))
    }
    pub fn fresh_id(&self) -> u64 {
        self.next_id.fetch_add(1, Ordering::SeqCst)
    }
    /// wait for a gate (or the end of the case); false when the watchdog fired first
    pub fn wait_gate(&self, g: usize, max: Duration) -> bool {
        let start = Instant::now();
        loop {
            if self.gates[g.min(1)].is_open() || self.abort.load(Ordering::SeqCst) {
                return true;
            }
            if start.elapsed() > max {
                return false;
            }
            std::thread::sleep(Duration::from_millis(1));
        }
    }
    pub fn cancelled(&self, conn_us: u64) -> bool {
        let c = self.cancel_before_us.load(Ordering::SeqCst);
        c != 0 && conn_us < c && self.us() > c + 300_000
    }
    pub fn seen_of(&self, id: u64) -> Seen {
        self.seen.lock().unwrap().get(&id).cloned().unwrap_or_default()
    }
}

// ------------------------------------------------------------------------------------------------
// backends
// ------------------------------------------------------------------------------------------------

/// `/k/<id>/<len>/<gate>`: k = f (answer at once), h (park before the response head), m (park in
/// the middle of the response body), w (101 + echo)
fn parse_target(t: &str) -> Option<(char, u64, usize, usize)> {
    let mut it = t.trim_start_matches('/').split('/');
    let k = it.next()?.chars().next()?;
    let id = it.next()?.parse().ok()?;
    let len = it.next()?.parse().ok()?;
    let gate = it.next()?.parse().ok()?;
    Some((k, id, len, gate))
}

fn response_bytes(tag: &str, id: u64, len: usize) -> (Vec<u8>, Vec<u8>) {
    let body = keystream(id, 0, len);
    if id % 4 == 1 && len > 0 {
        let enc = h1::chunked_encode(&body, &[4096, 1, 777, 16384], &[]);
        (format!("HTTP/1.1 200 OK\r\nX-Tag: {tag}\r\nTransfer-Encoding: chunked\r\n\r\n").into_bytes(), enc)
    } else {
        (format!("HTTP/1.1 200 OK\r\nX-Tag: {tag}\r\nContent-Length: {len}\r\n\r\n").into_bytes(), body)
    }
}

pub fn http_backend_handler(sh: Arc<Shared>, tag: &'static str) -> impl Fn(TcpStream, usize) + Send + Sync + 'static {
    move |mut s, _idx| {
        let mut p = h1::Parser::new(h1::Kind::Request, true);
        let mut buf = vec![0u8; 32 * 1024];
        let _ = s.set_read_timeout(Some(Duration::from_millis(500)));
        let _ = s.set_write_timeout(Some(Duration::from_secs(20)));
        let mut cur: Option<(char, u64, usize, usize)> = None;
        let mut idle_since = Instant::now();
        loop {
            if sh.abort.load(Ordering::SeqCst) || idle_since.elapsed() > Duration::from_secs(60) {
                return;
            }
            let n = match s.read(&mut buf) {
                Ok(0) => return,
                Ok(n) => n,
                Err(e) if matches!(e.kind(), io::ErrorKind::WouldBlock | io::ErrorKind::TimedOut | io::ErrorKind::Interrupted) => continue,
                Err(_) => return,
            };
            idle_since = Instant::now();
            let Ok(events) = p.feed(&buf[..n]) else { return };
            for e in events {
                match e {
                    h1::Event::Head(h) => {
                        cur = parse_target(&h.second);
                        if let Some((_, id, _, _)) = cur {
                            let mut m = sh.seen.lock().unwrap();
                            let e = m.entry(id).or_default();
                            e.head = true;
                            e.body_ok = true;
                            e.tag = tag;
                        }
                        if let Some(('e', _, _, gate)) = cur {
                            // the client waits for the interim response before it sends the body
                            sh.wait_gate(gate, Duration::from_secs(40));
                            if s.write_all(b"HTTP/1.1 100 Continue\r\n\r\n").is_err() {
                                return;
                            }
                        }
                    }
                    h1::Event::Body(b) => {
                        if let Some((_, id, _, _)) = cur {
                            let mut m = sh.seen.lock().unwrap();
                            let e = m.entry(id).or_default();
                            if keystream_mismatch(id ^ UP_SALT, e.body_bytes as u64, &b).is_some() {
                                e.body_ok = false;
                            }
                            e.body_bytes += b.len();
                        }
                    }
                    h1::Event::End(_) => {
                        let Some((k, id, len, gate)) = cur.take() else {
                            let _ = s.write_all(b"HTTP/1.1 400 Bad Request\r\nContent-Length: 0\r\n\r\n");
                            return;
                        };
                        sh.seen.lock().unwrap().entry(id).or_default().complete = true;
                        let (head, body) = response_bytes(tag, id, len);
                        let r = match k {
                            'w' => {
                                let _ = s.write_all(format!("HTTP/1.1 101 Switching Protocols\r\nUpgrade: websocket\r\nConnection: Upgrade\r\nX-Tag: {tag}\r\n\r\n").as_bytes());
                                echo_loop(&sh, &mut s, p.residue().to_vec());
                                return;
                            }
                            'h' => {
                                sh.wait_gate(gate, Duration::from_secs(40));
                                s.write_all(&head).and_then(|_| s.write_all(&body))
                            }
                            'i' => {
                                // an interim response relayed after the stop, the final one a little later
                                sh.wait_gate(gate, Duration::from_secs(40));
                                let r = s.write_all(b"HTTP/1.1 103 Early Hints\r\nLink: </style.css>; rel=preload; as=style\r\n\r\n");
                                std::thread::sleep(Duration::from_millis(30 + id % 120));
                                r.and_then(|_| s.write_all(&head)).and_then(|_| s.write_all(&body))
                            }
                            'm' => {
                                let half = body.len() / 2;
                                let r = s.write_all(&head).and_then(|_| s.write_all(&body[..half]));
                                sh.wait_gate(gate, Duration::from_secs(40));
                                r.and_then(|_| s.write_all(&body[half..]))
                            }
                            _ => s.write_all(&head).and_then(|_| s.write_all(&body)),
                        };
                        if r.is_err() {
                            return;
                        }
                        sh.seen.lock().unwrap().entry(id).or_default().final_written_us = Some(sh.us());
                    }
                }
            }
        }
    }
}

fn echo_loop(sh: &Shared, s: &mut TcpStream, first: Vec<u8>) {
    if !first.is_empty() && s.write_all(&first).is_err() {
        return;
    }
    let mut buf = vec![0u8; 16 * 1024];
    let start = Instant::now();
    loop {
        if sh.abort.load(Ordering::SeqCst) || start.elapsed() > Duration::from_secs(90) {
            return;
        }
        match s.read(&mut buf) {
            Ok(0) => {
                let _ = s.shutdown(Shutdown::Write);
                return;
            }
            Ok(n) => {
                if s.write_all(&buf[..n]).is_err() {
                    return;
                }
            }
            Err(e) if matches!(e.kind(), io::ErrorKind::WouldBlock | io::ErrorKind::TimedOut | io::ErrorKind::Interrupted) => continue,
            Err(_) => return,
        }
    }
}

/// TCP backend: one tag byte at accept, then echo
pub fn tcp_backend_handler(sh: Arc<Shared>, tag: u8) -> impl Fn(TcpStream, usize) + Send + Sync + 'static {
    move |mut s, _idx| {
        let _ = s.set_read_timeout(Some(Duration::from_millis(500)));
        let _ = s.set_write_timeout(Some(Duration::from_secs(20)));
        if s.write_all(&[tag]).is_err() {
            return;
        }
        echo_loop(&sh, &mut s, Vec::new());
    }
}

// ------------------------------------------------------------------------------------------------
// client plumbing
// ------------------------------------------------------------------------------------------------

pub enum Conn {
    Plain(TcpStream),
    Tls(Box<TlsClient>),
}

impl Conn {
    pub fn set_read_timeout(&mut self, d: Duration) {
        match self {
            Conn::Plain(s) => {
                let _ = s.set_read_timeout(Some(d.max(Duration::from_millis(1))));
            }
            Conn::Tls(t) => t.set_timeouts(d, Duration::from_secs(10)),
        }
    }
    pub fn read(&mut self, buf: &mut [u8]) -> io::Result<usize> {
        match self {
            Conn::Plain(s) => s.read(buf),
            Conn::Tls(t) => t.read(buf),
        }
    }
    pub fn write_all(&mut self, data: &[u8]) -> io::Result<()> {
        match self {
            Conn::Plain(s) => {
                let _ = s.set_write_timeout(Some(Duration::from_secs(10)));
                s.write_all(data)
            }
            Conn::Tls(t) => t.write_all(data).and_then(|_| t.flush()),
        }
    }
    pub fn shutdown_write(&mut self) {
        match self {
            Conn::Plain(s) => {
                let _ = s.shutdown(Shutdown::Write);
            }
            Conn::Tls(t) => {
                t.stream.conn.send_close_notify();
                let _ = t.stream.flush();
                let _ = t.stream.sock.shutdown(Shutdown::Write);
            }
        }
    }
}

#[derive(Clone, Debug)]
pub enum OpenErr {
    /// connect() itself failed: class = refused | reset | timeout | other:<kind>
    Connect { class: String, text: String },
    /// TCP connected, TLS handshake failed
    Handshake(String),
}

fn connect_class(e: &io::Error) -> String {
    match e.kind() {
        io::ErrorKind::ConnectionRefused => "refused".into(),
        io::ErrorKind::ConnectionReset | io::ErrorKind::ConnectionAborted => "reset".into(),
        io::ErrorKind::TimedOut | io::ErrorKind::WouldBlock => "timeout".into(),
        k => format!("other:{k:?}"),
    }
}

pub fn tcp_connect(addr: SocketAddr) -> Result<TcpStream, OpenErr> {
    peers::connect(addr, None, &IoProgram::fast(), Duration::from_secs(8)).map_err(|e| OpenErr::Connect { class: connect_class(&e), text: e.to_string() })
}

pub fn tls_wrap(tcp: TcpStream, cfg: Arc<rustls::ClientConfig>) -> Result<(TlsClient, Option<Vec<u8>>), OpenErr> {
    TlsClient::handshake(tcp, HOST, cfg, Duration::from_secs(12)).map(|(t, i)| (t, i.alpn)).map_err(|e| OpenErr::Handshake(e.to_string()))
}

pub fn open(sh: &Shared, kind: Kind, addr: SocketAddr) -> Result<Conn, OpenErr> {
    let tcp = tcp_connect(addr)?;
    match kind {
        Kind::Https => Ok(Conn::Tls(Box::new(tls_wrap(tcp, sh.tls_h1.clone())?.0))),
        _ => Ok(Conn::Plain(tcp)),
    }
}

pub fn get_request(k: char, id: u64, len: usize, gate: usize, extra: &str) -> Vec<u8> {
    format!("GET /{k}/{id}/{len}/{gate} HTTP/1.1\r\nHost: {HOST}\r\n{extra}\r\n").into_bytes()
}

/// what a client saw of one response
#[derive(Clone, Debug, Default)]
pub struct Resp {
    /// raw bytes received for this response
    pub bytes: usize,
    /// interim (1xx) responses seen before the final one
    pub interim: Vec<u16>,
    pub status: Option<u16>,
    pub tag: Option<String>,
    pub body_len: usize,
    pub body_ok: bool,
    pub complete: bool,
    /// how reading ended when not complete: eof | reset:<text> | timeout | parse:<text>
    pub ended: String,
    pub end_us: u64,
}

impl Resp {
    pub fn good(&self, len: usize) -> bool {
        self.complete && self.status == Some(200) && self.body_ok && self.body_len == len
    }
    pub fn json(&self) -> Value {
        json!({"bytes_received": self.bytes, "interim_responses": self.interim, "status": self.status, "tag": self.tag, "body_bytes": self.body_len, "body_matches_keystream": self.body_ok,
            "complete": self.complete, "ended": self.ended, "ended_at_us": self.end_us})
    }
}

/// read one response (body = keystream(id)); `progress` is called after every read that delivered bytes
pub fn read_response(sh: &Shared, c: &mut Conn, p: &mut h1::Parser, id: u64, conn_us: u64, deadline: Instant, progress: impl FnMut(&Resp)) -> Resp {
    read_response_until(sh, c, p, id, conn_us, deadline, false, progress)
}

/// like `read_response`; with `stop_at_interim` it returns as soon as one interim (1xx) response is complete
#[allow(clippy::too_many_arguments)]
pub fn read_response_until(sh: &Shared, c: &mut Conn, p: &mut h1::Parser, id: u64, conn_us: u64, deadline: Instant, stop_at_interim: bool, mut progress: impl FnMut(&Resp)) -> Resp {
    let mut in_interim = false;
    let mut r = Resp { body_ok: true, ..Default::default() };
    let mut buf = vec![0u8; 32 * 1024];
    let mut pending: Vec<u8> = Vec::new();
    loop {
        // a previous read may already hold this response (pipelined bytes are not used here)
        let events = if pending.is_empty() {
            let now = Instant::now();
            if now >= deadline {
                r.ended = "timeout".into();
                break;
            }
            if sh.cancelled(conn_us) {
                r.ended = "cancelled".into();
                break;
            }
            c.set_read_timeout((deadline - now).min(Duration::from_millis(250)));
            match c.read(&mut buf) {
                Ok(0) => {
                    r.ended = "eof".into();
                    if let Ok(Some(h1::Event::End(_))) = p.eof() {
                        r.complete = r.status.is_some();
                    }
                    break;
                }
                Ok(n) => {
                    r.bytes += n;
                    pending.extend_from_slice(&buf[..n]);
                    continue;
                }
                Err(e) if matches!(e.kind(), io::ErrorKind::WouldBlock | io::ErrorKind::TimedOut | io::ErrorKind::Interrupted) => continue,
                Err(e) if e.kind() == io::ErrorKind::UnexpectedEof => {
                    r.ended = "eof".into();
                    break;
                }
                Err(e) => {
                    r.ended = format!("reset:{e}");
                    break;
                }
            }
        } else {
            let data = std::mem::take(&mut pending);
            match p.feed(&data) {
                Ok(ev) => ev,
                Err(e) => {
                    r.ended = format!("parse:{e}");
                    break;
                }
            }
        };
        let mut done = false;
        for e in events {
            match e {
                h1::Event::Head(h) => {
                    if h.status().is_some_and(|c| (100..200).contains(&c) && c != 101) {
                        r.interim.push(h.status().unwrap_or(0));
                        in_interim = true;
                    } else {
                        r.status = h.status();
                        r.tag = h.header_str("x-tag");
                    }
                }
                h1::Event::Body(b) => {
                    if keystream_mismatch(id, r.body_len as u64, &b).is_some() {
                        r.body_ok = false;
                    }
                    r.body_len += b.len();
                }
                h1::Event::End(_) if in_interim => {
                    in_interim = false;
                    if stop_at_interim {
                        done = true;
                    }
                }
                h1::Event::End(_) => {
                    r.complete = true;
                    done = true;
                }
            }
        }
        progress(&r);
        if done {
            break;
        }
    }
    r.end_us = sh.us();
    r
}

// ------------------------------------------------------------------------------------------------
// in-flight clients
// ------------------------------------------------------------------------------------------------

#[derive(Clone, Debug)]
pub struct InflightPlan {
    pub phase: Phase,
    pub listener: usize,
    pub gate: usize,
    pub resp_len: usize,
    pub up_len: usize,
    pub streams: usize,
}

impl InflightPlan {
    pub fn json(&self) -> Value {
        json!({"phase": self.phase.name(), "listener": self.listener, "gate": self.gate, "response_bytes": self.resp_len, "upload_bytes": self.up_len, "h2_streams": self.streams})
    }
}

#[derive(Clone, Debug, PartialEq, Eq)]
pub enum Fate {
    /// never reached the parked state (harness side or sozu before the hand-over)
    Setup(String),
    Completed,
    /// the inherent keep-alive race: request on an idle connection, zero bytes back
    ExemptRace,
    /// connection closed / reset before the exchange was complete
    Cut(String),
    /// still open, nothing moved until the watchdog
    Hung(String),
    Corrupt(String),
}

#[derive(Clone, Debug)]
pub struct InflightResult {
    pub plan: InflightPlan,
    pub ids: Vec<u64>,
    pub parked_us: Option<u64>,
    pub end_us: u64,
    pub fate: Fate,
    pub tag: Option<String>,
    pub detail: Value,
}

pub struct ParkFlag(pub AtomicBool);

fn finish(sh: &Shared, plan: &InflightPlan, ids: Vec<u64>, parked_us: Option<u64>, fate: Fate, tag: Option<String>, detail: Value) -> InflightResult {
    InflightResult { plan: plan.clone(), ids, parked_us, end_us: sh.us(), fate, tag, detail }
}

fn classify_incomplete(r: &Resp) -> Fate {
    if !r.body_ok {
        Fate::Corrupt(format!("response body differs from the keystream after {} body bytes", r.body_len))
    } else if r.ended == "timeout" {
        Fate::Hung(format!("no complete response before the watchdog ({} bytes received)", r.bytes))
    } else if r.complete {
        Fate::Corrupt(format!("complete response with status {:?} and {} body bytes", r.status, r.body_len))
    } else {
        Fate::Cut(format!("{} after {} response bytes", r.ended, r.bytes))
    }
}

/// watchdog for everything that happens after the gate opened
const AFTER_RELEASE: Duration = Duration::from_secs(10);
const PARK_MAX: Duration = Duration::from_secs(40);

pub fn run_inflight(sh: Arc<Shared>, plan: InflightPlan, kind: Kind, addr: SocketAddr, parked: Arc<ParkFlag>) -> InflightResult {
    let park = |sh: &Shared| -> u64 {
        parked.0.store(true, Ordering::SeqCst);
        sh.us()
    };
    if plan.phase == Phase::H2Streams {
        return run_h2(&sh, &plan, addr, &park);
    }
    if plan.phase == Phase::TcpPipe {
        return run_pipe(&sh, &plan, None, addr, &park);
    }
    let mut c = match open(&sh, kind, addr) {
        Ok(c) => c,
        Err(e) => return finish(&sh, &plan, vec![], None, Fate::Setup(format!("{e:?}")), None, Value::Null),
    };
    if plan.phase == Phase::WebSocket {
        return run_pipe(&sh, &plan, Some(c), addr, &park);
    }
    let id = sh.fresh_id();
    let mut p = h1::Parser::new(h1::Kind::Response, true);
    match plan.phase {
        Phase::BeforeHeaders => {
            if let Err(e) = c.write_all(&get_request('h', id, plan.resp_len, plan.gate, "")) {
                return finish(&sh, &plan, vec![id], None, Fate::Setup(format!("write: {e}")), None, Value::Null);
            }
            // parked = the backend holds the complete request
            let start = Instant::now();
            while !sh.seen_of(id).complete {
                if start.elapsed() > Duration::from_secs(8) {
                    return finish(&sh, &plan, vec![id], None, Fate::Setup("backend never saw the request".into()), None, Value::Null);
                }
                std::thread::sleep(Duration::from_millis(1));
            }
            let t = park(&sh);
            sh.wait_gate(plan.gate, PARK_MAX);
            let r = read_response(&sh, &mut c, &mut p, id, 0, Instant::now() + AFTER_RELEASE, |_| {});
            let fate = if r.good(plan.resp_len) { Fate::Completed } else { classify_incomplete(&r) };
            finish(&sh, &plan, vec![id], Some(t), fate, r.tag.clone(), r.json())
        }
        Phase::MidDownload => {
            if let Err(e) = c.write_all(&get_request('m', id, plan.resp_len, plan.gate, "")) {
                return finish(&sh, &plan, vec![id], None, Fate::Setup(format!("write: {e}")), None, Value::Null);
            }
            let mut t = None;
            let sh2 = sh.clone();
            let r = read_response(&sh, &mut c, &mut p, id, 0, Instant::now() + PARK_MAX + AFTER_RELEASE, |r| {
                if t.is_none() && r.body_len >= 1 {
                    t = Some(park(&sh2));
                }
            });
            if t.is_none() {
                return finish(&sh, &plan, vec![id], None, Fate::Setup(format!("no body byte arrived: {:?}", r.ended)), r.tag.clone(), r.json());
            }
            let fate = if r.good(plan.resp_len) { Fate::Completed } else { classify_incomplete(&r) };
            finish(&sh, &plan, vec![id], t, fate, r.tag.clone(), r.json())
        }
        Phase::MidUpload => {
            let body = keystream(id ^ UP_SALT, 0, plan.up_len);
            let half = plan.up_len / 2;
            let head = format!("POST /f/{id}/{}/{} HTTP/1.1\r\nHost: {HOST}\r\nContent-Length: {}\r\n\r\n", plan.resp_len, plan.gate, plan.up_len);
            if let Err(e) = c.write_all(head.as_bytes()).and_then(|_| c.write_all(&body[..half])) {
                return finish(&sh, &plan, vec![id], None, Fate::Setup(format!("write: {e}")), None, Value::Null);
            }
            // parked = the backend has the head and the first half of the body
            let start = Instant::now();
            loop {
                let s = sh.seen_of(id);
                if s.head && s.body_bytes >= half {
                    break;
                }
                if start.elapsed() > Duration::from_secs(8) {
                    return finish(&sh, &plan, vec![id], None, Fate::Setup(format!("backend saw only {} of {half} body bytes", s.body_bytes)), None, Value::Null);
                }
                std::thread::sleep(Duration::from_millis(1));
            }
            let t = park(&sh);
            sh.wait_gate(plan.gate, PARK_MAX);
            if let Err(e) = c.write_all(&body[half..]) {
                return finish(&sh, &plan, vec![id], Some(t), Fate::Cut(format!("write of the second half of the body failed: {e}")), None, json!({"backend_saw": format!("{:?}", sh.seen_of(id))}));
            }
            let r = read_response(&sh, &mut c, &mut p, id, 0, Instant::now() + AFTER_RELEASE, |_| {});
            let s = sh.seen_of(id);
            let fate = if r.good(plan.resp_len) && s.body_ok && s.body_bytes == plan.up_len {
                Fate::Completed
            } else if r.good(plan.resp_len) {
                Fate::Corrupt(format!("backend received {} body bytes (keystream ok: {}) of {}", s.body_bytes, s.body_ok, plan.up_len))
            } else {
                classify_incomplete(&r)
            };
            finish(&sh, &plan, vec![id], Some(t), fate, r.tag.clone(), r.json())
        }
        Phase::Expect100 => {
            let body = keystream(id ^ UP_SALT, 0, plan.up_len);
            let head = format!("POST /e/{id}/{}/{} HTTP/1.1\r\nHost: {HOST}\r\nContent-Length: {}\r\nExpect: 100-continue\r\n\r\n", plan.resp_len, plan.gate, plan.up_len);
            if let Err(e) = c.write_all(head.as_bytes()) {
                return finish(&sh, &plan, vec![id], None, Fate::Setup(format!("write: {e}")), None, Value::Null);
            }
            // parked = the backend holds the request head and has not yet said 100 Continue
            let start = Instant::now();
            while !sh.seen_of(id).head {
                if start.elapsed() > Duration::from_secs(8) {
                    return finish(&sh, &plan, vec![id], None, Fate::Setup("backend never saw the request head".into()), None, Value::Null);
                }
                std::thread::sleep(Duration::from_millis(1));
            }
            let t = park(&sh);
            sh.wait_gate(plan.gate, PARK_MAX);
            let r0 = read_response_until(&sh, &mut c, &mut p, id, 0, Instant::now() + AFTER_RELEASE, true, |_| {});
            if r0.interim.is_empty() || r0.status.is_some() {
                let fate = if r0.status.is_some() {
                    Fate::Cut(format!("final status {:?} instead of the backend's 100 Continue", r0.status))
                } else if r0.ended == "timeout" {
                    Fate::Hung(format!("no 100 Continue before the watchdog ({} bytes received)", r0.bytes))
                } else {
                    Fate::Cut(format!("{} before the 100 Continue arrived ({} bytes received)", r0.ended, r0.bytes))
                };
                return finish(&sh, &plan, vec![id], Some(t), fate, None, r0.json());
            }
            if let Err(e) = c.write_all(&body) {
                return finish(&sh, &plan, vec![id], Some(t), Fate::Cut(format!("write of the body after 100 Continue failed: {e}")), None, r0.json());
            }
            let mut r = read_response(&sh, &mut c, &mut p, id, 0, Instant::now() + AFTER_RELEASE, |_| {});
            r.interim.splice(0..0, r0.interim.iter().copied());
            r.bytes += r0.bytes;
            let s = sh.seen_of(id);
            let fate = if r.good(plan.resp_len) && s.body_ok && s.body_bytes == plan.up_len {
                Fate::Completed
            } else if r.good(plan.resp_len) {
                Fate::Corrupt(format!("backend received {} body bytes (keystream ok: {}) of {}", s.body_bytes, s.body_ok, plan.up_len))
            } else {
                classify_incomplete(&r)
            };
            finish(&sh, &plan, vec![id], Some(t), fate, r.tag.clone(), r.json())
        }
        Phase::EarlyHints => {
            if let Err(e) = c.write_all(&get_request('i', id, plan.resp_len, plan.gate, "")) {
                return finish(&sh, &plan, vec![id], None, Fate::Setup(format!("write: {e}")), None, Value::Null);
            }
            let start = Instant::now();
            while !sh.seen_of(id).complete {
                if start.elapsed() > Duration::from_secs(8) {
                    return finish(&sh, &plan, vec![id], None, Fate::Setup("backend never saw the request".into()), None, Value::Null);
                }
                std::thread::sleep(Duration::from_millis(1));
            }
            let t = park(&sh);
            sh.wait_gate(plan.gate, PARK_MAX);
            let r = read_response(&sh, &mut c, &mut p, id, 0, Instant::now() + AFTER_RELEASE, |_| {});
            let fate = if r.good(plan.resp_len) { Fate::Completed } else { classify_incomplete(&r) };
            finish(&sh, &plan, vec![id], Some(t), fate, r.tag.clone(), r.json())
        }
        _ => {
            // idle keep-alive: one complete exchange, idle across the hand-over, then a second request
            if let Err(e) = c.write_all(&get_request('f', id, 64, 0, "")) {
                return finish(&sh, &plan, vec![id], None, Fate::Setup(format!("write: {e}")), None, Value::Null);
            }
            let r1 = read_response(&sh, &mut c, &mut p, id, 0, Instant::now() + Duration::from_secs(8), |_| {});
            if !r1.good(64) {
                return finish(&sh, &plan, vec![id], None, Fate::Setup(format!("first exchange failed: {:?}", r1.ended)), r1.tag.clone(), r1.json());
            }
            let t = park(&sh);
            sh.wait_gate(plan.gate, PARK_MAX);
            let id2 = sh.fresh_id();
            if c.write_all(&get_request('f', id2, plan.resp_len, 0, "")).is_err() {
                return finish(&sh, &plan, vec![id, id2], Some(t), Fate::ExemptRace, None, json!({"second_request": "write failed, zero response bytes"}));
            }
            let r = read_response(&sh, &mut c, &mut p, id2, 0, Instant::now() + AFTER_RELEASE, |_| {});
            let fate = if r.good(plan.resp_len) {
                Fate::Completed
            } else if r.bytes == 0 && r.ended != "timeout" {
                Fate::ExemptRace
            } else {
                classify_incomplete(&r)
            };
            finish(&sh, &plan, vec![id, id2], Some(t), fate, r.tag.clone(), r.json())
        }
    }
}

/// WebSocket-style (after a 101) or plain TCP relay: echo rounds before, during and after the
/// hand-over, then an orderly end (half-close, echo of everything, EOF)
fn run_pipe(sh: &Shared, plan: &InflightPlan, ws: Option<Conn>, addr: SocketAddr, park: &dyn Fn(&Shared) -> u64) -> InflightResult {
    let id = sh.fresh_id();
    let tag: Option<String>;
    let mut c = match ws {
        Some(mut c) => {
            let req = get_request('w', id, 0, plan.gate, "Connection: Upgrade\r\nUpgrade: websocket\r\nSec-WebSocket-Key: dGhlIHNhbXBsZSBub25jZQ==\r\nSec-WebSocket-Version: 13\r\n");
            if let Err(e) = c.write_all(&req) {
                return finish(sh, plan, vec![id], None, Fate::Setup(format!("write: {e}")), None, Value::Null);
            }
            // read the 101 head byte by byte up to the empty line (what follows is the tunnel)
            let mut head = Vec::new();
            let deadline = Instant::now() + Duration::from_secs(8);
            let mut one = [0u8; 1];
            while !head.ends_with(b"\r\n\r\n") {
                if Instant::now() > deadline {
                    return finish(sh, plan, vec![id], None, Fate::Setup("no 101 answer".into()), None, Value::Null);
                }
                c.set_read_timeout(Duration::from_millis(250));
                match c.read(&mut one) {
                    Ok(0) => return finish(sh, plan, vec![id], None, Fate::Setup("closed before the 101 answer".into()), None, Value::Null),
                    Ok(_) => head.push(one[0]),
                    Err(e) if matches!(e.kind(), io::ErrorKind::WouldBlock | io::ErrorKind::TimedOut | io::ErrorKind::Interrupted) => {}
                    Err(e) => return finish(sh, plan, vec![id], None, Fate::Setup(format!("read: {e}")), None, Value::Null),
                }
            }
            let text = String::from_utf8_lossy(&head).to_string();
            if !text.starts_with("HTTP/1.1 101") {
                return finish(sh, plan, vec![id], None, Fate::Setup(format!("upgrade refused: {}", text.lines().next().unwrap_or(""))), None, Value::Null);
            }
            tag = text.lines().find_map(|l| l.to_ascii_lowercase().strip_prefix("x-tag: ").map(|v| v.trim().to_owned()));
            c
        }
        None => {
            let tcp = match tcp_connect(addr) {
                Ok(t) => t,
                Err(e) => return finish(sh, plan, vec![id], None, Fate::Setup(format!("{e:?}")), None, Value::Null),
            };
            let mut c = Conn::Plain(tcp);
            let mut one = [0u8; 1];
            c.set_read_timeout(Duration::from_secs(8));
            match c.read(&mut one) {
                Ok(1) => tag = Some(if one[0] == b'N' { "new".into() } else { "old".into() }),
                other => return finish(sh, plan, vec![id], None, Fate::Setup(format!("no tag byte from the backend: {other:?}")), None, Value::Null),
            }
            c
        }
    };
    let mut sent = 0u64;
    let mut echoed = 0u64;
    let mut parked_us = None;
    let mut rounds = 0u64;
    let mut released_rounds = 0;
    let start = Instant::now();
    let mut buf = vec![0u8; 8192];
    let fate = loop {
        let chunk = keystream(id, sent, 96);
        if let Err(e) = c.write_all(&chunk) {
            break Fate::Cut(format!("write failed after {sent} bytes sent, {echoed} echoed: {e}"));
        }
        sent += chunk.len() as u64;
        // read the echo of everything sent so far
        let deadline = Instant::now() + AFTER_RELEASE;
        let mut broke = None;
        while echoed < sent {
            if sh.cancelled(0) {
                broke = Some(Fate::Setup("cancelled: the old worker was killed".into()));
                break;
            }
            if Instant::now() > deadline {
                broke = Some(Fate::Hung(format!("echo stalled at {echoed} of {sent} bytes")));
                break;
            }
            c.set_read_timeout(Duration::from_millis(250));
            match c.read(&mut buf) {
                Ok(0) => {
                    broke = Some(Fate::Cut(format!("eof after {echoed} of {sent} bytes echoed")));
                    break;
                }
                Ok(n) => {
                    if keystream_mismatch(id, echoed, &buf[..n]).is_some() {
                        broke = Some(Fate::Corrupt(format!("echo differs from what was sent near offset {echoed}")));
                        break;
                    }
                    echoed += n as u64;
                }
                Err(e) if matches!(e.kind(), io::ErrorKind::WouldBlock | io::ErrorKind::TimedOut | io::ErrorKind::Interrupted) => {}
                Err(e) if e.kind() == io::ErrorKind::UnexpectedEof => {
                    broke = Some(Fate::Cut(format!("eof after {echoed} of {sent} bytes echoed")));
                    break;
                }
                Err(e) => {
                    broke = Some(Fate::Cut(format!("reset after {echoed} of {sent} bytes echoed: {e}")));
                    break;
                }
            }
        }
        if let Some(f) = broke {
            break f;
        }
        rounds += 1;
        if parked_us.is_none() {
            parked_us = Some(park(sh));
        }
        if sh.gates[plan.gate.min(1)].is_open() || sh.abort.load(Ordering::SeqCst) {
            released_rounds += 1;
            if released_rounds >= 3 {
                // orderly end
                c.shutdown_write();
                let deadline = Instant::now() + Duration::from_secs(8);
                let mut ok = false;
                while Instant::now() < deadline {
                    c.set_read_timeout(Duration::from_millis(250));
                    match c.read(&mut buf) {
                        Ok(0) => {
                            ok = true;
                            break;
                        }
                        Ok(_) => break,
                        Err(e) if matches!(e.kind(), io::ErrorKind::WouldBlock | io::ErrorKind::TimedOut | io::ErrorKind::Interrupted) => {}
                        Err(_) => {
                            ok = true; // a reset after everything was echoed and we half-closed is an end, not a loss
                            break;
                        }
                    }
                }
                let _ = ok;
                break Fate::Completed;
            }
        } else if start.elapsed() > PARK_MAX {
            break Fate::Setup("gate never opened".into());
        }
        std::thread::sleep(Duration::from_millis(4));
    };
    let fate = if parked_us.is_none() { Fate::Setup(format!("{fate:?}")) } else { fate };
    finish(sh, plan, vec![id], parked_us, fate, tag, json!({"bytes_sent": sent, "bytes_echoed": echoed, "echo_rounds": rounds}))
}

/// one TLS/H2 connection with several open streams (parked before the response head or in the
/// middle of the response body by the HTTP/1.1 backend)
fn run_h2(sh: &Shared, plan: &InflightPlan, addr: SocketAddr, park: &dyn Fn(&Shared) -> u64) -> InflightResult {
    let setup = |why: String| finish(sh, plan, vec![], None, Fate::Setup(why), None, Value::Null);
    let tcp = match tcp_connect(addr) {
        Ok(t) => t,
        Err(e) => return setup(format!("{e:?}")),
    };
    let (tlsc, alpn) = match tls_wrap(tcp, sh.tls_h2.clone()) {
        Ok(x) => x,
        Err(e) => return setup(format!("{e:?}")),
    };
    if alpn.as_deref() != Some(b"h2") {
        return setup("h2 not negotiated".into());
    }
    let mut c = H2Conn::new(tlsc, Role::Client);
    c.auto_ack = true;
    c.auto_pong = true;
    // window is given back by this script (in batches, write errors ignored): the codec's own
    // replenishing drops the DATA event when its WINDOW_UPDATE cannot be written any more
    c.replenish = Replenish::Manual;
    c.obey_windows = true;
    c.read_timeout = Duration::from_secs(5);
    c.write_timeout = Duration::from_secs(5);
    c.trace_cap = 4000;
    if let Err(e) = c.handshake_client(&[]) {
        return setup(format!("h2 handshake: {e}"));
    }
    struct St {
        id: u64,
        mid: bool,
        got: usize,
        ok: bool,
        status: Option<String>,
        tag: Option<String>,
        done: bool,
        rst: Option<u32>,
    }
    let mut streams: std::collections::BTreeMap<u32, St> = Default::default();
    let mut ids = Vec::new();
    for k in 0..plan.streams.max(1) {
        let id = sh.fresh_id();
        ids.push(id);
        let mid = k % 2 == 1;
        let sid = c.next_stream_id();
        let path = format!("/{}/{id}/{}/{}", if mid { 'm' } else { 'h' }, plan.resp_len, plan.gate);
        if let Err(e) = c.send_headers(sid, &h2::request_headers("GET", "https", HOST, &path, &[]), true) {
            return setup(format!("send_headers: {e}"));
        }
        streams.insert(sid, St { id, mid, got: 0, ok: true, status: None, tag: None, done: false, rst: None });
    }
    let mut parked_us = None;
    let mut owed: std::collections::BTreeMap<u32, u32> = Default::default();
    let mut owed_conn = 0u32;
    let mut ping_sent: Option<Instant> = None;
    let mut ping_acked_ms: Option<u64> = None;
    let mut last_progress = Instant::now();
    let mut goaways = Vec::new();
    let mut closed: Option<String> = None;
    let start = Instant::now();
    let mut released_at: Option<Instant> = None;
    loop {
        if streams.values().all(|s| s.done || s.rst.is_some()) || sh.cancelled(0) {
            break;
        }
        if released_at.is_none() && (sh.gates[plan.gate.min(1)].is_open() || sh.abort.load(Ordering::SeqCst)) {
            released_at = Some(Instant::now());
        }
        if let Some(r) = released_at {
            if r.elapsed() > AFTER_RELEASE {
                break;
            }
        } else if start.elapsed() > PARK_MAX {
            break;
        }
        if parked_us.is_none() {
            let all = streams.values().all(|s| if s.mid { s.got >= 1 } else { sh.seen_of(s.id).complete });
            if all {
                parked_us = Some(park(sh));
            } else if start.elapsed() > Duration::from_secs(8) {
                return finish(sh, plan, ids, None, Fate::Setup("the streams never reached their parked state".into()), None, json!({"trace": c.trace_tail(16)}));
            }
        }
        // diagnostic only: when nothing has moved for a second after the GOAWAY, does the worker
        // still read this connection (PING -> PING ACK)?
        if !goaways.is_empty() && ping_sent.is_none() && last_progress.elapsed() > Duration::from_secs(1) && closed.is_none() {
            let _ = c.send_ping(false, *b"c10stall");
            ping_sent = Some(Instant::now());
        }
        match c.poll(Duration::from_millis(20)) {
            Ok(Some(H2Event::Ping { ack: true, .. })) => {
                if let Some(t) = ping_sent {
                    ping_acked_ms.get_or_insert(t.elapsed().as_millis() as u64);
                }
            }
            Ok(Some(H2Event::WindowUpdate { .. })) | Ok(Some(H2Event::Settings { .. })) => {}
            Ok(Some(H2Event::Headers { stream, headers, end_stream })) => {
                if let Some(s) = streams.get_mut(&stream) {
                    if s.status.is_none() {
                        s.status = h2::header_str(&headers, ":status");
                        s.tag = h2::header_str(&headers, "x-tag");
                    }
                    if end_stream {
                        s.done = true;
                    }
                }
            }
            Ok(Some(H2Event::Data { stream, data, flow_len, end_stream })) => {
                last_progress = Instant::now();
                owed_conn += flow_len as u32;
                let o = owed.entry(stream).or_insert(0u32);
                *o += flow_len as u32;
                if !end_stream && *o >= 24_000 {
                    let _ = c.send_window_update(stream, *o);
                    *o = 0;
                }
                if owed_conn >= 24_000 {
                    let _ = c.send_window_update(0, owed_conn);
                    owed_conn = 0;
                }
                if let Some(s) = streams.get_mut(&stream) {
                    if keystream_mismatch(s.id, s.got as u64, &data).is_some() {
                        s.ok = false;
                    }
                    s.got += data.len();
                    if end_stream {
                        s.done = true;
                    }
                }
            }
            Ok(Some(H2Event::RstStream { stream, code })) => {
                if let Some(s) = streams.get_mut(&stream) {
                    s.rst = Some(code);
                }
            }
            Ok(Some(H2Event::GoAway { last, code, .. })) => goaways.push(json!({"last_stream_id": last, "code": code, "at_us": sh.us()})),
            Ok(Some(H2Event::Closed)) => {
                closed.get_or_insert_with(|| "connection closed".into());
                break;
            }
            Err(e) => {
                // (a write of ours failed because the peer is gone: what it sent before is still
                // queued and must be looked at)
                if closed.is_some() {
                    break;
                }
                closed = Some(format!("{e}"));
            }
            Ok(_) => {}
        }
    }
    let total = streams.len();
    let good = streams.values().filter(|s| s.done && s.ok && s.got == plan.resp_len && s.status.as_deref() == Some("200")).count();
    let detail = json!({
        "streams": streams.iter().map(|(sid, s)| json!({"stream": sid, "request_id": s.id, "parked": if s.mid { "mid_download" } else { "before_headers" },
            "status": s.status, "body_bytes": s.got, "expected": plan.resp_len, "keystream_ok": s.ok, "end_stream": s.done, "rst_stream": s.rst})).collect::<Vec<_>>(),
        "goaway_frames": goaways, "connection": closed, "ms_from_release_to_end": released_at.map(|r| r.elapsed().as_millis() as u64), "ping_sent_after_1s_without_progress": ping_sent.is_some(), "ping_ack_after_ms": ping_acked_ms, "last_frames": c.trace_tail(24),
    });
    let tag = streams.values().find_map(|s| s.tag.clone());
    let fate = if good == total {
        Fate::Completed
    } else if streams.values().any(|s| !s.ok) {
        Fate::Corrupt("a stream body differs from the keystream".into())
    } else if closed.is_some() || streams.values().any(|s| s.rst.is_some()) {
        Fate::Cut(format!("{good} of {total} streams completed; {}", closed.clone().unwrap_or_else(|| "RST_STREAM received".into())))
    } else if streams.values().any(|s| s.done) && good < total && streams.values().all(|s| s.done) {
        Fate::Corrupt(format!("{good} of {total} streams complete with the expected status and length"))
    } else {
        Fate::Hung(format!("{good} of {total} streams completed before the watchdog"))
    };
    let fate = if parked_us.is_none() && fate != Fate::Completed { Fate::Setup(format!("{fate:?}")) } else { fate };
    if fate == Fate::Completed {
        let _ = c.send_goaway(0, h2::ERR_NO_ERROR, b"");
    }
    let _ = c.io.stream.sock.shutdown(Shutdown::Both);
    finish(sh, plan, ids, parked_us, fate, tag, detail)
}

// ------------------------------------------------------------------------------------------------
// fleet
// ------------------------------------------------------------------------------------------------

#[derive(Clone, Debug)]
pub enum ReqEnd {
    Ok,
    /// closed or reset with zero response bytes
    Zero(String),
    /// closed or reset after some response bytes
    Partial(String),
    /// nothing (more) arrived until the watchdog, connection still open
    Timeout(String),
    Corrupt(String),
}

#[derive(Clone, Debug)]
pub struct FleetReq {
    pub id: u64,
    pub sent_us: u64,
    pub end_us: u64,
    pub end: ReqEnd,
    pub tag: Option<String>,
}

#[derive(Clone, Debug)]
pub struct FleetConn {
    pub listener: usize,
    pub kind: Kind,
    pub burst: bool,
    pub connect_start_us: u64,
    pub connected_us: u64,
    pub connect_err: Option<(String, String)>,
    pub handshake_err: Option<String>,
    pub delay_ms: u64,
    pub reqs: Vec<FleetReq>,
}

impl FleetConn {
    pub fn json(&self) -> Value {
        json!({"listener": self.listener, "kind": self.kind.name(), "burst": self.burst, "connect_started_at_us": self.connect_start_us, "connected_at_us": self.connected_us,
            "connect_error": self.connect_err, "tls_handshake_error": self.handshake_err, "delay_before_first_byte_ms": self.delay_ms,
            "requests": self.reqs.iter().map(|r| json!({"id": r.id, "sent_at_us": r.sent_us, "ended_at_us": r.end_us, "end": format!("{:?}", r.end), "tag": r.tag})).collect::<Vec<_>>()})
    }
}


fn resp_end(r: &Resp, len: usize) -> ReqEnd {
    if r.good(len) {
        ReqEnd::Ok
    } else if !r.body_ok || r.complete {
        ReqEnd::Corrupt(format!("status {:?}, {} body bytes, keystream ok: {}", r.status, r.body_len, r.body_ok))
    } else if r.ended == "timeout" {
        ReqEnd::Timeout(format!("{} bytes received", r.bytes))
    } else if r.bytes == 0 {
        ReqEnd::Zero(r.ended.clone())
    } else {
        ReqEnd::Partial(format!("{} after {} bytes", r.ended, r.bytes))
    }
}

/// exchange on an established TCP connection (TLS handshake included)
pub fn fleet_exchange(sh: &Shared, rng: &mut Rng, rec: &mut FleetConn, tcp: TcpStream, nreq: usize) {
    if rec.delay_ms > 0 {
        std::thread::sleep(Duration::from_millis(rec.delay_ms));
    }
    if rec.kind == Kind::Tcp {
        let id = sh.fresh_id();
        let mut c = Conn::Plain(tcp);
        let data = keystream(id, 0, 48);
        let sent_us = sh.us();
        let mut got: Vec<u8> = Vec::new();
        let mut end = None;
        if let Err(e) = c.write_all(&data) {
            end = Some(ReqEnd::Zero(format!("write: {e}")));
        }
        let deadline = Instant::now() + Duration::from_millis(sh.fleet_wait_ms.load(Ordering::SeqCst));
        let mut buf = [0u8; 256];
        while end.is_none() && got.len() < 49 {
            if sh.cancelled(rec.connected_us) {
                end = Some(ReqEnd::Zero("cancelled".into()));
                break;
            }
            if Instant::now() > deadline {
                end = Some(ReqEnd::Timeout(format!("{} bytes received", got.len())));
                break;
            }
            c.set_read_timeout(Duration::from_millis(250));
            match c.read(&mut buf) {
                Ok(0) => end = Some(if got.is_empty() { ReqEnd::Zero("eof".into()) } else { ReqEnd::Partial(format!("eof after {} bytes", got.len())) }),
                Ok(n) => got.extend_from_slice(&buf[..n]),
                Err(e) if matches!(e.kind(), io::ErrorKind::WouldBlock | io::ErrorKind::TimedOut | io::ErrorKind::Interrupted) => {}
                Err(e) => end = Some(if got.is_empty() { ReqEnd::Zero(format!("reset:{e}")) } else { ReqEnd::Partial(format!("reset after {} bytes: {e}", got.len())) }),
            }
        }
        let tag = got.first().map(|b| if *b == b'N' { "new".to_owned() } else { "old".to_owned() });
        let end = end.unwrap_or_else(|| if got[1..] == data[..] { ReqEnd::Ok } else { ReqEnd::Corrupt("echo differs".into()) });
        c.shutdown_write();
        rec.reqs.push(FleetReq { id, sent_us, end_us: sh.us(), end, tag });
        return;
    }
    let mut c = if rec.kind == Kind::Https {
        match tls_wrap(tcp, sh.tls_h1.clone()) {
            Ok((t, _)) => Conn::Tls(Box::new(t)),
            Err(e) => {
                rec.handshake_err = Some(format!("{e:?}"));
                return;
            }
        }
    } else {
        Conn::Plain(tcp)
    };
    let mut p = h1::Parser::new(h1::Kind::Response, true);
    for k in 0..nreq {
        let id = sh.fresh_id();
        let len = *rng.pick(&[0usize, 1, 200, 3000, 20000]);
        let sent_us = sh.us();
        if let Err(e) = c.write_all(&get_request('f', id, len, 0, "")) {
            rec.reqs.push(FleetReq { id, sent_us, end_us: sh.us(), end: ReqEnd::Zero(format!("write: {e}")), tag: None });
            return;
        }
        let r = read_response(sh, &mut c, &mut p, id, rec.connected_us, Instant::now() + Duration::from_millis(sh.fleet_wait_ms.load(Ordering::SeqCst)), |_| {});
        let end = resp_end(&r, len);
        let ok = matches!(end, ReqEnd::Ok);
        rec.reqs.push(FleetReq { id, sent_us, end_us: r.end_us, end, tag: r.tag.clone() });
        if !ok {
            return;
        }
        if k + 1 < nreq {
            std::thread::sleep(Duration::from_millis(rng.below(25)));
        }
    }
}

pub fn fleet_conn(sh: &Shared, rng: &mut Rng, listeners: &[(Kind, SocketAddr)], slow_pct: u64) -> FleetConn {
    let li = rng.usize_below(listeners.len());
    let (kind, addr) = listeners[li];
    let delay_ms = if rng.below(100) < slow_pct { rng.range(1, 25) } else { 0 };
    let mut rec = FleetConn { listener: li, kind, burst: false, connect_start_us: sh.us(), connected_us: 0, connect_err: None, handshake_err: None, delay_ms, reqs: Vec::new() };
    match tcp_connect(addr) {
        Ok(tcp) => {
            rec.connected_us = sh.us();
            let nreq = if rng.chance(1, 3) { 2 } else { 1 };
            fleet_exchange(sh, rng, &mut rec, tcp, nreq);
        }
        Err(OpenErr::Connect { class, text }) => {
            rec.connected_us = sh.us();
            rec.connect_err = Some((class, text));
        }
        Err(OpenErr::Handshake(_)) => unreachable!(),
    }
    rec
}

pub fn fleet_thread(sh: Arc<Shared>, mut rng: Rng, listeners: Vec<(Kind, SocketAddr)>, slow_pct: u64, cap: usize) -> Vec<FleetConn> {
    let mut out = Vec::new();
    while !sh.fleet_stop.load(Ordering::SeqCst) && !sh.abort.load(Ordering::SeqCst) && out.len() < cap {
        out.push(fleet_conn(&sh, &mut rng, &listeners, slow_pct));
        std::thread::sleep(Duration::from_micros(rng.range(200, 4000)));
    }
    out
}

/// opens `n` connections at once when the orchestrator says so (nobody accepts at that moment),
/// then talks on each of them
pub fn burst_thread(sh: Arc<Shared>, mut rng: Rng, listeners: Vec<(Kind, SocketAddr)>, n: usize) -> Vec<FleetConn> {
    let start = Instant::now();
    while !sh.burst_go.load(Ordering::SeqCst) {
        if sh.abort.load(Ordering::SeqCst) || sh.fleet_stop.load(Ordering::SeqCst) || start.elapsed() > Duration::from_secs(30) {
            return Vec::new();
        }
        std::thread::sleep(Duration::from_micros(300));
    }
    let mut open: Vec<(FleetConn, Option<TcpStream>)> = Vec::new();
    for _ in 0..n {
        let li = rng.usize_below(listeners.len());
        let (kind, addr) = listeners[li];
        let mut rec = FleetConn { listener: li, kind, burst: true, connect_start_us: sh.us(), connected_us: 0, connect_err: None, handshake_err: None, delay_ms: 0, reqs: Vec::new() };
        match tcp_connect(addr) {
            Ok(t) => {
                rec.connected_us = sh.us();
                open.push((rec, Some(t)));
            }
            Err(OpenErr::Connect { class, text }) => {
                rec.connected_us = sh.us();
                rec.connect_err = Some((class, text));
                open.push((rec, None));
            }
            Err(_) => unreachable!(),
        }
    }
    let mut out = Vec::new();
    for (mut rec, tcp) in open {
        if let Some(tcp) = tcp {
            fleet_exchange(&sh, &mut rng, &mut rec, tcp, 1);
        }
        out.push(rec);
    }
    out
}

/// one probe of a listener on a fresh connection
pub fn probe(sh: &Shared, rng: &mut Rng, listeners: &[(Kind, SocketAddr)], li: usize) -> FleetConn {
    let (kind, addr) = listeners[li];
    let mut rec = FleetConn { listener: li, kind, burst: false, connect_start_us: sh.us(), connected_us: 0, connect_err: None, handshake_err: None, delay_ms: 0, reqs: Vec::new() };
    match tcp_connect(addr) {
        Ok(tcp) => {
            rec.connected_us = sh.us();
            fleet_exchange(sh, rng, &mut rec, tcp, 1);
        }
        Err(OpenErr::Connect { class, text }) => {
            rec.connected_us = sh.us();
            rec.connect_err = Some((class, text));
        }
        Err(_) => unreachable!(),
    }
    rec
}
