//! C10 monitor (A): fd hand-off codec.
//!
//! `ScmSocket::send_listeners` / `receive_listeners` over a fresh Unix stream socketpair (what
//! sozu uses: `UnixStream::pair()` in bin/src/worker.rs:275, lib/src/lib.rs:1627) with *real*
//! sockets: TCP listeners for the http/tls/tcp lists, bound UDP sockets for the udp list.
//!
//! Documented fd limit quantified over by the statement ("any set of listeners up to the
//! documented fd limit"): `MAX_FDS_OUT = 200` — command/src/scm_socket.rs:25, repeated in
//! CHANGELOG.md:122 ("a fixed `[RawFd; MAX_FDS_OUT]` (200)") and
//! e2e/src/tests/command_channel_security_tests.rs:16. doc/ has no other figure.
//!
//! Address-text classes that could be bound on this host (Linux, root, loopback only):
//!  * `v4_short`  `127.a.b.c:p`, one digit per octet and port 1..9: 11 characters, the shortest
//!                text of a distinct unicast IPv4 socket address (only the wildcard `0.0.0.0:p`, 9
//!                characters, is shorter; it cannot give 200 distinct addresses). Needs root for
//!                ports < 1024; falls back to 4-digit ports (14 characters) otherwise;
//!  * `v4_long`   `127.1xx.1yy.1zz:2pppp`: 21 characters, the longest IPv4 text;
//!  * `v6_short`  `[::1]:p`, p = 1, 2, …: 7..9 characters (`::1` is the only loopback IPv6
//!                address, so distinct listeners differ by port);
//!  * `v6_long`   `[::ffff:127.1xx.1yy.1zz]:2pppp` (dual-stack socket bound to a v4-mapped
//!                address): 30 characters. A full 8-group address such as
//!                `[fd00:1234:5678:9abc:def0:1234:5678:9abc]:65535` (47 characters) is not
//!                bindable without configuring the interface, which this check does not do;
//!  * `mixed`     the four above in rotation.
//!
//! Oracle: for counts <= 200 both calls succeed, the received per-protocol lists equal the sent
//! ones in order (addresses), every received fd is a new descriptor of the same socket (`fstat`
//! st_dev/st_ino) whose `getsockname` is the listed address, and after closing what was received no
//! descriptor of any pool socket is left over (`/proc/self/fd` identity scan + census). Above the
//! limit: an error on either side, never a panic, never a table with fewer/other entries.

use std::{
    collections::{BTreeMap, HashMap, HashSet},
    net::{IpAddr, Ipv4Addr, Ipv6Addr, SocketAddr},
    os::unix::{
        io::{AsRawFd, FromRawFd, IntoRawFd, RawFd},
        net::UnixStream,
    },
    time::Duration,
};

use prost::Message;
use serde_json::{Value, json};
use socket2::{Domain, Socket, Type};
use sozu_command_lib::{
    proto::command::ListenersCount,
    scm_socket::{Listeners, MAX_BYTES_OUT, MAX_FDS_OUT, ScmSocket, ScmSocketError},
};

use crate::common::{Ctx, Report, guard};

/// the documented limit (see module documentation)
const DOC_FD_LIMIT: usize = 200;
const LIMIT_CITATION: &str = "MAX_FDS_OUT = 200: command/src/scm_socket.rs:25; CHANGELOG.md:122; e2e/src/tests/command_channel_security_tests.rs:16";
const POOL: usize = 254;
const CLASSES: [&str; 5] = ["v4_short", "v4_long", "v6_short", "v6_long", "mixed"];
const MIXES: [&str; 6] = ["http", "tls", "tcp", "udp", "four_way", "tcp_udp"];

struct Entry {
    addr: SocketAddr,
    tcp: Socket,
    udp: Socket,
}

type Ident = (u64, u64);

fn ident(fd: RawFd) -> Option<Ident> {
    // SAFETY: fstat on a descriptor number; failure is reported through the return value
    unsafe {
        let mut st: libc::stat = std::mem::zeroed();
        if libc::fstat(fd, &mut st) == 0 { Some((st.st_dev as u64, st.st_ino as u64)) } else { None }
    }
}

fn sockname(fd: RawFd) -> Option<SocketAddr> {
    // SAFETY: the descriptor is only borrowed: ownership is released again with into_raw_fd
    let s = unsafe { Socket::from_raw_fd(fd) };
    let r = s.local_addr().ok().and_then(|a| a.as_socket());
    let _ = s.into_raw_fd();
    r
}

fn close_fd(fd: RawFd) {
    // SAFETY: closing a descriptor this process received and owns
    unsafe {
        libc::close(fd);
    }
}

fn open_fds() -> Vec<RawFd> {
    let mut v = Vec::new();
    if let Ok(rd) = std::fs::read_dir("/proc/self/fd") {
        for e in rd.flatten() {
            if let Some(n) = e.file_name().to_str().and_then(|s| s.parse::<RawFd>().ok()) {
                v.push(n);
            }
        }
    }
    v
}

fn raise_nofile(rep: &mut Report) {
    // SAFETY: plain getrlimit/setrlimit
    unsafe {
        let mut rl: libc::rlimit = std::mem::zeroed();
        if libc::getrlimit(libc::RLIMIT_NOFILE, &mut rl) == 0 {
            if rl.rlim_cur < rl.rlim_max {
                rl.rlim_cur = rl.rlim_max;
                libc::setrlimit(libc::RLIMIT_NOFILE, &rl);
                libc::getrlimit(libc::RLIMIT_NOFILE, &mut rl);
            }
            rep.set("scm_rlimit_nofile", json!(rl.rlim_cur));
        }
    }
}

fn candidate(class: usize, k: u64, privileged: bool) -> SocketAddr {
    let long_ip = |k: u64| Ipv4Addr::new(127, 100 + ((k / 10_000) % 100) as u8, 100 + ((k / 100) % 100) as u8, 100 + (k % 100) as u8);
    let long_port = |k: u64| 20_000 + ((k * 7) % 40_000) as u16;
    match class {
        0 => {
            // 127.a.b.c:p, one digit each (c >= 1)
            let c = 1 + (k % 9) as u8;
            let b = ((k / 9) % 10) as u8;
            let a = ((k / 90) % 10) as u8;
            let pi = (k / 900) as usize;
            let port = if privileged { [7u16, 9, 5, 3, 1, 2, 4, 6, 8][pi % 9] } else { 1024 + pi as u16 };
            SocketAddr::new(IpAddr::V4(Ipv4Addr::new(127, a, b, c)), port)
        }
        1 => SocketAddr::new(IpAddr::V4(long_ip(k)), long_port(k)),
        2 => SocketAddr::new(IpAddr::V6(Ipv6Addr::LOCALHOST), if privileged { 1 + k as u16 } else { 1024 + k as u16 }),
        3 => SocketAddr::new(IpAddr::V6(long_ip(k + 5_000).to_ipv6_mapped()), long_port(k + 13)),
        _ => candidate((k % 4) as usize, k / 4 + 400, privileged),
    }
}

fn bind_one(addr: SocketAddr) -> std::io::Result<(Socket, Socket)> {
    let dom = if addr.is_ipv4() { Domain::IPV4 } else { Domain::IPV6 };
    let mk = |ty: Type| -> std::io::Result<Socket> {
        let s = Socket::new(dom, ty, None)?;
        if addr.is_ipv6() {
            // dual stack so that v4-mapped addresses can be bound
            s.set_only_v6(false)?;
        }
        s.bind(&addr.into())?;
        Ok(s)
    };
    let t = mk(Type::STREAM)?;
    t.listen(16)?;
    let u = mk(Type::DGRAM)?;
    Ok((t, u))
}

/// POOL listening TCP sockets + bound UDP sockets on distinct addresses of the class.
/// A busy address/port is skipped (harness-side retry, not a verdict).
fn build_pool(class: usize, rep: &mut Report) -> Result<Vec<Entry>, String> {
    let mut privileged = true;
    let mut pool = Vec::with_capacity(POOL);
    let mut k = 0u64;
    let mut failures = 0u64;
    let mut last_err = String::new();
    while pool.len() < POOL {
        if failures > 3_000 {
            return Err(format!("could not bind {POOL} addresses of class {} ({} bound, last error: {last_err})", CLASSES[class], pool.len()));
        }
        let addr = candidate(class, k, privileged);
        k += 1;
        match bind_one(addr) {
            Ok((tcp, udp)) => {
                let bound = tcp.local_addr().ok().and_then(|a| a.as_socket());
                if bound != Some(addr) {
                    failures += 1;
                    last_err = format!("bound address {bound:?} differs from requested {addr}");
                    continue;
                }
                pool.push(Entry { addr, tcp, udp });
            }
            Err(e) => {
                failures += 1;
                last_err = format!("{addr}: {e}");
                rep.obs("scm_bind_retries", 1);
                if e.kind() == std::io::ErrorKind::PermissionDenied && privileged {
                    privileged = false;
                    rep.obs("scm_unprivileged_fallback", 1);
                    k = 0;
                }
            }
        }
    }
    Ok(pool)
}

fn err_kind(e: &ScmSocketError) -> &'static str {
    match e {
        ScmSocketError::SetBlocking { .. } => "SetBlocking",
        ScmSocketError::Send(_) => "Send",
        ScmSocketError::Receive(_) => "Receive",
        ScmSocketError::InvalidCharSet(_) => "InvalidCharSet",
        ScmSocketError::ListenerParse(_) => "ListenerParse",
        ScmSocketError::WrongSocketAddress { .. } => "WrongSocketAddress",
        ScmSocketError::DecodeError(_) => "DecodeError",
        ScmSocketError::ListenersCountInconsistent { .. } => "ListenersCountInconsistent",
    }
}

fn build_listeners(pool: &[Entry], n: usize, mix: usize) -> Listeners {
    let mut l = Listeners::default();
    for (i, e) in pool.iter().take(n).enumerate() {
        let t = (e.addr, e.tcp.as_raw_fd());
        let u = (e.addr, e.udp.as_raw_fd());
        match mix {
            0 => l.http.push(t),
            1 => l.tls.push(t),
            2 => l.tcp.push(t),
            3 => l.udp.push(u),
            4 => match i % 4 {
                0 => l.http.push(t),
                1 => l.tls.push(t),
                2 => l.tcp.push(t),
                _ => l.udp.push(u),
            },
            _ => {
                if i < n / 2 {
                    l.tcp.push(t)
                } else {
                    l.udp.push(u)
                }
            }
        }
    }
    l
}

struct Outcome {
    send: Result<(), (&'static str, String)>,
    recv: Option<Result<Listeners, (&'static str, String)>>,
}

fn exchange(l: &Listeners) -> std::io::Result<Outcome> {
    let (a, b) = UnixStream::pair()?;
    // watchdog: a blocking recvmsg with nothing to read must not hang the harness
    b.set_read_timeout(Some(Duration::from_secs(3)))?;
    a.set_write_timeout(Some(Duration::from_secs(3)))?;
    let tx = ScmSocket::new(a.as_raw_fd()).map_err(|e| std::io::Error::other(e.to_string()))?;
    let rx = ScmSocket::new(b.as_raw_fd()).map_err(|e| std::io::Error::other(e.to_string()))?;
    let send = tx.send_listeners(l).map_err(|e| (err_kind(&e), e.to_string()));
    let recv = if send.is_ok() { Some(rx.receive_listeners().map_err(|e| (err_kind(&e), e.to_string()))) } else { None };
    Ok(Outcome { send, recv })
}

fn flat(l: &Listeners) -> Vec<(&'static str, SocketAddr, RawFd)> {
    let mut v = Vec::new();
    for (name, list) in [("http", &l.http), ("tls", &l.tls), ("tcp", &l.tcp), ("udp", &l.udp)] {
        for (a, fd) in list {
            v.push((name, *a, *fd));
        }
    }
    v
}

fn one_case(ctx: &Ctx, rep: &mut Report, class: usize, mix: usize, n: usize, pool: &[Entry], pool_ids: &HashMap<Ident, RawFd>, pool_fds: &HashSet<RawFd>, first_fail: &mut BTreeMap<String, usize>) {
    let case = ((class * MIXES.len() + mix) * 1000 + n) as u64;
    let sent = build_listeners(pool, n, mix);
    let manifest = ListenersCount {
        http: sent.http.iter().map(|t| t.0.to_string()).collect(),
        tls: sent.tls.iter().map(|t| t.0.to_string()).collect(),
        tcp: sent.tcp.iter().map(|t| t.0.to_string()).collect(),
        udp: sent.udp.iter().map(|t| t.0.to_string()).collect(),
    };
    let manifest_bytes = manifest.encode_length_delimited_to_vec().len();
    let text_lens: Vec<usize> = pool.iter().take(n).map(|e| e.addr.to_string().len()).collect();
    let mut shape = format!("{}/{}/{n}", CLASSES[class], MIXES[mix]).into_bytes();
    shape.push(0);
    rep.case_bytes(&shape, n >= 1);
    if n == 3 || n == DOC_FD_LIMIT {
        rep.sample(serde_json::json!({"class": CLASSES[class], "mix": MIXES[mix], "listeners": n,
            "manifest_bytes": manifest_bytes,
            "first_addresses": pool.iter().take(n.min(3)).map(|e| e.addr.to_string()).collect::<Vec<_>>()}));
    }
    rep.obs("scm_exchanges", 1);
    rep.obs(&format!("scm_class/{}", CLASSES[class]), 1);
    rep.obs(&format!("scm_mix/{}", MIXES[mix]), 1);
    if n == DOC_FD_LIMIT {
        rep.obs("scm_n200_attempted", 1);
    }
    rep.obs_max("scm_manifest_bytes", manifest_bytes as u64);
    let base = json!({
        "monitor": "A/scm", "case": case, "seed": ctx.seed, "class": CLASSES[class], "mix": MIXES[mix], "listeners": n,
        "per_protocol": {"http": sent.http.len(), "tls": sent.tls.len(), "tcp": sent.tcp.len(), "udp": sent.udp.len()},
        "address_text_len": {"min": text_lens.iter().min(), "max": text_lens.iter().max()},
        "first_address": pool.first().filter(|_| n > 0).map(|e| e.addr.to_string()),
        "last_address": if n > 0 { pool.get(n - 1).map(|e| e.addr.to_string()) } else { None },
        "manifest_bytes(length-delimited ListenersCount)": manifest_bytes,
        "MAX_BYTES_OUT": MAX_BYTES_OUT,
        "documented_fd_limit": LIMIT_CITATION,
        "reproduce": "bind the listed addresses (TCP listen / UDP bind), put (address, fd) in the named Listeners lists, send_listeners on one end of UnixStream::pair(), receive_listeners on the other",
    });

    let census_before = open_fds().len();
    let out = match guard(|| exchange(&sent)) {
        Ok(Ok(o)) => o,
        Ok(Err(e)) => {
            rep.inconclusive(&format!("harness could not set up the socketpair: {e}"));
            return;
        }
        Err(p) => {
            if p.in_sozu() {
                let mut w = base.clone();
                w["panic"] = json!({"message": p.message, "location": p.location});
                rep.violation(&p.signature(), &format!("sozu panicked in the fd hand-off codec: {} at {}", p.message, p.location), w);
            } else {
                rep.broken(&format!("harness panic in scm case {case}: {} at {}", p.message, p.location));
            }
            return;
        }
    };
    let in_range = n <= DOC_FD_LIMIT;
    let key = format!("{}/{}", CLASSES[class], MIXES[mix]);
    let mut failed = false;

    // close what the receiver got (only descriptors that really are new references to pool sockets)
    let mut received_ok: Option<Listeners> = None;
    match (&out.send, &out.recv) {
        (Err((k, text)), _) => {
            failed = true;
            if text.contains("EAGAIN") || text.contains("EWOULDBLOCK") {
                rep.inconclusive("send_listeners hit the harness watchdog timeout");
            } else if in_range {
                let mut w = base.clone();
                w["observed"] = json!({"send_listeners": text});
                w["expected"] = json!("Ok for any listener count up to the documented limit");
                rep.violation(&format!("scm/send_failed/{k}"), &format!("send_listeners failed for {n} listeners (limit 200): {text}"), w);
            } else {
                rep.obs(&format!("scm_over_limit/send_err/{k}"), 1);
                rep.obs("scm_over_limit_checked", 1);
            }
        }
        (Ok(()), Some(Err((k, text)))) => {
            failed = true;
            if text.contains("EAGAIN") || text.contains("EWOULDBLOCK") {
                rep.inconclusive("receive_listeners hit the harness watchdog timeout");
            } else if in_range {
                let mut w = base.clone();
                w["observed"] = json!({"send_listeners": "Ok", "receive_listeners": text, "error_kind": k});
                w["expected"] = json!("Ok(listeners equal to the sent ones) for any listener count up to the documented limit");
                let sig = if manifest_bytes > MAX_BYTES_OUT && *k == "DecodeError" {
                    "scm/manifest_truncated/total_bytes>4096".to_owned()
                } else {
                    format!("scm/receive_failed/{k}")
                };
                rep.violation(&sig, &format!("receive_listeners failed for {n} listeners ({} class, manifest {manifest_bytes} bytes): {text}", CLASSES[class]), w);
            } else {
                rep.obs(&format!("scm_over_limit/receive_err/{k}"), 1);
                rep.obs("scm_over_limit_checked", 1);
            }
        }
        (Ok(()), Some(Ok(l))) => received_ok = Some(l.clone()),
        (Ok(()), None) => unreachable!(),
    }

    let mut received_fds: Vec<RawFd> = Vec::new();
    if let Some(got) = &received_ok {
        let s = flat(&sent);
        let g = flat(got);
        let mut problem: Option<(String, String)> = None;
        let counts = |l: &Listeners| (l.http.len(), l.tls.len(), l.tcp.len(), l.udp.len());
        if counts(&sent) != counts(got) {
            let class_ = if g.len() < s.len() { "partial_table" } else { "count_mismatch" };
            problem = Some((class_.into(), format!("sent per-protocol counts {:?}, received {:?}", counts(&sent), counts(got))));
        }
        let mut seen = HashSet::new();
        for (i, (gp, ga, gfd)) in g.iter().enumerate() {
            // identity first: never close a descriptor that is not a fresh reference to a pool socket
            let id = ident(*gfd);
            let is_pool_socket = id.map(|i| pool_ids.contains_key(&i)).unwrap_or(false);
            let fresh = !pool_fds.contains(gfd) && *gfd > 2 && seen.insert(*gfd);
            if is_pool_socket && fresh {
                received_fds.push(*gfd);
            }
            if problem.is_some() {
                continue;
            }
            let Some((sp, sa, sfd)) = s.get(i) else { continue };
            if gp != sp || ga != sa {
                problem = Some(("address_mismatch".into(), format!("entry {i}: sent {sp} {sa}, received {gp} {ga}")));
            } else if !fresh {
                problem = Some(("fd_not_fresh".into(), format!("entry {i} ({ga}): received descriptor {gfd} is not a new descriptor")));
            } else if id.is_none() || id != ident(*sfd) {
                problem = Some(("fd_other_socket".into(), format!("entry {i} ({ga}): received descriptor {gfd} is {:?}, the sent socket is {:?}", id, ident(*sfd))));
            } else if sockname(*gfd) != Some(*ga) {
                problem = Some(("getsockname_mismatch".into(), format!("entry {i}: listed {ga}, getsockname {:?}", sockname(*gfd))));
            } else {
                rep.obs("scm_fds_verified", 1);
            }
        }
        if let Some((class_, text)) = problem {
            failed = true;
            let mut w = base.clone();
            w["observed"] = json!(text);
            w["expected"] = json!("received (address, fd) lists equal the sent ones in order; each fd is the same socket");
            if in_range || class_ == "partial_table" || class_ == "count_mismatch" {
                rep.violation(&format!("scm/table_mismatch/{class_}"), &format!("{n} listeners: {text}"), w);
            } else {
                rep.obs(&format!("scm_over_limit/table_mismatch/{class_}"), 1);
            }
        } else if in_range {
            rep.obs("scm_ok_roundtrips", 1);
            rep.obs_max(&format!("scm_max_n_ok/{}", CLASSES[class]), n as u64);
            if n == DOC_FD_LIMIT {
                rep.obs("scm_n200_ok", 1);
            }
        } else {
            // a complete and correct table above the limit is outside the statement: exempt
            rep.obs("scm_over_limit/complete_table_accepted(exempt)", 1);
            rep.obs("scm_over_limit_checked", 1);
        }
    }
    for fd in &received_fds {
        close_fd(*fd);
    }
    // identity scan: any descriptor left that refers to a pool socket but is not a pool descriptor
    let mut leaked = Vec::new();
    for fd in open_fds() {
        if pool_fds.contains(&fd) {
            continue;
        }
        if let Some(id) = ident(fd) {
            if pool_ids.contains_key(&id) {
                leaked.push(fd);
            }
        }
    }
    rep.obs("scm_leak_scans", 1);
    if !leaked.is_empty() {
        for fd in &leaked {
            close_fd(*fd);
        }
        let recv_failed = matches!(out.recv, Some(Err(_)));
        if in_range {
            let mut w = base.clone();
            w["observed"] = json!({"descriptors_left_open_in_the_receiving_process": leaked.len(), "receive_listeners": out.recv.as_ref().map(|r| r.as_ref().map(|_| "Ok".to_owned()).unwrap_or_else(|e| e.1.clone()))});
            w["expected"] = json!("after closing every descriptor of the returned table no reference to the passed sockets is left");
            let sig = if recv_failed { "scm/fd_leak_on_receive_error" } else { "scm/fd_leak" };
            rep.violation(sig, &format!("{} passed descriptors stay open in the receiver ({n} listeners sent)", leaked.len()), w);
        } else {
            rep.obs("scm_over_limit/receiver_fd_leak(observed, outside the statement)", 1);
            rep.obs_max("scm_over_limit_leaked_fds", leaked.len() as u64);
        }
    }
    let census_after = open_fds().len();
    if census_after != census_before {
        rep.inconclusive("fd census differs although no pool socket reference is left (another thread opened/closed descriptors?)");
    } else {
        rep.obs("scm_fd_census_equal", 1);
    }
    if failed && in_range {
        first_fail.entry(key).or_insert(n);
    }
}

pub fn run_scm(ctx: &Ctx, rep: &mut Report) {
    rep.assume("monitor A: fstat st_dev/st_ino identifies a socket; SCM_RIGHTS duplicates are new descriptors of the same open file");
    rep.assume("monitor A: above the documented limit (201, 253, 254 listeners) an error on either side is required; a complete correct table is exempt; descriptors left in the receiver on that error path are recorded, not judged");
    for k in ["scm_ok_roundtrips", "scm_fds_verified", "scm_over_limit_checked", "scm_n200_attempted", "scm_leak_scans"] {
        rep.require(k);
    }
    if MAX_FDS_OUT != DOC_FD_LIMIT {
        rep.broken(&format!("MAX_FDS_OUT is {MAX_FDS_OUT}, the monitor was written for the documented limit {DOC_FD_LIMIT}"));
        return;
    }
    raise_nofile(rep);

    // replay: only the (class, mix, n) of the witnesses
    let mut only: Option<Vec<(usize, usize, usize)>> = None;
    if let Some(path) = &ctx.replay {
        let v: Value = serde_json::from_str(&std::fs::read_to_string(path).unwrap_or_default()).unwrap_or(Value::Null);
        let mut cases = Vec::new();
        if let Some(ws) = v["witnesses"].as_array() {
            for w in ws {
                if w["monitor"].as_str() == Some("A/scm") {
                    if let Some(c) = w["case"].as_u64() {
                        let c = c as usize;
                        cases.push((c / 1000 / MIXES.len(), (c / 1000) % MIXES.len(), c % 1000));
                    }
                }
            }
        }
        only = Some(cases);
    }

    let mut counts: Vec<usize> = (0..=DOC_FD_LIMIT + 1).collect();
    counts.extend([253, 254]);
    let mut first_fail: BTreeMap<String, usize> = BTreeMap::new();
    let mut classes_json = serde_json::Map::new();
    let mut complete = true;
    for class in 0..CLASSES.len() {
        if let Some(o) = &only {
            if !o.iter().any(|c| c.0 == class) {
                continue;
            }
        }
        let pool = match build_pool(class, rep) {
            Ok(p) => p,
            Err(e) => {
                rep.inconclusive(&format!("address class not bindable on this host: {e}"));
                rep.obs(&format!("scm_class_unbindable/{}", CLASSES[class]), 1);
                complete = false;
                continue;
            }
        };
        let lens: Vec<usize> = pool.iter().map(|e| e.addr.to_string().len()).collect();
        classes_json.insert(
            CLASSES[class].to_owned(),
            json!({"bound": pool.len(), "text_len_min": lens.iter().min(), "text_len_max": lens.iter().max(), "first": pool[0].addr.to_string(), "last": pool[pool.len() - 1].addr.to_string()}),
        );
        let mut pool_ids: HashMap<Ident, RawFd> = HashMap::new();
        let mut pool_fds: HashSet<RawFd> = HashSet::new();
        for e in &pool {
            for fd in [e.tcp.as_raw_fd(), e.udp.as_raw_fd()] {
                if let Some(id) = ident(fd) {
                    pool_ids.insert(id, fd);
                }
                pool_fds.insert(fd);
            }
        }
        for mix in 0..MIXES.len() {
            for &n in &counts {
                if let Some(o) = &only {
                    if !o.contains(&(class, mix, n)) {
                        continue;
                    }
                } else if ctx.out_of_time() {
                    complete = false;
                    rep.obs("cases_not_started_budget_exhausted", 1);
                    continue;
                }
                one_case(ctx, rep, class, mix, n, &pool, &pool_ids, &pool_fds, &mut first_fail);
            }
        }
    }
    rep.set("scm_address_classes", Value::Object(classes_json));
    rep.set("scm_first_failing_listener_count(<=200)", json!(first_fail));
    rep.set("scm_sweep", json!({"counts": "0..=201, 253, 254", "classes": CLASSES, "mixes": MIXES, "exhaustive": complete && only.is_none()}));
    if only.is_none() {
        rep.exhaustive = Some(complete);
    }
}
