//! C20 — a configuration file means exactly what it declares, however large.
//!
//! Direct-API lab replaying `load_static_config` (bin/src/command/requests.rs): generated TOML
//! file -> `Config::load_from_path` -> `generate_config_messages()` -> every message dispatched
//! on a fresh `ConfigState` (a dispatch error there means the main process reports it and does
//! *not* forward the message to the workers: the entry is dropped).
//!
//! Oracle: the generator builds an abstract model first (`c20_configfile/model.rs`,
//! `generate.rs`), renders TOML from it, and `check.rs` derives the expected state from the model
//! plus the defaults transcribed from doc/configure.md, doc/health_checks.md and the comments of
//! bin/config.toml. Checks: (1) no message rejected; (2) declared == loaded; (3) loading the file
//! again over the state changes nothing; (4) files violating exactly one documented constraint
//! are rejected at load time; (5) no panic at any size.

#[path = "c20_configfile/check.rs"]
mod check;
#[path = "c20_configfile/generate.rs"]
mod generate;
#[path = "c20_configfile/model.rs"]
mod model;

use std::{
    collections::BTreeSet,
    io::Write as _,
    net::SocketAddr,
    path::{Path, PathBuf},
};

use serde_json::{Value, json};
use sozu_command_lib::{config::Config, proto::command::request::RequestType, state::ConfigState};

use self::{
    check::{Expect, Tally, compare},
    generate::*,
    model::*,
};
use crate::common::{
    Ctx, Report, Rng,
    par::{guard, par_cases_named},
};

const STREAM: u64 = 20;

fn bucket(n: usize) -> &'static str {
    match n {
        0 => "msgs:0",
        1..=15 => "msgs:1-15",
        16..=127 => "msgs:16-127",
        128..=254 => "msgs:128-254",
        255 => "msgs:255",
        256 => "msgs:256",
        257 => "msgs:257",
        258..=1023 => "msgs:258-1023",
        1024..=65_534 => "msgs:1024-65534",
        65_535 => "msgs:65535",
        65_536 => "msgs:65536",
        _ => "msgs:>65536",
    }
}

fn request_name(r: &Option<RequestType>) -> String {
    let s = format!("{r:?}");
    let s = s.trim_start_matches("Some(");
    s.split(|c: char| !c.is_alphanumeric()).next().unwrap_or("?").to_owned()
}

fn error_kind(e: &sozu_command_lib::state::StateError) -> String {
    let s = format!("{e:?}");
    s.split(|c: char| !c.is_alphanumeric()).next().unwrap_or("?").to_owned()
}

struct Run<'a> {
    ctx: &'a Ctx,
    dir: &'a Path,
    label: &'a str,
    case: u64,
}

impl Run<'_> {
    fn thread_dir(&self) -> PathBuf {
        let t = std::thread::current();
        let d = self.dir.join(t.name().unwrap_or("main").replace('/', "_"));
        let _ = std::fs::create_dir_all(&d);
        d
    }

    fn witness(&self, m: &Model, toml: &str, extra: Value) -> Value {
        let mut text = toml.to_owned();
        let truncated = text.len() > 6_000;
        if truncated {
            let mut cut = 6_000;
            while !text.is_char_boundary(cut) {
                cut -= 1;
            }
            text.truncate(cut);
        }
        json!({"case": self.case, "label": self.label, "seed": self.ctx.seed, "tier": self.ctx.tier.name(),
            "toml": text, "toml_truncated": truncated, "toml_bytes": toml.len(),
            "model": {"listeners": m.listeners.len(), "clusters": m.clusters.len(),
                "frontends": m.clusters.iter().map(|c| c.frontends.len()).sum::<usize>(),
                "backends": m.clusters.iter().map(|c| c.backends.len()).sum::<usize>(),
                "predicted_messages": predicted_messages(m)},
            "observed": extra})
    }
}

enum Loaded {
    /// `load_from_path` returned Err
    Rejected(String),
    /// loaded; the state after the first load
    Accepted,
    /// a panic was reported (or the harness broke)
    Aborted,
}

/// write the certificate copies some files reference
fn write_cert_copies(dir: &Path) {
    for (i, c) in cert_pool().iter().enumerate() {
        let _ = std::fs::write(dir.join(format!("c{i}.pem")), &c.cert);
        let _ = std::fs::write(dir.join(format!("k{i}.pem")), &c.key);
        if let Some(ch) = &c.chain {
            let _ = std::fs::write(dir.join(format!("ch{i}.pem")), ch);
        }
    }
}

/// render, write, load, replay on a fresh state, compare, reload. `prefix` namespaces the
/// signatures of constraint-neighbour classes. Returns what the loader said.
fn pipeline(run: &Run, rep: &mut Report, rng: &mut Rng, m: &Model, class: Option<&str>, judge_state: bool) -> (Loaded, String) {
    let mut problems: Vec<(String, String, Value)> = Vec::new();
    let out = pipeline_inner(run, rep, rng, m, judge_state, &mut problems);
    match class {
        None => {
            for (sig, what, extra) in problems {
                rep.violation(&sig, &what, run.witness(m, &out.1, extra));
            }
        }
        Some(class) => {
            // one signature per neighbour class: the follow-up damage of one rejected message
            // (missing cluster, orphan frontends, ...) is the same defect
            if let Some((_, what, _)) = problems.first() {
                let all: Vec<String> = problems.iter().map(|(s, w, _)| format!("{s}: {w}")).collect();
                rep.violation(
                    &format!("neighbour/{class}/partial_configuration"),
                    &format!("the loader accepted a file with '{class}' and the result is a partial configuration: {what} ({} finding(s) in all)", all.len()),
                    run.witness(m, &out.1, json!({"class": class, "findings": all})),
                );
            }
        }
    }
    out
}

fn pipeline_inner(run: &Run, rep: &mut Report, rng: &mut Rng, m: &Model, judge_state: bool, problems: &mut Vec<(String, String, Value)>) -> (Loaded, String) {
    let prefix = "";
    let tdir = run.thread_dir();
    if m.cert_use.iter().any(|u| u.copied) && !tdir.join("c0.pem").exists() {
        write_cert_copies(&tdir);
    }
    let tdir_s = tdir.to_string_lossy().to_string();
    let toml = m.render(rng, &Paths { copy_dir: &tdir_s });
    let path = tdir.join(format!("{}-{}.toml", run.label, run.case));
    if let Err(e) = std::fs::write(&path, &toml) {
        rep.inconclusive(&format!("cannot write the generated file: {e}"));
        return (Loaded::Aborted, toml);
    }
    let path_s = path.to_string_lossy().to_string();
    let predicted = predicted_messages(m);
    rep.obs("files", 1);
    rep.obs_max("file_bytes", toml.len() as u64);

    let sozu_panic = |rep: &mut Report, stage: &str, p: crate::common::par::PanicRec| {
        if p.in_sozu() {
            let sig = if p.location.contains("command/src/config.rs") && p.message.contains("attempt to add with overflow") {
                "panic/generate_config_messages/u8_message_counter_overflow".to_owned()
            } else {
                p.signature()
            };
            rep.obs(&format!("panics_in_sozu.{stage}"), 1);
            rep.violation(
                &format!("{prefix}{sig}"),
                &format!("sozu panicked in {stage}: {} at {} (file with {predicted} expected messages)", p.message, p.location),
                run.witness(m, &toml, json!({"stage": stage, "panic": p.message, "location": p.location})),
            );
        } else {
            rep.broken(&format!("harness panic in {} {} ({stage}): {} at {}", run.label, run.case, p.message, p.location));
        }
    };

    // ---- load
    let config = match guard(|| Config::load_from_path(&path_s)) {
        Err(p) => {
            sozu_panic(rep, "load_from_path", p);
            let _ = std::fs::remove_file(&path);
            return (Loaded::Aborted, toml);
        }
        Ok(Err(e)) => {
            let _ = std::fs::remove_file(&path);
            if let Some(kind) = h2_rule_broken(m) {
                rep.obs(&format!("h2_buffer_rule_rejections.{kind}_listener"), 1);
            }
            return (Loaded::Rejected(e.to_string()), toml);
        }
        Ok(Ok(c)) => c,
    };
    // model rule (doc/configure.md, "Buffer size for HTTP/2"): buffer_size < 16393 with any HTTPS
    // listener offering h2 — declared or created for a frontend on an undeclared address — must
    // be rejected at load
    rep.obs("h2_buffer_rule_judged_on_accepted_files", 1);
    if let Some(kind) = h2_rule_broken(m) {
        let buffer = m.global.get("buffer_size").and_then(|v| v.as_u64()).unwrap_or(0);
        rep.violation(
            &format!("config/accepted_but_invalid/h2_listener_with_small_buffer/{kind}"),
            &format!("buffer_size = {buffer} is below the documented HTTP/2 minimum of 16393 and an HTTPS listener that is {kind} offers h2, yet load_from_path accepted the file (alpn of the loaded HTTPS listeners: {:?})", config.https_listeners.iter().map(|l| (l.address.to_string(), l.alpn_protocols.clone())).take(4).collect::<Vec<_>>()),
            run.witness(m, &toml, json!({"rule": "buffer_size >= 16393 when an HTTPS listener offers h2", "listener": kind, "buffer_size": buffer})),
        );
    }
    rep.obs("files_loaded", 1);
    rep.obs(bucket(predicted), 1);
    if predicted > 255 {
        rep.obs("files_over_255_messages", 1);
    }
    // ---- messages
    let msgs = match guard(|| config.generate_config_messages()) {
        Err(p) => {
            if predicted > 255 {
                rep.obs("files_over_255_messages_masked_by_panic", 1);
            }
            sozu_panic(rep, "generate_config_messages", p);
            let _ = std::fs::remove_file(&path);
            return (Loaded::Accepted, toml);
        }
        Ok(Err(e)) => {
            problems.push((
                format!("{prefix}generate_config_messages/error_on_accepted_file"),
                format!("the loader accepted the file but generate_config_messages failed: {e}"),
                json!({"error": e.to_string()}),
            ));
            let _ = std::fs::remove_file(&path);
            return (Loaded::Accepted, toml);
        }
        Ok(Ok(v)) => v,
    };
    rep.obs("message_lists_generated", 1);
    rep.obs("messages_total", msgs.len() as u64);
    rep.obs_max("messages_in_one_file", msgs.len() as u64);
    if msgs.len() != predicted {
        rep.obs("predicted_message_count_differs", 1);
    }
    if msgs.len() > 255 {
        rep.obs("files_over_255_messages_fully_checked", 1);
    }
    let ids: BTreeSet<&str> = msgs.iter().map(|w| w.id.as_str()).collect();
    if ids.len() != msgs.len() {
        problems.push((
            format!("{prefix}generate_config_messages/duplicate_message_ids"),
            format!("{} messages carry only {} distinct ids", msgs.len(), ids.len()),
            json!({"messages": msgs.len(), "distinct_ids": ids.len()}),
        ));
    }
    // ---- first load on a fresh instance (what load_static_config does)
    let mut st = ConfigState::new();
    let replay = guard(|| {
        let mut rejected: Vec<(String, String, String)> = Vec::new();
        for w in &msgs {
            if let Err(e) = st.dispatch(&w.content) {
                rejected.push((request_name(&w.content.request_type), error_kind(&e), e.to_string()));
            }
        }
        rejected
    });
    let rejected = match replay {
        Err(p) => {
            sozu_panic(rep, "dispatch", p);
            let _ = std::fs::remove_file(&path);
            return (Loaded::Accepted, toml);
        }
        Ok(r) => r,
    };
    rep.obs("messages_dispatched", msgs.len() as u64);
    let mut seen = BTreeSet::new();
    for (req, kind, text) in &rejected {
        rep.obs("messages_rejected_by_fresh_instance", 1);
        if seen.insert((req.clone(), kind.clone())) {
            problems.push((
                format!("{prefix}dispatch_rejected/{req}/{kind}"),
                format!("the loader accepted the file but a fresh instance rejects its {req} message ({text}); load_static_config then skips the message: the entry never reaches the workers"),
                json!({"rejected": rejected.len(), "first": text}),
            ));
        }
    }
    // ---- declared == loaded
    if judge_state {
        let mut t = Tally::default();
        compare(&Expect { model: m }, &st, &mut t);
        for (k, n) in &t.counts {
            rep.obs(k, *n);
        }
        rep.obs("states_compared_with_model", 1);
        let mut seen = BTreeSet::new();
        for f in &t.findings {
            if seen.insert(f.sig.clone()) {
                problems.push((format!("{prefix}{}", f.sig), f.what.clone(), json!({"findings": t.findings.iter().take(8).map(|f| format!("{}: {}", f.sig, f.what)).collect::<Vec<_>>()})));
            }
        }
    }
    // ---- load the same file again over the state it produced
    let second = guard(|| -> Result<(ConfigState, usize), String> {
        let c2 = Config::load_from_path(&path_s).map_err(|e| e.to_string())?;
        let m2 = c2.generate_config_messages().map_err(|e| e.to_string())?;
        let mut s2 = st.clone();
        let mut errs = 0;
        for w in &m2 {
            if s2.dispatch(&w.content).is_err() {
                errs += 1;
            }
        }
        Ok((s2, errs))
    });
    match second {
        Err(p) => sozu_panic(rep, "reload", p),
        Ok(Err(e)) => problems.push((
            format!("{prefix}reload/second_load_fails"),
            format!("the same file loaded a second time is refused: {e}"),
            json!({"error": e}),
        )),
        Ok(Ok((mut s2, errs))) => {
            rep.obs("idempotence_checks", 1);
            rep.obs("reload_messages_answered_with_error_state_unchanged_is_fine", errs as u64);
            let mut s1 = st.clone();
            s1.request_counts.clear();
            s2.request_counts.clear();
            let diff = s1.diff(&s2);
            if s1 != s2 || !diff.is_empty() {
                let parts = [
                    ("clusters", s1.clusters != s2.clusters),
                    ("backends", s1.backends != s2.backends),
                    ("http_listeners", s1.http_listeners != s2.http_listeners),
                    ("https_listeners", s1.https_listeners != s2.https_listeners),
                    ("tcp_listeners", s1.tcp_listeners != s2.tcp_listeners),
                    ("udp_listeners", s1.udp_listeners != s2.udp_listeners),
                    ("http_fronts", s1.http_fronts != s2.http_fronts),
                    ("https_fronts", s1.https_fronts != s2.https_fronts),
                    ("tcp_fronts", s1.tcp_fronts != s2.tcp_fronts),
                    ("udp_fronts", s1.udp_fronts != s2.udp_fronts),
                    ("certificates", s1.certificates != s2.certificates),
                ];
                let changed: Vec<&str> = parts.iter().filter(|(_, c)| *c).map(|(n, _)| *n).collect();
                let what = if changed.is_empty() { "diff_not_empty".to_owned() } else { changed.join("+") };
                problems.push((
                    format!("{prefix}reload/state_changed/{what}"),
                    format!("loading the same file again over the state it produced changed {what}; diff(first, second) has {} request(s)", diff.len()),
                    json!({"changed": changed, "diff_requests": diff.iter().take(5).map(|r| request_name(&r.request_type)).collect::<Vec<_>>()}),
                ));
            }
        }
    }
    let _ = std::fs::remove_file(&path);
    (Loaded::Accepted, toml)
}

fn shape(m: &Model, extra: &[u8]) -> Vec<u8> {
    let lg = |n: usize| (usize::BITS - n.leading_zeros()) as u8;
    let mut s = vec![lg(m.listeners.len()), lg(m.clusters.len()), lg(m.clusters.iter().map(|c| c.frontends.len()).sum()), lg(m.clusters.iter().map(|c| c.backends.len()).sum()), lg(predicted_messages(m))];
    let mut protos = 0u8;
    for l in &m.listeners {
        protos |= 1 << (l.proto as u8);
    }
    s.push(protos);
    s.push(m.global.len() as u8);
    s.push(m.listeners.iter().map(|l| l.opts.len()).sum::<usize>().min(255) as u8);
    s.push(m.clusters.iter().map(|c| c.opts.len()).sum::<usize>().min(255) as u8);
    s.extend_from_slice(extra);
    s
}

// ---------------------------------------------------------------------------------------------
// workload 1: valid files

fn valid_case(run: &Run, rep: &mut Report) {
    let mut rng = Rng::for_case(run.ctx.seed, STREAM, run.case);
    let thorough = run.ctx.tier.pick(false, true);
    let density = match rng.below(6) {
        0 => 0,
        1 => 100,
        _ => 10 + rng.below(80),
    };
    let class = rng.below(100);
    let big = if thorough { 10 } else { 1 };
    let (sz, target): (Sizes, Option<usize>) = match class {
        0..=9 => (Sizes { listeners: rng.usize_below(3), clusters: rng.usize_below(3), max_fronts: 2, max_backends: 2, density, implicit: true }, None),
        10..=49 => (Sizes { listeners: 1 + rng.usize_below(6), clusters: rng.usize_below(7), max_fronts: 4, max_backends: 4, density, implicit: true }, None),
        50..=74 => {
            let t = 253 + rng.usize_below(7);
            (Sizes { listeners: 2 + rng.usize_below(30), clusters: 1 + rng.usize_below(20), max_fronts: 5, max_backends: 5, density: density.min(60), implicit: true }, Some(t))
        }
        75..=92 => (Sizes { listeners: rng.usize_below(200 * big), clusters: rng.usize_below(150 * big), max_fronts: 1 + rng.usize_below(20), max_backends: 1 + rng.usize_below(20), density: density.min(50), implicit: true }, None),
        _ => match rng.below(3) {
            0 => (Sizes { listeners: 300 * big + rng.usize_below(300 * big), clusters: 2, max_fronts: 3, max_backends: 3, density: density.min(40), implicit: true }, None),
            1 => (Sizes { listeners: 4, clusters: 1 + rng.usize_below(3), max_fronts: 500 * big, max_backends: 3, density: density.min(40), implicit: true }, None),
            _ => (Sizes { listeners: 2, clusters: 1 + rng.usize_below(3), max_fronts: 2, max_backends: 800 * big.min(3), density: density.min(40), implicit: true }, None),
        },
    };
    let mut m = valid_model(&mut rng, sz);
    let mut target = target;
    if thorough && class >= 99 && run.case % 20 == 0 {
        target = Some(65_533 + rng.usize_below(6));
    }
    if let Some(t) = target {
        bulk_towards(&mut rng, &mut m, t);
        steer_to(&mut rng, &mut m, t);
    }
    let (loaded, toml) = pipeline(run, rep, &mut rng, &m, None, true);
    match loaded {
        Loaded::Rejected(e) => {
            // the generator only emits documented grammar: a refusal is reported, but as its own
            // class (the statement quantifies over accepted files; a refused valid file is not a
            // refutation of it) — counted, sampled, never a violation
            rep.obs("valid_files_refused_by_loader", 1);
            rep.sample(json!({"case": run.case, "label": run.label, "refused_valid_file": e, "toml_head": toml.chars().take(1500).collect::<String>()}));
        }
        Loaded::Accepted => rep.obs("valid_files_accepted", 1),
        Loaded::Aborted => {}
    }
    rep.case_bytes(&shape(&m, &[0]), !m.listeners.is_empty() && !m.clusters.is_empty());
    if run.case < 2 {
        rep.sample(json!({"case": run.case, "label": run.label, "toml": toml.chars().take(3000).collect::<String>()}));
    }
}

/// cheap coarse growth (backends in one cluster) so that steering stays linear for big targets
fn bulk_towards(rng: &mut Rng, m: &mut Model, target: usize) {
    let p = predicted_messages(m);
    if p + 64 >= target {
        return;
    }
    let mut todo = target - p - 48;
    // spread over many clusters: sozu's add_backend re-sorts the cluster's backend list on every
    // add, a single cluster with 65 000 backends costs minutes without telling anything new
    let spread = if todo > 2_000 { 96 } else { 1 };
    let first = m.clusters.len();
    for k in 0..spread {
        if todo > 1 {
            m.clusters.push(Cluster::new(format!("bulk{k}"), k % 2 == 0));
            todo -= 1;
        }
    }
    if m.clusters.is_empty() {
        return;
    }
    let n = m.clusters.len() - first.min(m.clusters.len() - 1);
    let mut g = Gen::new(rng, 20);
    for i in 0..todo {
        let ci = m.clusters.len() - 1 - (i % n);
        let b = g.backend(None);
        m.clusters[ci].backends.push(b);
    }
}

// ---------------------------------------------------------------------------------------------
// workload 2: exhaustive sweep of the total message count across the 8-bit and 16-bit boundaries

fn sweep_model(rng: &mut Rng, total: usize, shape: u64) -> Model {
    let mut m = Model::default();
    for _ in 0..CERT_FILES.len() {
        m.cert_use.push(CertUse::default());
    }
    let mut g = Gen::new(rng, 0);
    match shape {
        0 => {
            // backends only: one cluster (64 clusters for the 16-bit boundary: sozu re-sorts a
            // cluster's backend list on every add), k + (total - k) messages
            let k = if total > 2_000 { 64 } else { 1.min(total) };
            for i in 0..k {
                m.clusters.push(Cluster::new(format!("only{i}"), i % 2 == 0));
            }
            for i in 0..total - k {
                let b = g.backend(None);
                m.clusters[i % k].backends.push(b);
            }
        }
        1 => {
            // listeners only, activated: 2 per listener (+1 metrics message when odd)
            for _ in 0..total / 2 {
                let a = g.addr();
                let p = *g.rng.pick(&[LProto::Http, LProto::Tcp, LProto::Udp, LProto::Https]);
                let l = g.listener(p, a, true);
                m.listeners.push(l);
            }
            if total % 2 == 1 {
                m.global.insert("disable_cluster_metrics", Tv::B(true));
            }
        }
        _ => {
            // one HTTP listener (not activated), one cluster, frontends only: 2 + (total - 2)
            m.global.insert("activate_listeners", Tv::B(false));
            let a = g.addr();
            let l = g.listener(LProto::Http, a, true);
            let mut c = Cluster::new("fronts".to_owned(), true);
            let mut keys = BTreeSet::new();
            if total >= 2 {
                for _ in 0..total - 2 {
                    let f = g.http_frontend(&l, &mut keys);
                    c.frontends.push(f);
                }
                m.listeners.push(l);
                m.clusters.push(c);
            } else if total == 1 {
                m.listeners.push(l);
            }
        }
    }
    m
}

fn sweep_points(ctx: &Ctx) -> Vec<(usize, u64)> {
    let mut v = Vec::new();
    for t in 240..=272 {
        for s in 0..3 {
            v.push((t, s));
        }
    }
    for t in [0usize, 1, 2, 3, 127, 128, 129, 511, 512, 513, 1023, 1024, 1025] {
        for s in 0..3 {
            v.push((t, s));
        }
    }
    if ctx.tier.pick(false, true) {
        for t in 65_530..=65_541 {
            for s in 0..3 {
                v.push((t, s));
            }
        }
    }
    v
}

fn sweep_case(run: &Run, rep: &mut Report) {
    let pts = sweep_points(run.ctx);
    let Some(&(total, shp)) = pts.get(run.case as usize) else { return };
    let mut rng = Rng::for_case(run.ctx.seed, STREAM + 1, run.case);
    let m = sweep_model(&mut rng, total, shp);
    let p = predicted_messages(&m);
    rep.obs(&format!("sweep_shape_{shp}"), 1);
    if p != total {
        rep.obs("sweep_point_off_target", 1);
    }
    let before = rep.observed.get("message_lists_generated").copied().unwrap_or(0);
    let (loaded, _) = pipeline(run, rep, &mut rng, &m, None, true);
    let generated = rep.observed.get("message_lists_generated").copied().unwrap_or(0) > before;
    if (250..=260).contains(&total) || total >= 65_530 {
        rep.obs(&format!("sweep_result.{total}.{}", if generated { "messages_generated" } else { "no_message_list" }), 1);
    }
    if let Loaded::Rejected(e) = loaded {
        rep.obs("valid_files_refused_by_loader", 1);
        rep.sample(json!({"case": run.case, "label": run.label, "refused_valid_file": e}));
    }
    rep.case_bytes(&shape(&m, &[1, shp as u8]), total > 0);
}

// ---------------------------------------------------------------------------------------------
// workload 3: constraint neighbours — a valid model with exactly one constraint violated

#[derive(Clone, Copy, PartialEq, Eq, Debug)]
enum Demand {
    /// the documentation (or a load-time error message of config.rs) states the constraint: the
    /// loader must return Err
    MustErr,
    /// the constraint is not documented as a load error: Err is fine, acceptance is fine when
    /// the resulting configuration is complete (all messages accepted, declared == loaded)
    ErrOrComplete,
}

const CLASSES: &[(&str, Demand)] = &[
    ("unknown_listener_protocol", Demand::MustErr),
    ("unknown_cluster_protocol", Demand::MustErr),
    ("h2_listener_buffer_size_too_small", Demand::MustErr),
    ("h2_default_alpn_buffer_size_too_small", Demand::MustErr),
    ("hsts_on_http_listener", Demand::MustErr),
    ("hsts_on_http_frontend", Demand::MustErr),
    ("hsts_without_enabled_listener", Demand::MustErr),
    ("hsts_without_enabled_frontend", Demand::MustErr),
    ("duplicate_listener_address", Demand::MustErr),
    ("invalid_alpn_protocol", Demand::MustErr),
    ("https_frontend_without_certificate", Demand::MustErr),
    ("certificate_on_http_listener_frontend", Demand::MustErr),
    ("http_frontend_on_tcp_listener", Demand::MustErr),
    ("http_frontend_on_udp_listener", Demand::MustErr),
    ("tcp_frontend_on_http_listener", Demand::MustErr),
    ("tcp_frontend_with_hostname", Demand::MustErr),
    ("tcp_frontend_with_path", Demand::MustErr),
    ("tcp_frontend_with_certificate", Demand::MustErr),
    ("http_frontend_without_hostname", Demand::MustErr),
    ("listener_without_protocol", Demand::MustErr),
    ("public_address_with_expect_proxy", Demand::MustErr),
    ("tcp_cluster_mixed_expect_proxy", Demand::MustErr),
    ("disable_http11_with_http11_alpn", Demand::MustErr),
    ("udp_listener_expect_proxy", Demand::MustErr),
    ("invalid_sozu_id_header", Demand::MustErr),
    ("invalid_redirect_policy", Demand::MustErr),
    ("invalid_redirect_scheme", Demand::MustErr),
    ("invalid_header_position", Demand::MustErr),
    ("header_value_with_crlf", Demand::MustErr),
    ("automatic_state_save_without_saved_state", Demand::MustErr),
    ("frontend_certificate_file_missing", Demand::MustErr),
    ("listener_answer_file_missing", Demand::MustErr),
    // listener-level validation rules applied to listeners that exist only implicitly
    ("implicit_h2_listener_buffer_size_too_small", Demand::MustErr),
    ("implicit_listener_protocol_conflict", Demand::MustErr),
    ("hsts_on_frontend_of_implicit_http_listener", Demand::MustErr),
    ("frontend_without_listener_http", Demand::ErrOrComplete),
    ("frontend_without_listener_https", Demand::ErrOrComplete),
    ("frontend_without_listener_tcp", Demand::ErrOrComplete),
    ("health_check_uri_without_slash", Demand::ErrOrComplete),
    ("health_check_zero_interval", Demand::ErrOrComplete),
    ("duplicate_route_two_clusters", Demand::ErrOrComplete),
    ("duplicate_route_same_cluster", Demand::ErrOrComplete),
    ("hsts_on_https_frontend_using_listener_certificate", Demand::ErrOrComplete),
    ("listener_certificate_file_missing", Demand::ErrOrComplete),
    ("cluster_answer_503_file_missing", Demand::ErrOrComplete),
];

/// a small valid base that has one listener of every protocol (HTTPS without default
/// certificate), one HTTP cluster with a frontend on the HTTP and on the HTTPS listener, one TCP
/// cluster on the TCP listener, one on the UDP listener
fn base_model(rng: &mut Rng) -> Model {
    let density = *rng.pick(&[0u64, 20, 50]);
    let mut m = valid_model(rng, Sizes { listeners: 0, clusters: 0, max_fronts: 0, max_backends: 0, density, implicit: false });
    m.global.remove("buffer_size");
    let mut g = Gen::new(rng, density);
    for p in [LProto::Http, LProto::Https, LProto::Tcp, LProto::Udp] {
        let a = g.addr();
        let mut l = g.listener(p, a, true);
        l.cert = None;
        l.hsts = None;
        l.opts.remove("expect_proxy");
        l.opts.remove("disable_http11");
        m.listeners.push(l);
    }
    let mut keys = BTreeSet::new();
    let mut web = Cluster::new("web".to_owned(), true);
    for li in [0usize, 1] {
        let mut f = g.http_frontend(&m.listeners[li], &mut keys);
        f.hsts = None;
        web.frontends.push(f);
    }
    let b = g.backend(None);
    web.backends.push(b);
    let mut raw = Cluster::new("raw".to_owned(), false);
    raw.frontends.push(Frontend::new(m.listeners[2].addr));
    let b = g.backend(None);
    raw.backends.push(b);
    let mut dns = Cluster::new("dns".to_owned(), false);
    dns.frontends.push(Frontend::new(m.listeners[3].addr));
    let b = g.backend(None);
    dns.backends.push(b);
    m.clusters = vec![web, raw, dns];
    m
}

/// Apply the violation of `class` to the base model. `v` enumerates the places the constraint
/// applies to (each listener protocol, each cluster protocol — http, tcp, tcp fronting a UDP
/// listener —, the HTTP and the HTTPS frontend): consecutive cases of one class walk through
/// all of them. Returns a label naming the place, for the evidence.
fn mutate(rng: &mut Rng, class: &str, v: usize, m: &mut Model) -> String {
    let spare: SocketAddr = "127.200.0.1:4999".parse().unwrap();
    const LNAME: [&str; 4] = ["http_listener", "https_listener", "tcp_listener", "udp_listener"];
    const CNAME: [&str; 3] = ["http_cluster", "tcp_cluster", "udp_cluster"];
    const FNAME: [&str; 2] = ["http_frontend", "https_frontend"];
    let mut label = String::new();
    match class {
        "unknown_listener_protocol" => {
            let i = v % 4;
            label = LNAME[i].to_owned();
            m.listeners[i].proto_text = Some((*rng.pick(&["quic", "HTTP", "h2", "ftp", ""])).to_owned());
        }
        "unknown_cluster_protocol" => {
            let i = v % 3;
            label = CNAME[i].to_owned();
            m.clusters[i].proto_text = (*rng.pick(&["https", "udp", "HTTP", "grpc"])).to_owned();
        }
        "h2_listener_buffer_size_too_small" => {
            m.listeners[1].opts.insert("alpn_protocols", Tv::L(rng.pick(&[vec!["h2".to_owned()], vec!["h2".to_owned(), "http/1.1".to_owned()], vec!["http/1.1".to_owned(), "h2".to_owned()]]).clone()));
            m.global.insert("buffer_size", Tv::I(*rng.pick(&[16_392u64, 16_384, 8_192, 1, 0])));
        }
        "h2_default_alpn_buffer_size_too_small" => {
            m.listeners[1].opts.remove("alpn_protocols");
            m.global.insert("buffer_size", Tv::I(*rng.pick(&[16_392u64, 16_384, 4_096])));
        }
        "hsts_on_http_listener" => {
            m.listeners[0].hsts = Some(Hsts { enabled: Some(true), ..Default::default() });
            m.listeners[0].hsts_syntax = if v % 2 == 0 { Syntax::Table } else { Syntax::Inline };
        }
        "hsts_on_http_frontend" => {
            m.clusters[0].frontends[0].hsts = Some(Hsts { enabled: Some(true), max_age: Some(31_536_000), ..Default::default() });
            m.clusters[0].fronts_inline = v % 2 == 0;
        }
        "hsts_without_enabled_listener" => {
            m.listeners[1].hsts = Some(Hsts { max_age: Some(31_536_000), include_subdomains: Some(true), ..Default::default() });
            m.listeners[1].hsts_syntax = if v % 2 == 0 { Syntax::Table } else { Syntax::Inline };
        }
        "hsts_without_enabled_frontend" => {
            m.clusters[0].frontends[1].cert = Some(0);
            m.clusters[0].frontends[1].hsts = Some(Hsts { max_age: Some(600), ..Default::default() });
            m.clusters[0].fronts_inline = v % 2 == 0;
        }
        "duplicate_listener_address" => {
            // every (protocol of the first, protocol of the second) pair
            let (i, j) = (v % 4, (v / 4) % 4);
            label = format!("{}_then_{}", LNAME[i], LNAME[j]);
            let mut l = m.listeners[j].clone();
            l.addr = m.listeners[i].addr;
            m.listeners.push(l);
        }
        "invalid_alpn_protocol" => {
            m.listeners[1].opts.insert("alpn_protocols", Tv::L(rng.pick(&[vec!["h3".to_owned()], vec!["h2".to_owned(), "spdy/3".to_owned()], vec!["HTTP/1.1".to_owned()]]).clone()));
        }
        "https_frontend_without_certificate" => {
            m.clusters[0].frontends[1].cert = None;
        }
        "certificate_on_http_listener_frontend" => {
            m.clusters[0].frontends[0].cert = Some(rng.usize_below(CERT_FILES.len()));
        }
        "http_frontend_on_tcp_listener" | "http_frontend_on_udp_listener" => {
            let fi = v % 2;
            label = FNAME[fi].to_owned();
            m.clusters[0].frontends[fi].addr = m.listeners[if class.ends_with("tcp_listener") { 2 } else { 3 }].addr;
        }
        "tcp_frontend_on_http_listener" => {
            let (ci, li) = (1 + v % 2, (v / 2) % 2);
            label = format!("{}_on_{}", CNAME[ci], LNAME[li]);
            m.clusters[ci].frontends[0].addr = m.listeners[li].addr;
        }
        "tcp_frontend_with_hostname" | "tcp_frontend_with_path" | "tcp_frontend_with_certificate" => {
            let ci = 1 + v % 2;
            label = CNAME[ci].to_owned();
            let f = &mut m.clusters[ci].frontends[0];
            match class {
                "tcp_frontend_with_hostname" => f.hostname = Some("x.example.com".to_owned()),
                "tcp_frontend_with_path" => f.path = Some("/api".to_owned()),
                _ => f.cert = Some(0),
            }
        }
        "http_frontend_without_hostname" => {
            let fi = v % 2;
            label = FNAME[fi].to_owned();
            m.clusters[0].frontends[fi].hostname = None;
        }
        "listener_without_protocol" => {
            let i = v % 4;
            label = LNAME[i].to_owned();
            m.listeners[i].proto_text = None;
        }
        "public_address_with_expect_proxy" => {
            let i = v % 3;
            label = LNAME[i].to_owned();
            m.listeners[i].opts.insert("public_address", Tv::S("203.0.113.7:80".to_owned()));
            m.listeners[i].opts.insert("expect_proxy", Tv::B(true));
        }
        "tcp_cluster_mixed_expect_proxy" => {
            let mut l = Listener::new(LProto::Tcp, spare);
            l.opts.insert("expect_proxy", Tv::B(true));
            m.listeners.push(l);
            m.clusters[1].frontends.push(Frontend::new(spare));
            if v % 2 == 1 {
                m.clusters[1].frontends.swap(0, 1);
            }
        }
        "disable_http11_with_http11_alpn" => {
            m.listeners[1].opts.insert("disable_http11", Tv::B(true));
            if v % 2 == 0 {
                m.listeners[1].opts.insert("alpn_protocols", Tv::L(vec!["h2".to_owned(), "http/1.1".to_owned()]));
            } else {
                m.listeners[1].opts.remove("alpn_protocols");
            }
        }
        "udp_listener_expect_proxy" => {
            m.listeners[3].opts.remove("public_address");
            m.listeners[3].opts.insert("expect_proxy", Tv::B(true));
        }
        "invalid_sozu_id_header" => {
            let i = v % 2;
            label = LNAME[i].to_owned();
            let bad = ["a b", "", "X:Id", "X-Id\r\nEvil: 1"];
            m.listeners[i].opts.insert("sozu_id_header", Tv::S(bad[(v / 2) % bad.len()].to_owned()));
        }
        "invalid_redirect_policy" | "invalid_redirect_scheme" | "invalid_header_position" | "header_value_with_crlf" => {
            let fi = v % 2;
            label = FNAME[fi].to_owned();
            let f = &mut m.clusters[0].frontends[fi];
            match class {
                "invalid_redirect_policy" => {
                    f.opts.insert("redirect", Tv::S("teapot".to_owned()));
                }
                "invalid_redirect_scheme" => {
                    f.opts.insert("redirect_scheme", Tv::S("use-gopher".to_owned()));
                }
                "invalid_header_position" => f.headers = vec![("sideways".to_owned(), "X-A".to_owned(), "b".to_owned())],
                _ => f.headers = vec![("request".to_owned(), "X-A".to_owned(), "b\r\nEvil: 1".to_owned())],
            }
            m.clusters[0].fronts_inline = (v / 2) % 2 == 0;
        }
        "automatic_state_save_without_saved_state" => {
            m.global.insert("automatic_state_save", Tv::B(true));
        }
        "frontend_certificate_file_missing" => {
            m.clusters[0].frontends[1].cert = None;
            m.clusters[0].frontends[1].opts.insert("certificate", Tv::S("/nonexistent/c20/cert.pem".to_owned()));
            m.clusters[0].frontends[1].opts.insert("key", Tv::S(CERT_FILES[0].1.to_owned()));
        }
        "listener_answer_file_missing" => {
            let i = v % 2;
            label = LNAME[i].to_owned();
            m.listeners[i].legacy_answers = vec![(404, "/nonexistent/c20/404.http".to_owned(), String::new())];
        }
        "implicit_h2_listener_buffer_size_too_small" => {
            // the only h2-capable HTTPS listener is the default one created for a frontend with
            // certificate on an undeclared address; the declared HTTPS listener is removed, or
            // opts out of h2, or the whole file declares no listener at all
            let sizes = [16_392u64, 8_192, 16_384, 4_096, 1];
            m.global.insert("buffer_size", Tv::I(sizes[v % sizes.len()]));
            let how = (v / sizes.len()) % 3;
            label = ["declared_https_without_h2", "no_declared_https", "no_declared_listener"][how].to_owned();
            m.clusters[0].frontends[1].cert = Some(rng.usize_below(CERT_FILES.len()));
            match how {
                0 => {
                    m.listeners[1].opts.insert("alpn_protocols", Tv::L(vec!["http/1.1".to_owned()]));
                    m.listeners[1].opts.remove("disable_http11");
                    let mut f = m.clusters[0].frontends[1].clone();
                    f.addr = spare;
                    f.hostname = Some("implicit.example.com".to_owned());
                    m.clusters[0].frontends.push(f);
                }
                1 => {
                    m.listeners.remove(1);
                }
                _ => {
                    m.listeners.clear();
                    m.clusters.truncate(1);
                    m.clusters[0].frontends.remove(0);
                }
            }
            m.clusters[0].fronts_inline = (v / 15) % 2 == 0;
        }
        "implicit_listener_protocol_conflict" => {
            // two frontends of different protocols on one undeclared address: whichever creates
            // the default listener, the other one breaks the frontend/listener pairing rule
            let k = v % 3;
            label = ["http_and_tcp", "https_and_tcp", "http_and_https"][k].to_owned();
            match k {
                0 => {
                    m.clusters[0].frontends[0].addr = spare;
                    m.clusters[1].frontends[0].addr = spare;
                }
                1 => {
                    m.clusters[0].frontends[1].addr = spare;
                    m.clusters[0].frontends[1].cert = Some(0);
                    m.clusters[1].frontends[0].addr = spare;
                }
                _ => {
                    m.clusters[0].frontends[0].addr = spare;
                    m.clusters[0].frontends[1].addr = spare;
                    m.clusters[0].frontends[1].cert = Some(0);
                }
            }
        }
        "hsts_on_frontend_of_implicit_http_listener" => {
            m.clusters[0].frontends[0].addr = spare;
            m.clusters[0].frontends[0].hsts = Some(Hsts { enabled: Some(true), max_age: Some(31_536_000), ..Default::default() });
            m.clusters[0].fronts_inline = v % 2 == 0;
        }
        "frontend_without_listener_http" => {
            m.clusters[0].frontends[0].addr = spare;
        }
        "frontend_without_listener_https" => {
            m.clusters[0].frontends[1].addr = spare;
            m.clusters[0].frontends[1].cert = Some(rng.usize_below(CERT_FILES.len()));
        }
        "frontend_without_listener_tcp" => {
            let ci = 1 + v % 2;
            label = CNAME[ci].to_owned();
            m.clusters[ci].frontends[0].addr = spare;
        }
        "health_check_uri_without_slash" => {
            // a health_check block is cluster-level grammar: every cluster protocol
            let ci = v % 3;
            label = CNAME[ci].to_owned();
            let uri = ["health", "", "healthz/ready", "http://x/health"][(v / 3) % 4];
            m.clusters[ci].health_check = Some((uri.to_owned(), Opts::new()));
            m.clusters[ci].sub_inline = (v / 12) % 2 == 0;
        }
        "health_check_zero_interval" => {
            let ci = v % 3;
            label = CNAME[ci].to_owned();
            let mut o = Opts::new();
            o.insert(["interval", "timeout", "healthy_threshold", "unhealthy_threshold"][(v / 3) % 4], Tv::I(0));
            m.clusters[ci].health_check = Some(("/health".to_owned(), o));
            m.clusters[ci].sub_inline = (v / 12) % 2 == 0;
        }
        "duplicate_route_two_clusters" => {
            // the same frontend declared by a second cluster of the same protocol
            let k = v % 4;
            label = ["http_frontend", "https_frontend", "tcp_frontend", "udp_frontend"][k].to_owned();
            let (src, fi, http) = match k {
                0 => (0, 0, true),
                1 => (0, 1, true),
                2 => (1, 0, false),
                _ => (2, 0, false),
            };
            let mut c = Cluster::new("second".to_owned(), http);
            c.frontends.push(m.clusters[src].frontends[fi].clone());
            m.clusters.push(c);
        }
        "duplicate_route_same_cluster" => {
            let k = v % 4;
            label = ["http_frontend", "https_frontend", "tcp_frontend", "udp_frontend"][k].to_owned();
            let (ci, fi) = match k {
                0 => (0, 0),
                1 => (0, 1),
                2 => (1, 0),
                _ => (2, 0),
            };
            let mut f = m.clusters[ci].frontends[fi].clone();
            if k < 2 {
                f.position = Some(rng.below(3) as u8);
            }
            m.clusters[ci].frontends.push(f);
        }
        "hsts_on_https_frontend_using_listener_certificate" => {
            m.listeners[1].cert = Some(1);
            m.clusters[0].frontends[1].cert = None;
            m.clusters[0].frontends[1].hsts = Some(Hsts { enabled: Some(true), ..Default::default() });
        }
        "listener_certificate_file_missing" => {
            m.listeners[1].cert = Some(0);
            m.listeners[1].cert_path_override = Some("/nonexistent/c20/default.pem".to_owned());
            m.clusters[0].frontends[1].cert = Some(2);
        }
        "cluster_answer_503_file_missing" => {
            m.clusters[0].answer_503 = Some(("/nonexistent/c20/503.http".to_owned(), String::new()));
        }
        _ => {}
    }
    if label.is_empty() {
        label = "only".to_owned();
    }
    label
}

fn neighbour_case(run: &Run, rep: &mut Report) {
    let mut rng = Rng::for_case(run.ctx.seed, STREAM + 2, run.case);
    let (class, demand) = CLASSES[(run.case as usize) % CLASSES.len()];
    let mut m = base_model(&mut rng);
    // the unmodified base must load: checked on a share of the cases so that a rejection below
    // is attributable to the violated constraint
    if run.case % 7 == 0 {
        let (l, toml) = pipeline(run, rep, &mut rng.clone(), &m, None, true);
        match l {
            Loaded::Accepted => rep.obs("neighbour_base_accepted", 1),
            Loaded::Rejected(e) => {
                rep.broken(&format!("neighbour base model refused by the loader ({e}); first lines: {}", toml.chars().take(300).collect::<String>()));
            }
            Loaded::Aborted => {}
        }
    }
    let variant = run.case as usize / CLASSES.len();
    let place = mutate(&mut rng, class, variant, &mut m);
    rep.obs(&format!("neighbour_tried.{class}"), 1);
    rep.obs(&format!("neighbour_place.{class}.{place}"), 1);
    let judge = demand == Demand::ErrOrComplete && !class.ends_with("_file_missing");
    let (loaded, toml) = pipeline(run, rep, &mut rng, &m, Some(class), judge);
    match (&loaded, demand) {
        (Loaded::Rejected(e), _) => {
            rep.obs(&format!("neighbour_rejected.{class}"), 1);
            rep.obs("neighbours_rejected_at_load", 1);
            if run.case < CLASSES.len() as u64 {
                rep.sample(json!({"neighbour": class, "load_error": e}));
            }
        }
        (Loaded::Accepted, Demand::MustErr) => {
            rep.obs(&format!("neighbour_accepted.{class}"), 1);
            if h2_rule_broken(&m).is_some() {
                // reported by the pipeline under config/accepted_but_invalid/h2_listener_with_small_buffer/*
            } else {
            rep.violation(
                &format!("constraint_accepted/{class}"),
                &format!("a file violating the documented constraint '{class}' was accepted by load_from_path instead of being rejected at load time"),
                run.witness(&m, &toml, json!({"class": class})),
            );
            }
        }
        (Loaded::Accepted, Demand::ErrOrComplete) => {
            rep.obs(&format!("neighbour_accepted.{class}"), 1);
            rep.obs("exempt.neighbour_accepted_not_documented_as_error", 1);
            if class.ends_with("_file_missing") {
                // the loader logs an error ("cannot load certificate at path ...") and goes on
                // without the item: not silent, and not documented as fatal — not judged
                rep.obs("exempt.unreadable_file_logged_and_skipped", 1);
            }
        }
        (Loaded::Aborted, _) => {}
    }
    rep.case_bytes(&shape(&m, &[2, (run.case as usize % CLASSES.len()) as u8]), true);
}

// ---------------------------------------------------------------------------------------------

struct Silence {
    saved: i32,
}

impl Silence {
    /// sozu prints the whole file to stdout on a TOML error (`display_toml_error`): keep the
    /// check's own output readable
    fn new() -> Silence {
        let _ = std::io::stdout().flush();
        unsafe {
            let saved = libc::dup(1);
            let null = libc::open(c"/dev/null".as_ptr(), libc::O_WRONLY);
            if saved >= 0 && null >= 0 {
                libc::dup2(null, 1);
                libc::close(null);
            }
            Silence { saved }
        }
    }
}

impl Drop for Silence {
    fn drop(&mut self) {
        let _ = std::io::stdout().flush();
        unsafe {
            if self.saved >= 0 {
                libc::dup2(self.saved, 1);
                libc::close(self.saved);
            }
        }
    }
}

fn run_label(ctx: &Ctx, dir: &Path, label: &str, case: u64, rep: &mut Report) {
    let run = Run { ctx, dir, label, case };
    let t0 = std::time::Instant::now();
    match label {
        "sweep" => sweep_case(&run, rep),
        "neighbour" => neighbour_case(&run, rep),
        _ => valid_case(&run, rep),
    }
    let ms = t0.elapsed().as_millis() as u64;
    rep.obs_max(&format!("case_ms.{label}"), ms);
    rep.obs(&format!("case_ms_total.{label}"), ms);
}

fn probe(path: &str, rep: &mut Report) {
    rep.case(0, true);
    let r = guard(|| -> Result<String, String> {
        let c = Config::load_from_path(path).map_err(|e| format!("load_from_path: Err({e})"))?;
        let msgs = c.generate_config_messages().map_err(|e| format!("generate_config_messages: Err({e})"))?;
        let mut st = ConfigState::new();
        let mut out = format!("loaded; {} messages\n", msgs.len());
        for w in &msgs {
            if let Err(e) = st.dispatch(&w.content) {
                out.push_str(&format!("  {} {} REJECTED: {e}\n", w.id, request_name(&w.content.request_type)));
            }
        }
        out.push_str(&format!(
            "state: {} http / {} https / {} tcp / {} udp listeners, {} clusters, {} http + {} https fronts, {} backends, {} certificates\n",
            st.http_listeners.len(), st.https_listeners.len(), st.tcp_listeners.len(), st.udp_listeners.len(), st.clusters.len(),
            st.http_fronts.len(), st.https_fronts.len(), st.backends.values().map(|v| v.len()).sum::<usize>(), st.certificates.values().map(|v| v.len()).sum::<usize>()
        ));
        for (a, l) in &st.https_listeners {
            out.push_str(&format!("  https listener {a}: hsts = {:?}, sozu_id_header = {:?}\n", l.hsts, l.sozu_id_header));
        }
        Ok(out)
    });
    match r {
        Ok(Ok(s)) => eprintln!("{s}"),
        Ok(Err(e)) => eprintln!("{e}"),
        Err(p) => eprintln!("PANIC: {} at {}", p.message, p.location),
    }
}

pub fn run(ctx: &Ctx) -> Report {
    let mut rep = Report::new(
        "exploration",
        "an abstract model (listeners of every protocol on IPv4/IPv6 with optional knobs present or absent, HTTP/TCP/UDP clusters with overrides, frontends with hostname/path/path_type/method/position/tags/certificates/HSTS/redirects, backends) is generated first, rendered as TOML (inline and table syntaxes), loaded with Config::load_from_path, turned into messages and replayed on a fresh ConfigState as load_static_config does; the state is compared field by field with the model and the documented defaults, the file is loaded a second time over the state, and neighbours violating exactly one documented constraint must be refused; three workloads: random valid files (sizes 0..hundreds, thorough thousands, steered across 255/256/257 messages), an exhaustive sweep of the total message count 240..272 (thorough also 65530..65541) in three shapes, and 45 constraint-neighbour classes; non-trivial = at least one listener and one cluster (or a neighbour); distinct = distinct (log-size, protocol set, option count, class) shapes",
    );
    rep.assume("defaults are transcribed from doc/configure.md, doc/health_checks.md and the comments of bin/config.toml; a field left unset whose default the documentation does not state is not judged (exempt.* counters)");
    rep.assume("`request_counts` (a census of received requests) is not configuration: it is cleared before the reload comparison");
    rep.assume("for `optional` wire fields an absent value is accepted where the documentation gives a compile-time default (absent = default)");
    rep.assume("a frontend whose address has no declared listener, invalid health-check values and duplicate routes are not documented as load errors: refusal and complete acceptance are both accepted, only a partial configuration is a violation");
    if ctx.replay.is_none() && ctx.opt("probe").is_none() {
    for k in [
        "files_over_255_messages",
        "msgs:255",
        "msgs:256",
        "msgs:257",
        "idempotence_checks",
        "default_comparisons",
        "set_field_comparisons",
        "listeners_compared",
        "clusters_compared",
        "frontends_compared",
        "backends_compared",
        "certificates_compared",
        "objects.http_listener",
        "objects.https_listener",
        "objects.tcp_listener",
        "objects.udp_listener",
        "objects.http_frontend",
        "objects.https_frontend",
        "objects.tcp_frontend",
        "objects.udp_frontend",
        "listener_ipv6",
        "path_rule.regex",
        "path_rule.equals",
        "path_rule.prefix",
        "listeners_expected_inactive",
        "neighbours_rejected_at_load",
    ] {
        rep.require(k);
    }
    for (c, _) in CLASSES {
        rep.require(&format!("neighbour_tried.{c}"));
    }
    // protocol-independent constraints are instantiated on every protocol they apply to
    for c in ["health_check_uri_without_slash", "health_check_zero_interval", "unknown_cluster_protocol"] {
        for p in ["http_cluster", "tcp_cluster", "udp_cluster"] {
            rep.require(&format!("neighbour_place.{c}.{p}"));
        }
    }
    for c in ["unknown_listener_protocol", "listener_without_protocol"] {
        for p in ["http_listener", "https_listener", "tcp_listener", "udp_listener"] {
            rep.require(&format!("neighbour_place.{c}.{p}"));
        }
    }
    for c in ["duplicate_route_two_clusters", "duplicate_route_same_cluster"] {
        for p in ["http_frontend", "https_frontend", "tcp_frontend", "udp_frontend"] {
            rep.require(&format!("neighbour_place.{c}.{p}"));
        }
    }
    for c in ["invalid_redirect_policy", "invalid_redirect_scheme", "invalid_header_position", "header_value_with_crlf", "http_frontend_without_hostname"] {
        for p in ["http_frontend", "https_frontend"] {
            rep.require(&format!("neighbour_place.{c}.{p}"));
        }
    }
    for c in ["tcp_frontend_with_hostname", "tcp_frontend_with_path", "tcp_frontend_with_certificate", "frontend_without_listener_tcp"] {
        for p in ["tcp_cluster", "udp_cluster"] {
            rep.require(&format!("neighbour_place.{c}.{p}"));
        }
    }
    rep.require("opt_present.tcp_cluster.health_check.uri");
    for p in ["declared_https_without_h2", "no_declared_https", "no_declared_listener"] {
        rep.require(&format!("neighbour_place.implicit_h2_listener_buffer_size_too_small.{p}"));
    }
    for p in ["http_and_tcp", "https_and_tcp", "http_and_https"] {
        rep.require(&format!("neighbour_place.implicit_listener_protocol_conflict.{p}"));
    }
    for k in ["implicit_listeners_compared.http", "implicit_listeners_compared.https", "implicit_listeners_compared.tcp", "files_with_implicit_listeners", "h2_buffer_rule_judged_on_accepted_files", "h2_buffer_rule_rejections.declared_listener", "h2_buffer_rule_rejections.implicit_listener", "implicit_https_listener_with_buffer_size_16393"] {
        rep.require(k);
    }
    }
    let dir = ctx.root.join(format!("build/run-C20-{}", std::process::id()));
    if let Err(e) = std::fs::create_dir_all(&dir) {
        rep.broken(&format!("cannot create {}: {e}", dir.display()));
        return rep;
    }
    if let Some(p) = ctx.opt("probe") {
        // manual aid: `vh C20 --opt probe=/path/file.toml` replays one hand-written file
        probe(p, &mut rep);
        let _ = std::fs::remove_dir_all(&dir);
        return rep;
    }
    let silence = Silence::new();
    if let Some(path) = &ctx.replay {
        let v: Value = serde_json::from_str(&std::fs::read_to_string(path).unwrap_or_default()).unwrap_or(Value::Null);
        if let Some(ws) = v["witnesses"].as_array() {
            for w in ws {
                if let Some(c) = w["case"].as_u64() {
                    let label = w["label"].as_str().unwrap_or("valid").to_owned();
                    run_label(ctx, &dir, &label, c, &mut rep);
                }
            }
        }
    } else {
        let n_sweep = sweep_points(ctx).len() as u64;
        let n_valid = ctx.opt_u64("cases", ctx.tier.pick(3_000, 60_000));
        let n_neigh = ctx.opt_u64("neighbours", ctx.tier.pick(1_350, 27_000));
        par_cases_named(ctx, &mut rep, n_sweep, "sweep", |i, r| run_label(ctx, &dir, "sweep", i, r));
        par_cases_named(ctx, &mut rep, n_neigh, "neighbour", |i, r| run_label(ctx, &dir, "neighbour", i, r));
        par_cases_named(ctx, &mut rep, n_valid, "valid", |i, r| run_label(ctx, &dir, "valid", i, r));
    }
    drop(silence);
    let _ = std::fs::remove_dir_all(&dir);
    rep
}
