//! Worker lab: a real `sozu_lib::server::Server` running in a thread of this process, the harness
//! playing the main process on the command channel (like the repository's e2e crate does),
//! plus address allocation for isolated cells.

pub mod worker;

use std::{
    net::{IpAddr, Ipv4Addr, SocketAddr},
    sync::atomic::{AtomicU64, Ordering},
};

pub use worker::{Worker, WorkerOpts};

static CELL_COUNTER: AtomicU64 = AtomicU64::new(0);

/// A private loopback address 127.a.b.c for one test cell. Linux routes the whole 127/8 to lo
/// without any setup, so concurrent cells (and concurrent vh processes) do not compete for ports.
pub fn fresh_ip() -> Ipv4Addr {
    let n = CELL_COUNTER.fetch_add(1, Ordering::SeqCst);
    let pid = std::process::id() as u64;
    let mut x = pid.wrapping_mul(0x9E37_79B9_7F4A_7C15) ^ n.wrapping_mul(0xD6E8_FEB8_6659_FD93);
    let v = crate::common::rng::splitmix64(&mut x);
    let a = 16 + (v % 224) as u8; // 16..=239
    let b = ((v >> 8) % 254) as u8 + 1;
    let c = ((v >> 16) % 254) as u8 + 1;
    Ipv4Addr::new(127, a, b, c)
}

pub fn sa(ip: Ipv4Addr, port: u16) -> SocketAddr {
    SocketAddr::new(IpAddr::V4(ip), port)
}

/// raise RLIMIT_NOFILE soft limit to the hard limit (many cells x many sockets)
pub fn raise_fd_limit() {
    unsafe {
        let mut lim = libc::rlimit {
            rlim_cur: 0,
            rlim_max: 0,
        };
        if libc::getrlimit(libc::RLIMIT_NOFILE, &mut lim) == 0 && lim.rlim_cur < lim.rlim_max {
            lim.rlim_cur = lim.rlim_max;
            libc::setrlimit(libc::RLIMIT_NOFILE, &lim);
        }
    }
}
