//! A sozu worker (`sozu_lib::server::Server`) in a thread, driven over its command channel.

use std::{
    collections::VecDeque,
    net::SocketAddr,
    os::unix::io::{AsRawFd, IntoRawFd},
    sync::{
        Arc,
        atomic::{AtomicU64, Ordering},
    },
    thread::JoinHandle,
    time::{Duration, Instant},
};

use mio::net::UnixStream;
use sozu_command_lib::{
    channel::Channel,
    config::{ConfigBuilder, FileConfig, ListenerBuilder},
    logging::{LOGGER, parse_logging_spec},
    proto::command::{
        ActivateListener, AddBackend, AddCertificate, CertificateAndKey, Cluster, HardStop,
        ListenerType, LoadBalancingParams, PathRule, Request, RequestHttpFrontend,
        RequestTcpFrontend, ResponseStatus, RulePosition, ServerConfig, SoftStop, WorkerRequest,
        WorkerResponse, request::RequestType,
    },
    scm_socket::{Listeners, ScmSocket},
    state::ConfigState,
};
use sozu_lib::{
    server::Server,
    verif::{self, Probe},
};

use crate::common::par::{PanicRec, take_panics};

static WORKER_COUNTER: AtomicU64 = AtomicU64::new(0);

#[derive(Clone, Debug)]
pub struct WorkerOpts {
    pub buffer_size: u64,
    pub min_buffers: u64,
    pub max_buffers: u64,
    pub max_connections: u64,
    pub front_timeout: u32,
    pub back_timeout: u32,
    pub connect_timeout: u32,
    pub request_timeout: u32,
    pub accept_queue_timeout: u32,
    pub zombie_check_interval: u32,
    pub evict_on_queue_full: bool,
    pub max_connections_per_ip: u64,
    /// command channel buffer sizes (initial, ceiling) of the worker
    pub command_buffer_size: u64,
    pub max_command_buffer_size: u64,
    /// integer knobs for the verif hooks (e.g. "front_sndbuf"), set before the worker starts
    pub knobs: Vec<(String, i64)>,
    /// requests replayed as the worker's initial state
    pub initial_state: ConfigState,
    /// listening sockets handed over the SCM socket at start-up
    pub listeners: Option<Listeners>,
}

impl Default for WorkerOpts {
    fn default() -> Self {
        WorkerOpts {
            buffer_size: 16393,
            min_buffers: 1,
            max_buffers: 1000,
            max_connections: 1000,
            front_timeout: 60,
            back_timeout: 30,
            connect_timeout: 3,
            request_timeout: 10,
            accept_queue_timeout: 60,
            zombie_check_interval: 1800,
            evict_on_queue_full: false,
            max_connections_per_ip: 0,
            command_buffer_size: 1_000_000,
            max_command_buffer_size: 2_000_000,
            knobs: Vec::new(),
            initial_state: ConfigState::new(),
            listeners: None,
        }
    }
}

impl WorkerOpts {
    pub fn server_config(&self) -> ServerConfig {
        let config = ConfigBuilder::new(FileConfig::default(), "")
            .into_config()
            .expect("default config");
        let mut sc = ServerConfig::from(&config);
        sc.buffer_size = self.buffer_size;
        sc.min_buffers = self.min_buffers;
        sc.max_buffers = self.max_buffers;
        sc.max_connections = self.max_connections;
        sc.front_timeout = self.front_timeout;
        sc.back_timeout = self.back_timeout;
        sc.connect_timeout = self.connect_timeout;
        sc.accept_queue_timeout = self.accept_queue_timeout;
        sc.zombie_check_interval = self.zombie_check_interval;
        sc.evict_on_queue_full = Some(self.evict_on_queue_full);
        sc.max_connections_per_ip = Some(self.max_connections_per_ip);
        sc.command_buffer_size = self.command_buffer_size;
        sc.max_command_buffer_size = self.max_command_buffer_size;
        sc.log_level = "error".to_owned();
        sc
    }
}

#[derive(Debug)]
pub enum CallError {
    /// no final answer within the deadline
    Timeout(Vec<WorkerResponse>),
    /// the channel failed (worker gone?)
    Channel(String),
}

pub struct Worker {
    pub name: String,
    pub opts: WorkerOpts,
    pub config: ServerConfig,
    pub channel: Channel<WorkerRequest, WorkerResponse>,
    pub scm_main: ScmSocket,
    scm_worker_fd: i32,
    pub thread: Option<JoinHandle<()>>,
    pub probe: Arc<Probe>,
    next_id: u64,
    /// every response read so far, in order (the exactly-once monitors read this)
    pub log: Vec<WorkerResponse>,
    pending: VecDeque<WorkerResponse>,
}

fn silence_sozu_logs() {
    let spec = std::env::var("VH_SOZU_LOG").unwrap_or_else(|_| "off".to_owned());
    let (directives, _errors) = parse_logging_spec(&spec);
    LOGGER.with(|l| l.borrow_mut().set_directives(directives));
}

impl Worker {
    pub fn start(opts: WorkerOpts) -> Worker {
        let n = WORKER_COUNTER.fetch_add(1, Ordering::SeqCst);
        let name = format!("W{}-{}", std::process::id(), n);
        let config = opts.server_config();

        let (scm_main, scm_worker) = UnixStream::pair().expect("unix stream pair");
        let (cmd_main, cmd_worker) =
            Channel::generate(config.command_buffer_size, config.max_command_buffer_size)
                .expect("channel pair");
        let scm_main = ScmSocket::new(scm_main.into_raw_fd()).expect("scm socket");
        let scm_worker = ScmSocket::new(scm_worker.into_raw_fd()).expect("scm socket");
        let scm_worker_fd = scm_worker.fd;
        let listeners = opts.listeners.clone().unwrap_or_default();
        scm_main.send_listeners(&listeners).expect("send listeners");

        let probe = verif::probe(&name);
        for (k, v) in &opts.knobs {
            probe.set_knob(k, *v);
        }
        let initial_state = opts.initial_state.produce_initial_state();
        let thread_config = config.clone();
        let thread = std::thread::Builder::new()
            .name(name.clone())
            .spawn(move || {
                silence_sozu_logs();
                let mut server = Server::try_new_from_config(
                    cmd_worker,
                    scm_worker,
                    thread_config,
                    initial_state,
                    false,
                )
                .expect("could not create sozu worker");
                server.run();
            })
            .expect("spawn worker thread");

        Worker {
            name,
            opts,
            config,
            channel: cmd_main,
            scm_main,
            scm_worker_fd,
            thread: Some(thread),
            probe,
            next_id: 0,
            log: Vec::new(),
            pending: VecDeque::new(),
        }
    }

    pub fn next_id(&mut self) -> String {
        self.next_id += 1;
        format!("{}-{}", self.name, self.next_id)
    }

    /// send a request, return its id
    pub fn send(&mut self, request_type: RequestType) -> Result<String, String> {
        let id = self.next_id();
        self.send_with_id(&id, request_type)?;
        Ok(id)
    }

    pub fn send_with_id(&mut self, id: &str, request_type: RequestType) -> Result<(), String> {
        self.channel
            .write_message(&WorkerRequest {
                id: id.to_owned(),
                content: Request {
                    request_type: Some(request_type),
                },
            })
            .map_err(|e| format!("{e}"))
    }

    /// next response from the worker, waiting at most `timeout`
    pub fn recv(&mut self, timeout: Duration) -> Result<Option<WorkerResponse>, String> {
        if let Some(r) = self.pending.pop_front() {
            return Ok(Some(r));
        }
        match self.channel.read_message_blocking_timeout(Some(timeout)) {
            Ok(r) => {
                self.log.push(r.clone());
                Ok(Some(r))
            }
            Err(sozu_command_lib::channel::ChannelError::TimeoutReached(_)) => Ok(None),
            Err(e) => Err(format!("{e}")),
        }
    }

    /// send and wait for the final (Ok/Failure) answer carrying the request's id
    pub fn call(&mut self, request_type: RequestType, timeout: Duration) -> Result<WorkerResponse, CallError> {
        let id = self.send(request_type).map_err(CallError::Channel)?;
        self.wait_final(&id, timeout)
    }

    pub fn wait_final(&mut self, id: &str, timeout: Duration) -> Result<WorkerResponse, CallError> {
        let start = Instant::now();
        let mut seen = Vec::new();
        let mut stash = Vec::new();
        loop {
            let left = timeout.checked_sub(start.elapsed()).unwrap_or(Duration::ZERO);
            if left.is_zero() {
                for r in stash {
                    self.pending.push_back(r);
                }
                return Err(CallError::Timeout(seen));
            }
            match self.recv(left.min(Duration::from_millis(300))) {
                Ok(Some(r)) => {
                    if r.id == id {
                        if r.status != ResponseStatus::Processing as i32 {
                            for s in stash {
                                self.pending.push_back(s);
                            }
                            return Ok(r);
                        }
                        seen.push(r);
                    } else {
                        stash.push(r);
                    }
                }
                Ok(None) => {}
                Err(e) => return Err(CallError::Channel(e)),
            }
        }
    }

    /// true when the request was answered Ok within 5 s
    pub fn ok(&mut self, request_type: RequestType) -> bool {
        matches!(self.call(request_type, Duration::from_secs(5)), Ok(r) if r.status == ResponseStatus::Ok as i32)
    }

    pub fn is_running(&self) -> bool {
        self.thread.as_ref().is_some_and(|t| !t.is_finished())
    }

    /// wait until the worker thread ends; returns false on timeout
    pub fn join(&mut self, timeout: Duration) -> bool {
        let start = Instant::now();
        while self.is_running() {
            if start.elapsed() > timeout {
                return false;
            }
            std::thread::sleep(Duration::from_millis(10));
        }
        if let Some(t) = self.thread.take() {
            let _ = t.join();
        }
        true
    }

    /// panics recorded for the worker thread so far
    pub fn panics(&self) -> Vec<PanicRec> {
        take_panics(&self.name)
    }

    /// hard stop and join; returns the panics of the worker thread (if any)
    pub fn stop(mut self) -> Vec<PanicRec> {
        if self.is_running() {
            let _ = self.send(RequestType::HardStop(HardStop {}));
            if !self.join(Duration::from_secs(5)) {
                // the event loop does not answer: leave the thread behind (it is detached);
                // closing the channel makes `run` return on its next iteration
            }
        } else if let Some(t) = self.thread.take() {
            let _ = t.join();
        }
        let p = take_panics(&self.name);
        verif::forget(&self.name);
        unsafe {
            libc::close(self.scm_main.fd);
            libc::close(self.scm_worker_fd);
        }
        p
    }

    /// wait until the event loop has published a snapshot newer than now (one full iteration)
    pub fn wait_iterations(&self, n: u64, timeout: Duration) -> bool {
        let start = Instant::now();
        let from = self.probe.snapshot().iteration;
        while self.probe.snapshot().iteration < from + n {
            if start.elapsed() > timeout {
                return false;
            }
            std::thread::sleep(Duration::from_millis(2));
        }
        true
    }

    /// the worker's own ConfigState (copied at the end of an event loop iteration)
    pub fn dump_state(&mut self, timeout: Duration) -> Option<ConfigState> {
        *self.probe.state_dump.lock().unwrap() = None;
        self.probe.dump_requested.store(true, Ordering::SeqCst);
        // a Status request wakes the loop up
        let _ = self.call(
            RequestType::Status(sozu_command_lib::proto::command::Status {}),
            timeout,
        );
        let start = Instant::now();
        loop {
            if let Some(s) = self.probe.state_dump.lock().unwrap().take() {
                return Some(s);
            }
            if start.elapsed() > timeout {
                return None;
            }
            std::thread::sleep(Duration::from_millis(5));
        }
    }

    // ---- configuration helpers -------------------------------------------------------------

    pub fn add_http_listener(&mut self, address: SocketAddr, tweak: impl FnOnce(&mut ListenerBuilder)) -> bool {
        let mut b = ListenerBuilder::new_http(address.into());
        tweak(&mut b);
        let Ok(l) = b.to_http(None) else { return false };
        self.ok(RequestType::AddHttpListener(l)) && self.activate(address, ListenerType::Http)
    }

    pub fn add_https_listener(&mut self, address: SocketAddr, tweak: impl FnOnce(&mut ListenerBuilder)) -> bool {
        let mut b = ListenerBuilder::new_https(address.into());
        tweak(&mut b);
        let Ok(l) = b.to_tls(None) else { return false };
        self.ok(RequestType::AddHttpsListener(l)) && self.activate(address, ListenerType::Https)
    }

    pub fn add_tcp_listener(&mut self, address: SocketAddr, tweak: impl FnOnce(&mut ListenerBuilder)) -> bool {
        let mut b = ListenerBuilder::new_tcp(address.into());
        tweak(&mut b);
        let Ok(l) = b.to_tcp(None) else { return false };
        self.ok(RequestType::AddTcpListener(l)) && self.activate(address, ListenerType::Tcp)
    }

    pub fn activate(&mut self, address: SocketAddr, proxy: ListenerType) -> bool {
        self.ok(RequestType::ActivateListener(ActivateListener {
            address: address.into(),
            proxy: proxy.into(),
            from_scm: false,
        }))
    }

    pub fn add_cluster(&mut self, cluster: Cluster) -> bool {
        self.ok(RequestType::AddCluster(cluster))
    }

    pub fn add_backend(&mut self, cluster_id: &str, backend_id: &str, address: SocketAddr) -> bool {
        self.ok(RequestType::AddBackend(AddBackend {
            cluster_id: cluster_id.to_owned(),
            backend_id: backend_id.to_owned(),
            address: address.into(),
            load_balancing_parameters: Some(LoadBalancingParams::default()),
            sticky_id: None,
            backup: None,
        }))
    }

    pub fn http_frontend(cluster_id: &str, address: SocketAddr, hostname: &str, path_prefix: &str) -> RequestHttpFrontend {
        RequestHttpFrontend {
            cluster_id: Some(cluster_id.to_owned()),
            address: address.into(),
            hostname: hostname.to_owned(),
            path: PathRule::prefix(path_prefix.to_owned()),
            position: RulePosition::Tree.into(),
            ..Default::default()
        }
    }

    pub fn add_http_frontend(&mut self, front: RequestHttpFrontend) -> bool {
        self.ok(RequestType::AddHttpFrontend(front))
    }

    pub fn add_https_frontend(&mut self, front: RequestHttpFrontend) -> bool {
        self.ok(RequestType::AddHttpsFrontend(front))
    }

    pub fn add_tcp_frontend(&mut self, cluster_id: &str, address: SocketAddr) -> bool {
        self.ok(RequestType::AddTcpFrontend(RequestTcpFrontend {
            cluster_id: cluster_id.to_owned(),
            address: address.into(),
            ..Default::default()
        }))
    }

    pub fn add_certificate(&mut self, address: SocketAddr, certificate: &str, chain: Vec<String>, key: &str, names: Vec<String>) -> bool {
        self.ok(RequestType::AddCertificate(AddCertificate {
            address: address.into(),
            certificate: CertificateAndKey {
                certificate: certificate.to_owned(),
                certificate_chain: chain,
                key: key.to_owned(),
                versions: vec![],
                names,
            },
            expired_at: None,
        }))
    }

    pub fn soft_stop(&mut self) -> Result<String, String> {
        self.send(RequestType::SoftStop(SoftStop {}))
    }
}

impl Drop for Worker {
    fn drop(&mut self) {
        if self.is_running() {
            let _ = self.send(RequestType::HardStop(HardStop {}));
        }
    }
}
