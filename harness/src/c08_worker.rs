//! C08 — workers answer each command exactly once and converge on the master's view
//! (also covers C07 level iii: a command the worker answers with FAILURE leaves its state alone).
//!
//! Live-worker lab: a real `sozu_lib::server::Server` per case, the harness playing the main
//! process on the command channel. Oracles: (1) exactly-once terminal answer per request id,
//! (2) convergence of the worker's queryable view on a reference `ConfigState` fed like the main
//! process's, (3) listening / routing behaviour matches that view, (4) FAILURE => state dump
//! unchanged (`c07/…` signatures), (5) SoftStop: one final OK, thread exit, event order,
//! (6) worker panics by location.

mod exec;
mod net;
mod plan;

use std::{
    collections::BTreeMap,
    sync::atomic::{AtomicBool, Ordering},
    time::Instant,
};

use serde_json::{Value, json};

use crate::{
    common::{Ctx, Report, Rng, par_cases},
    lab,
};
use exec::{Outcome, run_plan};
use plan::{Cell, Plan, WORKER_VERBS, generate, plan_json, verb};

fn merge(rep: &mut Report, out: &Outcome) {
    for (k, n) in &out.obs {
        if let Some(key) = k.strip_prefix("max:") {
            rep.obs_max(key, *n);
        } else {
            rep.obs(k, *n);
        }
    }
    rep.obs("commands_sent", out.commands_sent);
}

/// delta-debugging on the command list: keep removing chunks while the signature reproduces
fn ddmin(ctx: &Ctx, plan: &Plan, sig: &str, budget: usize, deadline: Instant) -> (Plan, usize) {
    let mut best = plan.clone();
    let mut runs = 0usize;
    let mut chunk = (best.cmds.len() / 2).max(1);
    let _ = ctx;
    loop {
        let mut i = 0;
        let mut progressed = false;
        while i < best.cmds.len() && runs < budget && Instant::now() < deadline {
            if best.cmds.len() <= 1 {
                break;
            }
            let mut cand = best.clone();
            let end = (i + chunk).min(cand.cmds.len());
            cand.cmds.drain(i..end);
            runs += 1;
            if run_plan(&cand).has(sig) {
                best = cand;
                progressed = true;
            } else {
                i += chunk;
            }
        }
        if runs >= budget || Instant::now() >= deadline || (chunk == 1 && !progressed) {
            break;
        }
        if !progressed || chunk > best.cmds.len() {
            chunk = (chunk / 2).max(1);
        }
    }
    (best, runs)
}

/// minimise a witness: first slice the plan down to the commands that name the objects of the
/// violation, then delta-debug what is left. Every candidate is a real re-execution.
fn minimise(ctx: &Ctx, plan: &Plan, sig: &str, detail: &Value, budget: usize, deadline: Instant) -> Option<(Plan, usize)> {
    let focus = &detail["focus"];
    let mut ports: Vec<u16> = focus["ports"].as_array().map(|a| a.iter().filter_map(|p| p.as_u64()).map(|p| p as u16).collect()).unwrap_or_default();
    let mut clusters: Vec<String> = focus["clusters"].as_array().map(|a| a.iter().filter_map(|c| c.as_str()).map(|c| c.to_owned()).collect()).unwrap_or_default();
    let listeners = focus["listeners"].as_bool().unwrap_or(false);
    let pinned = detail["command_index"].as_u64().map(|i| i as usize).filter(|i| *i < plan.cmds.len());
    if let Some(i) = pinned {
        ports.extend(plan::cmd_ports(&plan.cmds[i].rt));
        clusters.extend(plan::cmd_clusters(&plan.cmds[i].rt));
    }
    let mut base = plan.clone();
    base.traffic = false;
    let mut runs = 1usize;
    // first re-execution: does it reproduce at all, and which commands did the (reference) main
    // process forward? The ones it rejected never reached the worker: drop them for free, except a
    // pinned command (a c07/master_state finding is about a rejected command).
    let first = run_plan(&base);
    if !first.has(sig) {
        return None;
    }
    let mut pinned = pinned;
    if !base.raw && !sig.starts_with("c07/master_state") {
        let keep: std::collections::BTreeSet<usize> = first.forwarded_idx.iter().copied().collect();
        let mut new_pinned = None;
        let mut cmds = Vec::new();
        for (i, c) in base.cmds.iter().enumerate() {
            if keep.contains(&i) || Some(i) == pinned {
                if Some(i) == pinned {
                    new_pinned = Some(cmds.len());
                }
                cmds.push(c.clone());
            }
        }
        base.cmds = cmds;
        pinned = new_pinned;
    }
    let mut current: Option<Plan> = None;
    let touches = |rt: &plan::RequestTypeAlias, wide: bool| {
        plan::cmd_ports(rt).iter().any(|p| ports.contains(p))
            || plan::cmd_clusters(rt).iter().any(|c| clusters.contains(c))
            || ((wide || listeners) && plan::is_listener_lifecycle(rt))
    };
    if !ports.is_empty() || !clusters.is_empty() || listeners || pinned.is_some() {
        for wide in [false, true] {
            if Instant::now() >= deadline {
                break;
            }
            let mut cand = base.clone();
            cand.cmds = base.cmds.iter().enumerate().filter(|(i, c)| Some(*i) == pinned || touches(&c.rt, wide)).map(|(_, c)| c.clone()).collect();
            if cand.cmds.is_empty() || cand.cmds.len() == base.cmds.len() {
                continue;
            }
            runs += 1;
            if run_plan(&cand).has(sig) {
                current = Some(cand);
                break;
            }
        }
    }
    let start = current.unwrap_or(base);
    let (small, r) = ddmin(ctx, &start, sig, budget.saturating_sub(runs), deadline);
    Some((small, runs + r))
}

fn shape(plan: &Plan) -> Vec<u8> {
    let mut s = vec![plan.raw as u8, plan.burst as u8, plan.traffic as u8, plan.closing as u8];
    for c in &plan.cmds {
        let v = verb(&c.rt);
        s.push(WORKER_VERBS.iter().position(|w| *w == v).unwrap_or(255) as u8);
    }
    s
}

/// A worker that ends inside this process does not always give its epoll descriptors back (an
/// activated UDP listener keeps a cloned registry alive through an Rc cycle; harmless for a worker
/// process that exits, but it adds up over tens of thousands of in-process workers): stop starting
/// cases before the descriptor table is full.
static FD_PRESSURE: AtomicBool = AtomicBool::new(false);

fn fd_pressure(case: u64) -> bool {
    if case % 128 == 0 {
        let used = std::fs::read_dir("/proc/self/fd").map(|d| d.count()).unwrap_or(0) as u64;
        let mut lim = libc::rlimit { rlim_cur: 0, rlim_max: 0 };
        let soft = if unsafe { libc::getrlimit(libc::RLIMIT_NOFILE, &mut lim) } == 0 { lim.rlim_cur as u64 } else { 1024 };
        if used * 10 > soft * 7 {
            FD_PRESSURE.store(true, Ordering::SeqCst);
        }
    }
    FD_PRESSURE.load(Ordering::SeqCst)
}

fn run_case(ctx: &Ctx, case: u64, rep: &mut Report) {
    if ctx.replay.is_none() && fd_pressure(case) {
        rep.obs("cases_not_started_descriptor_table_70_percent_full", 1);
        return;
    }
    let mut rng = Rng::for_case(ctx.seed, 8, case);
    let cell = Cell { ip: lab::fresh_ip() };
    let max_len = ctx.opt_u64("max_len", 200) as usize;
    let mut plan = generate(&mut rng, cell, max_len);
    let mut out = run_plan(&plan);
    if out.inconclusive.iter().any(|i| i.starts_with("could not start the scripted backends")) {
        // the private address collided with a cell of another process: same plan on a new address
        rep.obs("cells_moved_to_another_address", 1);
        let mut rng = Rng::for_case(ctx.seed, 8, case);
        plan = generate(&mut rng, Cell { ip: lab::fresh_ip() }, max_len);
        out = run_plan(&plan);
    }
    merge(rep, &out);
    rep.obs_max("sequence_len", plan.cmds.len() as u64);
    for b in &out.broken {
        rep.broken(b);
    }
    for i in &out.inconclusive {
        rep.inconclusive(i);
    }
    for v in &out.viol {
        rep.violation(&v.sig, &v.what, json!({"case": case, "seed": ctx.seed, "commands": plan.cmds.len(), "what": v.what, "detail": v.detail, "plan": plan_json(&plan)}));
    }
    let nontrivial = out.commands_sent >= 5;
    rep.case_bytes(&shape(&plan), nontrivial);
    if case < 2 {
        rep.sample(json!({"case": case, "plan": plan_json(&plan), "violations": out.viol.iter().map(|v| v.sig.clone()).collect::<Vec<_>>()}));
    }
}

pub fn run(ctx: &Ctx) -> Report {
    let mut rep = Report::new(
        "exploration",
        "one live worker per case; a random sequence of 10..200 requests over the 42 request types the main process can send to a worker (valid, invalid, duplicate and unknown-target arguments; lifecycle sub-sequences over-weighted), in raw mode (exactly-once only) or master-filtered mode (a reference ConfigState dispatches first, only accepted commands are forwarded; then convergence and behaviour oracles), sent one at a time or in bursts, optionally with HTTP traffic interleaved, closed by [ReturnListenSockets +] SoftStop or HardStop; occupied-address activation faults (the harness holds the listener address, ActivateListener is refused, the address is released, ActivateListener is retried) are mixed in; one case in twelve adds back-pressure episodes (3..7 commands with ids padded to 0.3..1.6 MB, i.e. answers around and above half of max_command_buffer_size, written while the harness does not read, then drained slowly); a case is non-trivial when >= 5 commands reached the worker; distinct = distinct (mode, verb sequence) shapes",
    );
    rep.assume("verbs the main process never forwards to workers (SaveState, ListWorkers, ...) are outside the quantifier and never sent");
    rep.assume("SoftStop/HardStop are only sent last; ReturnListenSockets mid-sequence only in raw mode (the main process sends it only right before SoftStop)");
    rep.assume("HTTP routing expectation uses exact hosts, prefix paths, tree position, no method (C04 covers the router); frontends outside that model are exempt from route probes");
    rep.assume("empty buckets (backends/tcp_fronts/udp_fronts/certificates) are normalised in the convergence comparison (strict comparison is C07's); UDP listeners get one datagram probe (relay to a backend of the bound cluster, or silence); HTTPS listeners a TLS request per frontend (any certificate accepted; 421 accepted when no certificate of the view names the host: certificate choice is C17's)");
    rep.assume("a frontend whose cluster was removed while its backends remain: 200 from one of those backends or 503 are both accepted");
    lab::raise_fd_limit();
    for k in [
        "sequences/raw", "sequences/master_filtered", "sequences/bursts", "sequences/one_at_a_time", "sequences/with_interleaved_traffic",
        "ids_accounted", "convergence/hashes_checked", "convergence/cluster_by_id_checked", "convergence/dump_checked", "convergence/backend_table_checked",
        "listener_probes/active", "listener_probes/active_served", "listener_probes/refused_as_expected", "route_probes", "route_probes/landed_on_backend_of_cluster",
        "c07_failure_checked", "closing/SoftStop/exited", "backpressure/episodes", "backpressure/padded_commands", "activation_fault/address_held_by_the_harness", "activation_fault/tcp/first_activation_answered_failure", "activation_fault/http/first_activation_answered_failure", "activation_fault/https/first_activation_answered_failure", "activation_fault/udp/first_activation_answered_failure", "activation_fault/tcp/retry_answered_ok", "activation_fault/listening_after_ok_retry", "sequences/small_command_buffers", "https_route_probes", "https_route_probes/landed_on_backend_of_cluster", "udp_probes", "udp_probes/relayed_to_backend_of_cluster", "tcp_route_probes/relayed_to_backend_of_cluster", "closing/soft_stop_event_logs_checked", "bursts",
        "pattern/listener:add-activate-deactivate-reactivate", "pattern/listener:remove-while-active", "pattern/listener:add-remove-never-activated",
        "pattern/backend:same-id-two-addresses", "pattern/backend:same-address-two-ids", "pattern/cluster:remove-with-frontends-and-backends-left",
        "pattern/frontend:added-before-its-listener",
    ] {
        rep.require(k);
    }
    for v in WORKER_VERBS {
        rep.require(&format!("verb/{v}/sent"));
    }
    if let Some(path) = &ctx.replay {
        let v: Value = serde_json::from_str(&std::fs::read_to_string(path).unwrap_or_default()).unwrap_or(Value::Null);
        let cases: Vec<u64> = v["witnesses"].as_array().map(|a| a.iter().filter_map(|w| w["case"].as_u64()).collect()).unwrap_or_default();
        for c in cases {
            run_case(ctx, c, &mut rep);
        }
        return rep;
    }
    let n = ctx.opt_u64("cases", ctx.tier.pick(2400, 22000));
    // cells mostly wait (sockets, timers): run more cells than cores; keep part of the budget for
    // minimising the witnesses
    let mut phase1 = ctx.clone();
    // cells mostly wait, so a few per CPU is fine; more than that and they starve each other
    phase1.threads = ctx.opt_u64("cells", (ctx.threads as u64 * 2).clamp(2, 48)) as usize;
    phase1.budget = ctx.budget.mul_f64(ctx.tier.pick(0.5, 0.85));
    par_cases(&phase1, &mut rep, n, |i, r| run_case(&phase1, i, r));
    confirm_in_isolation(ctx, &mut rep);
    if ctx.opt_u64("shrink", 1) == 1 {
        minimise_witnesses(ctx, &mut rep);
    }
    rep
}

/// A violation whose signature is not a registered known finding counts only if one of its
/// witnesses reproduces when its case is re-executed alone (nothing else running in this process).
/// Otherwise it is withdrawn and counted as inconclusive.
fn confirm_in_isolation(ctx: &Ctx, rep: &mut Report) {
    let known: std::collections::BTreeSet<String> = std::fs::read_to_string(ctx.root.join("known_findings.json"))
        .ok()
        .and_then(|t| serde_json::from_str::<Value>(&t).ok())
        .and_then(|v| v["findings"].as_array().cloned())
        .unwrap_or_default()
        .iter()
        .filter(|f| f["property"].as_str() == Some(ctx.prop.as_str()) && f["status"].as_str() == Some("known"))
        .filter_map(|f| f["signature"].as_str().map(|s| s.to_owned()))
        .collect();
    let max_len = ctx.opt_u64("max_len", 200) as usize;
    let mut sigs: Vec<String> = rep.violations.iter().map(|v| v.signature.clone()).filter(|s| !known.contains(s)).collect();
    sigs.sort();
    sigs.dedup();
    for sig in sigs {
        rep.obs("violations_rechecked_in_isolation", 1);
        let cases: Vec<u64> = rep.violations.iter().filter(|v| v.signature == sig).filter_map(|v| v.witness["case"].as_u64()).collect();
        let mut confirmed = false;
        let out_of_time = ctx.started.elapsed() > ctx.budget.mul_f64(ctx.tier.pick(3.0, 1.3));
        for case in cases {
            if out_of_time {
                break;
            }
            let mut rng = Rng::for_case(ctx.seed, 8, case);
            let plan = generate(&mut rng, Cell { ip: lab::fresh_ip() }, max_len);
            let again = crate::common::guard(|| run_plan(&plan));
            if matches!(&again, Ok(out) if out.has(&sig)) {
                confirmed = true;
                break;
            }
        }
        if confirmed {
            rep.obs("violations_confirmed_in_isolation", 1);
        } else {
            rep.violations.retain(|v| v.signature != sig);
            rep.observed.remove(&format!("violation:{sig}"));
            rep.obs("violations_withdrawn_not_reproduced_in_isolation", 1);
            rep.inconclusive(&if out_of_time {
                format!("{sig}: seen once, but no time was left to re-execute its case alone")
            } else {
                format!("{sig}: seen under load, not reproduced when its case was re-executed alone")
            });
        }
    }
}

/// phase 2: for each signature, re-generate the shortest witness's plan and minimise it
fn minimise_witnesses(ctx: &Ctx, rep: &mut Report) {
    let deadline = ctx.started + ctx.budget.mul_f64(ctx.tier.pick(0.66, 0.96));
    let mut by_sig: BTreeMap<String, usize> = BTreeMap::new();
    for (i, v) in rep.violations.iter().enumerate() {
        // prefer a master-filtered witness (what production can reach), then the shortest
        let rank = |w: &Value| (w["plan"]["mode"].as_str() == Some("raw"), w["commands"].as_u64().unwrap_or(u64::MAX));
        let len = rank(&v.witness);
        match by_sig.get(&v.signature) {
            Some(j) if rank(&rep.violations[*j].witness) <= len => {}
            _ => {
                by_sig.insert(v.signature.clone(), i);
            }
        }
    }
    let jobs: Vec<(usize, String, u64, Value)> = by_sig.into_iter().map(|(sig, i)| {
        let w = &rep.violations[i].witness;
        (i, sig, w["case"].as_u64().unwrap_or(0), w["detail"].clone())
    }).collect();
    let max_len = ctx.opt_u64("max_len", 200) as usize;
    let budget = ctx.opt_u64("shrink_runs", ctx.tier.pick(24, 80)) as usize;
    let results: Vec<(usize, Option<(Plan, usize, Option<Value>)>)> = std::thread::scope(|sc| {
        let hs: Vec<_> = jobs.iter().map(|(i, sig, case, detail)| {
            sc.spawn(move || {
                let mut rng = Rng::for_case(ctx.seed, 8, *case);
                let plan = generate(&mut rng, Cell { ip: lab::fresh_ip() }, max_len);
                let r = crate::common::guard(|| minimise(ctx, &plan, sig, detail, budget, deadline));
                let r = match r {
                    Ok(Some((small, runs))) => {
                        let again = run_plan(&small);
                        let obs = again.viol.iter().find(|x| &x.sig == sig).map(|x| json!({"what": x.what, "detail": x.detail}));
                        Some((small, runs, obs))
                    }
                    _ => None,
                };
                (*i, r)
            })
        }).collect();
        hs.into_iter().filter_map(|h| h.join().ok()).collect()
    });
    for (i, r) in results {
        rep.obs("witnesses_considered_for_minimisation", 1);
        if let Some((small, runs, obs)) = r {
            rep.obs("minimisation_reruns", runs as u64);
            rep.obs("witnesses_minimised", 1);
            rep.violations[i].witness["minimised"] = json!({"commands": small.cmds.len(), "reruns": runs,
                "reproduced_on_final_rerun": obs.is_some(), "plan": plan_json(&small), "observation": obs});
        }
    }
}
