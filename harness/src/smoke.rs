//! Self-test of the worker lab and the scripted peers (not a property check).

use std::{
    io::{Read, Write},
    time::{Duration, Instant},
};

use serde_json::json;
use sozu_command_lib::proto::command::Cluster;

use crate::{
    common::{Ctx, Report},
    lab::{self, Worker, WorkerOpts},
    peers::{self, BackendServer, IoProgram, h1, tls},
};

pub fn run(_ctx: &Ctx) -> Report {
    let mut rep = Report::new("exploration", "lab self-test");
    let ip = lab::fresh_ip();
    let front = lab::sa(ip, 8080);
    let front_tls = lab::sa(ip, 8443);
    let back = lab::sa(ip, 9000);

    let _backend = BackendServer::start(back, IoProgram::fast(), |mut s, idx| {
        let mut p = h1::Parser::new(h1::Kind::Request, true);
        let mut buf = [0u8; 8192];
        loop {
            let n = match s.read(&mut buf) {
                Ok(0) | Err(_) => return,
                Ok(n) => n,
            };
            let events = match p.feed(&buf[..n]) {
                Ok(e) => e,
                Err(_) => return,
            };
            for e in events {
                if let h1::Event::End(_) = e {
                    let body = format!("hello from backend conn {idx}");
                    let _ = s.write_all(
                        format!("HTTP/1.1 200 OK\r\nContent-Length: {}\r\n\r\n{}", body.len(), body).as_bytes(),
                    );
                }
            }
        }
    })
    .expect("backend");

    let mut w = Worker::start(WorkerOpts::default());
    let ok = w.add_http_listener(front, |_| {})
        && w.add_https_listener(front_tls, |_| {})
        && w.add_cluster(Cluster { cluster_id: "c".into(), ..Default::default() })
        && w.add_http_frontend(Worker::http_frontend("c", front, "example.test", "/"))
        && w.add_https_frontend(Worker::http_frontend("c", front_tls, "example.test", "/"))
        && w.add_backend("c", "b0", back);
    let cert = std::fs::read_to_string("/repo/lib/assets/certificate.pem").unwrap_or_default();
    let key = std::fs::read_to_string("/repo/lib/assets/key.pem").unwrap_or_default();
    let cert_ok = w.add_certificate(front_tls, &cert, vec![], &key, vec!["example.test".into()]);
    rep.obs("config_ok", (ok && cert_ok) as u64);

    // plain HTTP
    let prog = IoProgram::fast();
    let mut c = peers::connect(front, None, &prog, Duration::from_secs(2)).expect("connect");
    let deadline = Instant::now() + Duration::from_secs(3);
    peers::paced_write(&mut c, b"GET / HTTP/1.1\r\nHost: example.test\r\n\r\n", &prog, deadline).expect("write");
    let mut p = h1::Parser::new(h1::Kind::Response, true);
    let mut buf = [0u8; 8192];
    let mut msgs = Vec::new();
    while msgs.is_empty() && Instant::now() < deadline {
        match peers::paced_read(&mut c, &mut buf, &prog, Duration::from_millis(500)) {
            Ok(0) => break,
            Ok(n) => msgs.extend(h1::collect(p.feed(&buf[..n]).expect("parse"))),
            Err(_) => {}
        }
    }
    let http_ok = msgs.first().is_some_and(|m| m.complete && m.head.status() == Some(200));
    rep.obs("http_ok", http_ok as u64);
    rep.sample(json!({"http": msgs.first().map(|m| String::from_utf8_lossy(&m.body).into_owned())}));

    // TLS + HTTP/1.1
    let tcp = peers::connect(front_tls, None, &prog, Duration::from_secs(2)).expect("connect tls");
    match tls::TlsClient::handshake(tcp, "example.test", tls::client_config(&["http/1.1"]), Duration::from_secs(3)) {
        Ok((mut t, info)) => {
            rep.obs("tls_chain_len", info.chain.len() as u64);
            let _ = t.write_all(b"GET / HTTP/1.1\r\nHost: example.test\r\n\r\n");
            let mut p = h1::Parser::new(h1::Kind::Response, true);
            let mut msgs = Vec::new();
            t.set_timeouts(Duration::from_millis(500), Duration::from_secs(1));
            let deadline = Instant::now() + Duration::from_secs(3);
            while msgs.is_empty() && Instant::now() < deadline {
                match t.read(&mut buf) {
                    Ok(0) => break,
                    Ok(n) => msgs.extend(h1::collect(p.feed(&buf[..n]).expect("parse"))),
                    Err(_) => {}
                }
            }
            let ok = msgs.first().is_some_and(|m| m.complete && m.head.status() == Some(200));
            rep.obs("https_ok", ok as u64);
        }
        Err(e) => rep.broken(&format!("tls handshake failed: {e}")),
    }

    let snap = w.probe.snapshot();
    rep.sample(json!({"snapshot": format!("{snap:?}")}));
    rep.obs("loop_iterations", snap.iteration);
    let state = w.dump_state(Duration::from_secs(2));
    rep.obs("state_dump_clusters", state.map(|s| s.clusters.len() as u64).unwrap_or(999));
    let panics = w.stop();
    rep.obs("worker_panics", panics.len() as u64);
    rep.case(1, true);
    rep.case(2, true);
    for k in ["config_ok", "http_ok", "https_ok", "loop_iterations"] {
        rep.require(k);
    }
    rep
}
