//! stub — to be implemented
use crate::common::{Ctx, Report};

pub fn run(_ctx: &Ctx) -> Report {
    let mut rep = Report::new("exploration", "not implemented");
    rep.broken("check not implemented yet");
    rep
}
