//! C01 — proxied HTTP bodies arrive complete, unmodified and in order.
//!
//! Worker lab. Per cell: one real sozu worker (HTTP listener + HTTPS listener), scripted backends
//! and scripted clients. Bodies are self-describing (byte i of message m is `keystream_byte(m,i)`),
//! receivers verify incrementally with strict decoders and report the first bad offset.
//! Oracles (all at the receiver): (1) byte equality, (2) clean termination whenever the sender
//! ended cleanly, (3) progress decided on bytes (a stalled transfer is re-run alone before it may
//! count). All four sockets of a transfer are driven by random I/O programs (segmentation,
//! pauses, small SO_RCVBUF); sozu's own socket buffers are shrunk through the verif knobs in part
//! of the cells. The hooks' I/O counters prove which would-block / partial-write paths were taken.
//! An H2 client connection that sozu ends (GOAWAY, reset) is a candidate like a stall: sozu's own
//! timers and flood counters make such endings load dependent, so the connection is re-run alone
//! and the verdict counts when it is ended the same way again.
//! Diagnosis: `VH_C01_TMO=front,back,request` (seconds) overrides the 300 s timeouts of the cell.

mod pump;
mod wire;
mod h1run;
mod h2run;

use std::{
    collections::{BTreeMap, HashMap, HashSet},
    net::{Ipv4Addr, SocketAddr},
    sync::{
        Arc, Condvar, Mutex,
        atomic::{AtomicBool, AtomicU64, Ordering},
    },
    time::{Duration, Instant},
};

use serde_json::{Value, json};
use sozu_command_lib::proto::command::Cluster;

use crate::{
    common::{Ctx, Report, Rng, par_cases, rng::fnv1a},
    lab::{self, Worker, WorkerOpts},
    peers::{BackendServer, IoProgram},
};

use wire::{H2End, H2Shape, Mismatch, ReqFraming, RespFraming};

// ---------------------------------------------------------------------------------------------
// vocabulary

#[derive(Clone, Copy, Debug, PartialEq, Eq, Hash, PartialOrd, Ord)]
pub(crate) enum Front {
    H1Tcp,
    H1Tls,
    H2Tls,
}

#[derive(Clone, Copy, Debug, PartialEq, Eq, Hash, PartialOrd, Ord)]
pub(crate) enum Back {
    H1,
    H2c,
}

pub(crate) fn pair_name(f: Front, b: Back) -> &'static str {
    match (f, b) {
        (Front::H1Tcp, Back::H1) => "h1-h1",
        (Front::H1Tls, Back::H1) => "h1tls-h1",
        (Front::H2Tls, Back::H1) => "h2-h1",
        (Front::H1Tcp, Back::H2c) => "h1-h2c",
        (Front::H1Tls, Back::H2c) => "h1tls-h2c",
        (Front::H2Tls, Back::H2c) => "h2-h2c",
    }
}

#[derive(Clone, Copy, Debug, PartialEq, Eq, Hash)]
pub(crate) enum Mode {
    /// the backend answers after it has read the whole request
    Normal,
    /// the backend starts its response as soon as it has the request head and keeps reading the
    /// request meanwhile (H1: only the response is judged; H2: both directions are judged)
    Early,
}

/// One request/response exchange.
#[derive(Clone, Debug)]
pub(crate) struct Xfer {
    /// registry key, unique in the process: (case << 24) | n
    pub key: u64,
    pub req_msg: u64,
    pub resp_msg: u64,
    pub req_size: u64,
    pub resp_size: u64,
    pub req_framing: ReqFraming,
    pub resp_framing: RespFraming,
    pub mode: Mode,
    /// which backend (index into the cell's backend list)
    pub backend: usize,
    /// filler header length (moves every later byte relative to sozu's buffer boundaries)
    pub req_fill: usize,
    pub resp_fill: usize,
    /// the client asks for `Connection: close`
    pub client_close: bool,
    /// how the backend paces this exchange (buffer sizes come from its listener)
    pub backend_prog: IoProgram,
    /// H2 client: cancel the stream (RST_STREAM CANCEL) once this many response body bytes have
    /// arrived; no WINDOW_UPDATE is sent for the stream, so most of the response is still on the
    /// backend socket at that point
    pub cancel_after: Option<u64>,
    /// the exchange follows a cancelled one on the same client connection and the same cluster
    pub after_cancel: bool,
}

impl Xfer {
    pub fn direction(&self) -> &'static str {
        match (self.req_size > 0 || self.req_framing.has_body(), self.resp_size > 0) {
            _ if self.mode == Mode::Early => "early",
            (true, true) => "both",
            (true, false) => "upload",
            (false, _) => "download",
        }
    }
    pub fn json(&self) -> Value {
        json!({"key": self.key, "req_msg": self.req_msg, "resp_msg": self.resp_msg,
            "req_size": self.req_size, "resp_size": self.resp_size,
            "req_framing": self.req_framing.describe(), "resp_framing": self.resp_framing.describe(),
            "mode": format!("{:?}", self.mode), "backend": self.backend,
            "req_fill": self.req_fill, "resp_fill": self.resp_fill, "client_close": self.client_close,
            "backend_prog": self.backend_prog.describe(), "cancel_after": self.cancel_after, "after_cancel": self.after_cancel})
    }
}

/// One client connection: 1..8 sequential exchanges (H1) or 1..32 concurrent streams (H2).
#[derive(Clone, Debug)]
pub(crate) struct ConnPlan {
    pub idx: usize,
    pub front: Front,
    pub prog: IoProgram,
    pub xfers: Vec<Xfer>,
    /// per-connection randomness of the runner (H2 settings, stream start order)
    pub seed: u64,
    /// H2 connections: the framing theme shared by all streams ("" on H1 connections)
    pub theme: String,
}

/// What a receiver saw of one message.
#[derive(Clone, Debug, Default)]
pub(crate) struct SideObs {
    pub head_seen: bool,
    pub bytes: u64,
    pub mismatch: Option<Mismatch>,
    pub ended: bool,
    /// (kind, detail); kind in malformed | truncated | reset | tls_unclean_eof | rst_stream | goaway
    pub error: Option<(String, String)>,
    pub trailers: Option<usize>,
    /// framing as seen by the receiver
    pub recv_framing: String,
}

impl SideObs {
    pub fn json(&self) -> Value {
        json!({"head_seen": self.head_seen, "bytes": self.bytes, "ended": self.ended,
            "error": self.error.as_ref().map(|(k, d)| format!("{k}: {d}")),
            "mismatch": self.mismatch.as_ref().map(|m| m.json()),
            "trailers": self.trailers, "recv_framing": self.recv_framing})
    }
}

/// The backend's view of one exchange.
#[derive(Clone, Debug, Default)]
pub(crate) struct BackObs {
    pub conn_idx: usize,
    pub nth_on_conn: usize,
    pub seen: u32,
    pub req: SideObs,
    pub resp_started: bool,
    pub resp_bytes_written: u64,
    /// every response byte was handed to the kernel (and FIN sent for close-delimited bodies)
    pub resp_sent_complete: bool,
    pub resp_error: Option<String>,
    /// after a closing response: sozu closed the backend connection too (it has read everything)
    pub peer_closed_after_resp: bool,
    /// bytes moved on the backend socket for this exchange (progress is decided on bytes)
    pub activity: u64,
}

/// The client's view of one exchange.
#[derive(Clone, Debug, Default)]
pub(crate) struct ClientObs {
    pub attempted: bool,
    pub req_bytes_written: u64,
    pub req_sent_complete: bool,
    pub send_error: Option<String>,
    pub status: Option<u16>,
    pub from_backend: bool,
    pub resp: SideObs,
    pub stalled: bool,
    /// the client cancelled the stream itself (RST_STREAM CANCEL) as planned
    pub cancelled: bool,
    /// the failure recorded in `resp.error` hit the whole H2 connection (GOAWAY with an error,
    /// connection closed / reset, undecodable frames), not this stream alone
    pub conn_level: bool,
    pub stall_silence_s: u64,
    pub watchdog_cap: bool,
    /// sozu's socket counters over this exchange (single-lane cells only):
    /// (session_tcp write wouldblock, session_tcp partial, rustls write wouldblock, rustls partial)
    pub io_delta: Option<[u64; 4]>,
    pub garbage_after: Option<String>,
    pub note: Option<String>,
    pub elapsed_ms: u64,
}

pub(crate) struct CellShared {
    pub case: u64,
    pub specs: Mutex<HashMap<u64, Arc<Xfer>>>,
    pub back: Mutex<HashMap<u64, BackObs>>,
    pub cond: Condvar,
    pub progress: AtomicU64,
    pub stop: AtomicBool,
    pub backend_conns: AtomicU64,
    pub backend_reuse: AtomicU64,
    pub h2_max_concurrent_back: AtomicU64,
    /// class 'window-shift': stream windows of the small-window backend that sozu used up
    /// completely (each one reopened with one WINDOW_UPDATE)
    pub shift_windows_used_up: AtomicU64,
}

impl CellShared {
    pub fn new(case: u64) -> Arc<CellShared> {
        Arc::new(CellShared {
            case,
            specs: Mutex::new(HashMap::new()),
            back: Mutex::new(HashMap::new()),
            cond: Condvar::new(),
            progress: AtomicU64::new(0),
            stop: AtomicBool::new(false),
            backend_conns: AtomicU64::new(0),
            backend_reuse: AtomicU64::new(0),
            h2_max_concurrent_back: AtomicU64::new(0),
            shift_windows_used_up: AtomicU64::new(0),
        })
    }
    pub fn spec(&self, key: u64) -> Option<Arc<Xfer>> {
        self.specs.lock().unwrap().get(&key).cloned()
    }
    pub fn with_back<R>(&self, key: u64, f: impl FnOnce(&mut BackObs) -> R) -> R {
        let mut g = self.back.lock().unwrap();
        let r = f(g.entry(key).or_default());
        drop(g);
        self.cond.notify_all();
        r
    }
    pub fn back_obs(&self, key: u64) -> Option<BackObs> {
        self.back.lock().unwrap().get(&key).cloned()
    }
    /// wait until `pred` holds for the backend's view of `key` (or the timeout elapses)
    pub fn wait_back(&self, key: u64, timeout: Duration, pred: impl Fn(&BackObs) -> bool) -> Option<BackObs> {
        let deadline = Instant::now() + timeout;
        let mut g = self.back.lock().unwrap();
        loop {
            if let Some(o) = g.get(&key) {
                if pred(o) {
                    return Some(o.clone());
                }
            }
            let left = deadline.saturating_duration_since(Instant::now());
            if left.is_zero() {
                return g.get(&key).cloned();
            }
            g = self.cond.wait_timeout(g, left.min(Duration::from_millis(50))).unwrap().0;
        }
    }
    pub fn tick(&self, n: u64) {
        self.progress.fetch_add(n.max(1), Ordering::Relaxed);
    }
}

#[derive(Clone, Debug)]
pub(crate) struct CellCfg {
    pub tight: bool,
    pub buffer_size: u64,
    pub min_buffers: u64,
    pub max_buffers: u64,
    pub knobs: Vec<(String, i64)>,
    pub lanes: usize,
    /// backends: (protocol, listener I/O program)
    pub backends: Vec<(Back, IoProgram)>,
    /// class 'window-shift': this h2c backend advertises a small stream window and reopens it
    /// only once it is used up
    pub shift_backend: Option<usize>,
}

impl CellCfg {
    fn json(&self) -> Value {
        json!({"tight": self.tight, "buffer_size": self.buffer_size, "min_buffers": self.min_buffers,
            "max_buffers": self.max_buffers, "knobs": self.knobs, "lanes": self.lanes, "small_window_backend": self.shift_backend,
            "backends": self.backends.iter().map(|(b, p)| format!("{b:?} {}", p.describe())).collect::<Vec<_>>()})
    }
}

pub(crate) fn host_of(backend: usize) -> String {
    format!("b{backend}.test")
}

pub(crate) const WATCHDOG_NO_PROGRESS: Duration = Duration::from_secs(20);
/// when every sender of the unfinished direction(s) has handed all its bytes to the kernel and no
/// byte moves on any of the four sockets, this silence makes a stall candidate
pub(crate) const WATCHDOG_SENDER_DONE: Duration = Duration::from_secs(3);

pub(crate) fn overall_cap(x: &Xfer) -> Duration {
    // 10x the time the transfer takes at 1 MB/s, at least 60 s
    let bytes = x.req_size + x.resp_size;
    Duration::from_secs((bytes / 100_000).max(60))
}

// ---------------------------------------------------------------------------------------------
// generators

const MAX_H2_STREAMS: usize = 32;
const CHUNK_SIZES: &[usize] = &[1, 2, 7, 9, 4096, 16383, 16384, 16385, 0 /* = size itself */];

fn named_sizes(bs: u64) -> Vec<u64> {
    let mut v: Vec<u64> = vec![0, 1, 2, bs - 2, bs - 1, bs, bs + 1, bs + 2, 16393, 32767, 32768, 32769, 65534, 65535, 65536, 65537];
    for d in 0..=9u64 {
        v.push(16384 - d);
        v.push(16384 + d);
    }
    for n in 8..=17u32 {
        v.push((1u64 << n) - 1);
        v.push(1u64 << n);
        v.push((1u64 << n) + 1);
    }
    v.sort_unstable();
    v.dedup();
    v
}

fn size_bucket(size: u64, bs: u64) -> String {
    let named = [0u64, 1, 16375, 16383, 16384, 16385, 16393, 32768, 65535, 65536, 65537];
    if named.contains(&size) {
        return format!("size/{size}");
    }
    if size + 2 >= bs && size <= bs + 2 {
        let d = size as i64 - bs as i64;
        return format!("size/bs{d:+}");
    }
    if (16375..=16393).contains(&size) {
        return "size/16384+-9".to_owned();
    }
    if size > 0 && ((size + 1).is_power_of_two() || (size - 1).is_power_of_two() || size.is_power_of_two()) {
        return "size/2^n+-1".to_owned();
    }
    format!("size/log2={}", 64 - size.leading_zeros())
}

fn gen_size(rng: &mut Rng, bs: u64, common_max: u64, big_max: u64, allow_big: bool) -> u64 {
    let r = rng.below(100);
    if r < 55 {
        let named = named_sizes(bs);
        return *rng.pick(&named);
    }
    if r < 58 && allow_big {
        // log-uniform between common_max and big_max
        let lo = (common_max as f64).ln();
        let hi = (big_max as f64).ln();
        let u = rng.below(1 << 20) as f64 / (1u64 << 20) as f64;
        return (lo + (hi - lo) * u).exp() as u64;
    }
    let hi = (common_max as f64).ln();
    let u = rng.below(1 << 20) as f64 / (1u64 << 20) as f64;
    ((hi * u).exp() as u64).min(common_max)
}

fn gen_prog(rng: &mut Rng) -> IoProgram {
    let write_seg = *rng.pick(&[1usize, 2, 9, 9, 100, 100, 1460, 1460, 1460, 16384, 16384, 16384, 0, 0, 0, 0]);
    let pause = |rng: &mut Rng| match rng.below(10) {
        0..=3 => 0,
        4..=7 => rng.range(50, 1000),
        _ => rng.range(1000, 5000),
    };
    let write_pause_us = pause(rng);
    let read_chunk = *rng.pick(&[0usize, 0, 0, 0, 1, 9, 100, 1460, 4096, 16384]);
    let read_pause_us = pause(rng);
    let rcvbuf = if rng.chance(3, 10) { 4096 } else { 0 };
    let sndbuf = if rng.chance(1, 8) { 4096 } else { 0 };
    IoProgram { write_seg, write_pause_us, read_chunk, read_pause_us, rcvbuf, sndbuf }
}

fn gen_chunks(rng: &mut Rng, size: u64) -> Vec<usize> {
    let n = rng.urange(1, 3);
    let mut v = Vec::new();
    for _ in 0..n {
        let mut c = *rng.pick(CHUNK_SIZES);
        if c == 0 {
            c = size.max(1) as usize;
        }
        // tiny chunks only on bodies where they stay affordable (<= ~70k chunks)
        if c < 16 && size > 65_537 * c as u64 {
            c = 4096;
        }
        v.push(c);
    }
    v
}

fn gen_cell_cfg(rng: &mut Rng, with_h2c: bool) -> CellCfg {
    let tight = rng.chance(1, 2);
    let lanes = match rng.below(10) {
        0..=6 => 1usize,
        7..=8 => 2,
        _ => 3,
    };
    let mut knobs = Vec::new();
    let (buffer_size, min_buffers, max_buffers);
    if tight {
        buffer_size = 16393;
        min_buffers = 1;
        // small, but enough for what the cell opens at once: a stream holds two buffers, an H2
        // connection carries up to 32 streams, `lanes` connections run side by side (a smaller
        // pool only provokes sozu's documented refusal of streams, which is not C01's subject)
        max_buffers = 2 * (MAX_H2_STREAMS as u64 + 4) * lanes as u64 + rng.range(0, 32);
        for k in ["front_sndbuf", "front_rcvbuf", "back_sndbuf", "back_rcvbuf"] {
            if rng.chance(3, 4) {
                knobs.push((k.to_owned(), *rng.pick(&[2048i64, 4096, 4096, 8192, 16384])));
            }
        }
    } else {
        buffer_size = *rng.pick(&[16393u64, 16393, 16393, 32768, 65536]);
        min_buffers = 1;
        max_buffers = 1000;
    }
    let slow = |rng: &mut Rng| IoProgram { rcvbuf: 4096, sndbuf: if rng.bool() { 4096 } else { 0 }, ..IoProgram::default() };
    let mut backends = vec![(Back::H1, IoProgram::default()), (Back::H1, slow(rng))];
    if with_h2c {
        backends.push((Back::H2c, IoProgram::default()));
        backends.push((Back::H2c, slow(rng)));
    }
    CellCfg { tight, buffer_size, min_buffers, max_buffers, knobs, lanes, backends, shift_backend: None }
}

struct Sizes {
    common_max: u64,
    big_max: u64,
}

const H2_FRAME_SIZES: &[usize] = &[1, 2, 7, 9, 100, 4096, 16383, 16384, 0 /* as large as allowed */];

fn gen_shape(rng: &mut Rng, size: u64, allow_empty: bool) -> H2Shape {
    let n = rng.urange(1, 3);
    let frame_sizes = (0..n).map(|_| *rng.pick(H2_FRAME_SIZES)).collect();
    let end = match rng.below(10) {
        0..=4 => H2End::OnLast,
        5..=7 => H2End::EmptyData,
        _ => H2End::Trailers,
    };
    let _ = size;
    H2Shape { frame_sizes, padding: rng.chance(1, 3), empty_frames: allow_empty && rng.chance(1, 4), end, content_length: rng.chance(1, 2) }
}

fn h2_theme_label(s: &H2Shape) -> String {
    let l = s.label();
    let l = l.strip_prefix("h2data").unwrap_or(&l).trim_start_matches('+').to_owned();
    if l.is_empty() { "plain".to_owned() } else { l }
}

/// one exchange for a connection of protocol `front` towards backend number `backend`
#[allow(clippy::too_many_arguments)]
fn gen_xfer(rng: &mut Rng, key: u64, cfg: &CellCfg, sz: &Sizes, front: Front, backend: usize, allow_big: bool, last_on_conn: bool, nstreams: usize) -> Xfer {
    let bs = cfg.buffer_size;
    let back = cfg.backends[backend].0;
    // many concurrent streams: keep each of them moderate
    let common_max = if nstreams > 8 { sz.common_max.min(70_000) } else { sz.common_max };
    let dir = rng.below(100);
    let (mut req_size, mut resp_size) = (0u64, 0u64);
    let mut mode = Mode::Normal;
    let has_req;
    if dir < 38 {
        has_req = true;
        req_size = gen_size(rng, bs, common_max, sz.big_max, allow_big);
    } else if dir < 76 {
        has_req = false;
        resp_size = gen_size(rng, bs, common_max, sz.big_max, allow_big);
    } else {
        has_req = true;
        req_size = gen_size(rng, bs, common_max, sz.big_max, allow_big);
        resp_size = gen_size(rng, bs, common_max, sz.big_max, allow_big && req_size < common_max);
        let p = if front == Front::H2Tls && back == Back::H2c { 2 } else { 8 };
        if rng.chance(1, p) {
            mode = Mode::Early;
        }
    }
    let allow_empty = nstreams <= 8;
    let req_framing = if !has_req {
        ReqFraming::NoBody
    } else if front == Front::H2Tls {
        ReqFraming::H2(gen_shape(rng, req_size, allow_empty))
    } else {
        match rng.below(10) {
            0..=4 => ReqFraming::Cl,
            _ => ReqFraming::Chunked {
                sizes: gen_chunks(rng, req_size),
                ext: rng.chance(1, 12),
                trailers: rng.chance(1, 5),
            },
        }
    };
    let resp_framing = if back == Back::H2c {
        RespFraming::H2(gen_shape(rng, resp_size, allow_empty))
    } else {
        match rng.below(20) {
            0..=6 => RespFraming::Cl { close: false },
            7 => RespFraming::Cl { close: true },
            8..=13 => RespFraming::Chunked {
                sizes: gen_chunks(rng, resp_size),
                ext: rng.chance(1, 12),
                trailers: rng.chance(1, 5),
                close: rng.chance(1, 8),
            },
            14..=16 => RespFraming::Close10,
            _ => RespFraming::Close11,
        }
    };
    let fill = |rng: &mut Rng| match rng.below(10) {
        0..=2 => 0,
        3..=7 => rng.urange(1, 600),
        _ => rng.urange(600, 6000),
    };
    let mut backend_prog = gen_prog(rng);
    backend_prog.rcvbuf = 0;
    backend_prog.sndbuf = 0;
    let client_close = front != Front::H2Tls && last_on_conn && rng.chance(1, 5);
    Xfer {
        key,
        req_msg: key << 1,
        resp_msg: (key << 1) | 1,
        req_size,
        resp_size,
        req_framing,
        resp_framing,
        mode,
        backend,
        req_fill: fill(rng),
        resp_fill: fill(rng),
        client_close,
        backend_prog,
        cancel_after: None,
        after_cancel: false,
    }
}

pub(crate) struct CellPlan {
    pub case: u64,
    pub cfg: CellCfg,
    pub conns: Vec<ConnPlan>,
}

fn h2_available() -> bool {
    h2run::AVAILABLE
}

fn gen_cell(ctx: &Ctx, case: u64) -> CellPlan {
    if case & SHIFT_CELL != 0 {
        return gen_shift_cell(ctx, case);
    }
    let mut rng = Rng::for_case(ctx.seed, 1, case);
    let with_h2 = h2_available() && ctx.opt("h2") != Some("off");
    let cfg = gen_cell_cfg(&mut rng, with_h2);
    let sz = Sizes {
        common_max: ctx.opt_u64("common_max", 256 * 1024),
        big_max: ctx.opt_u64("big_max", ctx.tier.pick(8u64 << 20, 64u64 << 20)),
    };
    let n_conns = ctx.opt_u64("conns", 12) as usize;
    let mut conns = Vec::new();
    let mut n = 0u64;
    // at most one very large transfer per cell
    let mut big_left = if rng.chance(1, ctx.tier.pick(3, 6)) { 1 } else { 0 };
    for idx in 0..n_conns {
        let front = if with_h2 {
            *rng.pick(&[Front::H1Tcp, Front::H1Tls, Front::H2Tls, Front::H2Tls])
        } else {
            *rng.pick(&[Front::H1Tcp, Front::H1Tls])
        };
        let prog = gen_prog(&mut rng);
        let mut xfers = Vec::new();
        let mut theme = String::new();
        if front == Front::H2Tls {
            let streams = match rng.below(10) {
                0..=3 => 1,
                4..=7 => rng.urange(2, 6),
                _ => rng.urange(7, MAX_H2_STREAMS),
            };
            // one backend protocol and one H2 "theme" (padding / empty frames / how streams end)
            // per H2 connection: a connection-level failure then has one pairing and one theme
            let proto = if rng.chance(1, 3) { Back::H2c } else { Back::H1 };
            let candidates: Vec<usize> = (0..cfg.backends.len()).filter(|i| cfg.backends[*i].0 == proto).collect();
            let t = gen_shape(&mut rng, 0, streams <= 8);
            theme = h2_theme_label(&t);
            // early responses only on dedicated connections (counted and judged separately)
            let early_conn = rng.chance(1, 6);
            if early_conn {
                theme.push_str("+early-responses");
            }
            for _ in 0..streams {
                let key = (case << 24) | n;
                n += 1;
                let backend = *rng.pick(&candidates);
                let allow_big = big_left > 0 && streams <= 4;
                let mut x = gen_xfer(&mut rng, key, &cfg, &sz, front, backend, allow_big, false, streams);
                for s in [
                    match &mut x.req_framing { ReqFraming::H2(s) => Some(s), _ => None },
                    match &mut x.resp_framing { RespFraming::H2(s) => Some(s), _ => None },
                ].into_iter().flatten() {
                    s.padding = t.padding;
                    s.empty_frames = t.empty_frames;
                    s.end = t.end.clone();
                }
                // no chunk extensions behind an H2 connection: kawa refuses them, the stream gets a
                // 502 default answer, and such an answer (`Connection: close` template) makes sozu
                // drain the whole H2 connection as documented: every stream opened after it is
                // refused, and the DATA already in flight for those counts towards
                // ENHANCE_YOUR_CALM. H1 connections keep exercising the extensions.
                if let RespFraming::Chunked { ext, .. } = &mut x.resp_framing {
                    *ext = false;
                }
                if x.mode == Mode::Early && !early_conn {
                    x.mode = Mode::Normal;
                } else if early_conn && x.req_size > 0 && x.resp_size > 0 {
                    x.mode = Mode::Early;
                }
                if x.req_size > sz.common_max || x.resp_size > sz.common_max {
                    big_left = 0;
                }
                xfers.push(x);
            }
        } else {
            let k = match rng.below(10) {
                0..=2 => 1,
                3..=7 => rng.urange(2, 4),
                _ => rng.urange(5, 8),
            };
            for j in 0..k {
                let key = (case << 24) | n;
                n += 1;
                let backend = rng.usize_below(cfg.backends.len());
                let mut x = gen_xfer(&mut rng, key, &cfg, &sz, front, backend, big_left > 0, j + 1 == k, 1);
                if x.req_size > sz.common_max || x.resp_size > sz.common_max {
                    big_left = 0;
                }
                if j + 1 < k {
                    x.client_close = false;
                }
                xfers.push(x);
            }
        }
        // debugging overrides (never set by the registered command)
        for x in xfers.iter_mut() {
            let shapes: Vec<&mut H2Shape> = [
                match &mut x.req_framing { ReqFraming::H2(s) => Some(s), _ => None },
                match &mut x.resp_framing { RespFraming::H2(s) => Some(s), _ => None },
            ].into_iter().flatten().collect();
            for s in shapes {
                match ctx.opt("dbg_h2_end") {
                    Some("last") => s.end = H2End::OnLast,
                    Some("empty") => s.end = H2End::EmptyData,
                    Some("trailers") => s.end = H2End::Trailers,
                    _ => {}
                }
                if ctx.opt("dbg_h2_nopad").is_some() {
                    s.padding = false;
                }
                if ctx.opt("dbg_h2_noempty").is_some() {
                    s.empty_frames = false;
                }
            }
            if ctx.opt("dbg_normal").is_some() {
                x.mode = Mode::Normal;
            }
        }
        conns.push(ConnPlan { idx, front, prog, xfers, seed: rng.next_u64(), theme });
    }
    // class "cancel mid-download then reuse" (half of the cells, one connection, run first): an
    // H2 client asks one H1 keep-alive backend for a large response A with a small stream window
    // and no WINDOW_UPDATE, cancels A after the head, then sends B and C to the same cluster on the
    // same connection. Whatever sozu does with the backend connection that still carries the rest
    // of A, B and C must get exactly their own bodies. Own random stream: the other connections of
    // the cell are the same with or without this class.
    let mut crng = Rng::for_case(ctx.seed, 7, case);
    if with_h2 && ctx.opt("cancel_reuse") != Some("off") && crng.chance(1, 2) {
        let backend = crng.usize_below(2); // the two H1 backends
        let mut xfers = Vec::new();
        for j in 0..3 {
            let key = (case << 24) | n;
            n += 1;
            let mut x = gen_xfer(&mut crng, key, &cfg, &sz, Front::H2Tls, backend, false, false, 1);
            x.mode = Mode::Normal;
            x.resp_framing = RespFraming::Cl { close: false };
            match j {
                0 => {
                    x.req_framing = ReqFraming::NoBody;
                    x.req_size = 0;
                    x.resp_size = crng.range(1 << 20, 4 << 20);
                    x.cancel_after = Some(*crng.pick(&[0u64, 1, 100, 4096, 12000]));
                }
                1 => {
                    x.req_framing = ReqFraming::NoBody;
                    x.req_size = 0;
                    x.resp_size = gen_size(&mut crng, cfg.buffer_size, 70_000, 70_000, false).max(16);
                    x.after_cancel = true;
                }
                _ => {
                    x.req_framing = ReqFraming::H2(H2Shape { frame_sizes: vec![0], padding: false, empty_frames: false, end: H2End::OnLast, content_length: true });
                    x.req_size = gen_size(&mut crng, cfg.buffer_size, 70_000, 70_000, false).max(16);
                    x.resp_size = crng.range(16, 2000);
                    x.after_cancel = true;
                }
            }
            xfers.push(x);
        }
        let mut prog = gen_prog(&mut crng);
        prog.read_pause_us = prog.read_pause_us.min(500);
        conns.insert(0, ConnPlan { idx: n_conns, front: Front::H2Tls, prog, xfers, seed: crng.next_u64(), theme: CANCEL_REUSE.to_owned() });
    }
    let _ = n;
    CellPlan { case, cfg, conns }
}

pub(crate) const CANCEL_REUSE: &str = "cancel-reuse";
pub(crate) const WINDOW_SHIFT: &str = "window-shift";
/// case numbers with this bit are cells of the class 'window-shift' (own cells: the other cells are
/// the same with or without the class)
const SHIFT_CELL: u64 = 1 << 32;

/// Class "window-shift", cells of their own. The receiver of a body behind an H2 hop advertises
/// a small stream window and reopens it only once it is used up, and reads slowly through a small
/// socket buffer, while the sender of the body delivers fast in small segments. In sozu the
/// converter then stops in the middle of the buffered body with several blocks pending (window
/// used up), the DATA frame on its way out is written in part only (SO_SNDBUF of 2-4 KiB), the
/// stream buffer is shifted and refilled: every pending block must still point at its own bytes.
/// Uploads to an h2c backend from an H2 and from an H1 client, downloads to an H2 client from an
/// h2c and from an H1 backend. One direction per connection: with a body blocked on a window in
/// each direction of one H2 connection, sozu's frontend and backend connections wait for each
/// other (the head-of-line deadlock already on record) and nothing of this class would be seen.
fn gen_shift_cell(ctx: &Ctx, case: u64) -> CellPlan {
    let mut rng = Rng::for_case(ctx.seed, 8, case);
    let mut cfg = gen_cell_cfg(&mut rng, true);
    cfg.tight = true;
    cfg.buffer_size = 16393;
    cfg.min_buffers = 1;
    cfg.max_buffers = 64;
    cfg.lanes = 1;
    cfg.knobs.retain(|(k, _)| k != "front_sndbuf" && k != "back_sndbuf");
    for k in ["front_sndbuf", "back_sndbuf"] {
        cfg.knobs.push((k.to_owned(), *rng.pick(&[2048i64, 4096])));
    }
    let backend = 2 + rng.usize_below(2); // one of the two h2c backends
    cfg.shift_backend = Some(backend);
    let sz = Sizes { common_max: 256 * 1024, big_max: 256 * 1024 };
    let slow_reader = |rng: &mut Rng| IoProgram {
        write_seg: 16384,
        write_pause_us: 0,
        read_chunk: *rng.pick(&[1460usize, 1460, 4096]),
        read_pause_us: rng.range(100, 400),
        rcvbuf: 4096,
        sndbuf: 0,
    };
    let fast_small_writer = |rng: &mut Rng| IoProgram {
        write_seg: *rng.pick(&[1460usize, 1460, 4096]),
        write_pause_us: *rng.pick(&[0u64, 0, 50]),
        read_chunk: 0,
        read_pause_us: 0,
        rcvbuf: 0,
        sndbuf: 0,
    };
    let body = |rng: &mut Rng| rng.range(5 * 16_384, 12 * 16_384) + rng.range(0, 3);
    let plain = H2Shape { frame_sizes: vec![0], padding: false, empty_frames: false, end: H2End::OnLast, content_length: true };
    let mut conns = Vec::new();
    let mut n = 0u64;
    // (front, upload?, backend): the small-window h2c backend for the uploads, h2c and H1 for downloads
    let layout = [(Front::H2Tls, true, backend), (Front::H2Tls, false, backend), (Front::H1Tcp, true, backend), (Front::H2Tls, false, rng.usize_below(2))];
    for (idx, (front, upload, backend)) in layout.into_iter().enumerate() {
        let streams = if front == Front::H2Tls { 2 } else { 1 };
        let mut xfers = Vec::new();
        for _ in 0..streams {
            let key = (case << 24) | n;
            n += 1;
            let mut x = gen_xfer(&mut rng, key, &cfg, &sz, front, backend, false, false, streams);
            x.mode = Mode::Normal;
            x.client_close = false;
            x.req_fill = x.req_fill.min(100);
            x.resp_fill = x.resp_fill.min(100);
            let seg = *rng.pick(&[1460usize, 4096, 16384]);
            if upload {
                x.req_size = body(&mut rng);
                x.req_framing = match front {
                    Front::H2Tls => ReqFraming::H2(H2Shape { frame_sizes: vec![seg], ..plain.clone() }),
                    _ if rng.bool() => ReqFraming::Cl,
                    _ => ReqFraming::Chunked { sizes: vec![seg], ext: false, trailers: false },
                };
                x.resp_size = rng.range(0, 64);
                x.resp_framing = RespFraming::H2(plain.clone());
                x.backend_prog = slow_reader(&mut rng);
            } else {
                x.req_size = 0;
                x.req_framing = ReqFraming::NoBody;
                x.resp_size = body(&mut rng);
                x.resp_framing = match cfg.backends[backend].0 {
                    Back::H2c => RespFraming::H2(H2Shape { frame_sizes: vec![seg.min(4096)], ..plain.clone() }),
                    Back::H1 if rng.bool() => RespFraming::Cl { close: false },
                    Back::H1 => RespFraming::Chunked { sizes: vec![seg], ext: false, trailers: false, close: false },
                };
                x.backend_prog = fast_small_writer(&mut rng);
            }
            xfers.push(x);
        }
        let prog = if upload { fast_small_writer(&mut rng) } else { slow_reader(&mut rng) };
        conns.push(ConnPlan { idx, front, prog, xfers, seed: rng.next_u64(), theme: WINDOW_SHIFT.to_owned() });
    }
    let _ = ctx;
    CellPlan { case, cfg, conns }
}

// ---------------------------------------------------------------------------------------------
// running a cell

pub(crate) struct CellEnv {
    /// re-run in isolation: only the generous watchdog (20 s without a byte moving) applies
    pub generous: bool,
    /// an H1 connection stops starting exchanges after this long
    pub conn_budget: Duration,
    pub probe: Arc<sozu_lib::verif::Probe>,
    pub single_lane: bool,
    pub ip: Ipv4Addr,
    pub http: SocketAddr,
    pub https: SocketAddr,
    pub shared: Arc<CellShared>,
    pub cfg: CellCfg,
}

#[derive(Clone, Debug)]
pub(crate) struct XferOutcome {
    pub conn: usize,
    pub front: Front,
    pub nth: usize,
    pub concurrent: usize,
    pub client_prog: IoProgram,
    pub xfer: Xfer,
    pub client: ClientObs,
    pub back: Option<BackObs>,
}

struct StallCandidate {
    case: u64,
    conn: usize,
    key: u64,
    signature: String,
    witness: Value,
    /// not a stall but an H2 connection ended by sozu (GOAWAY, reset, close): under load such an
    /// ending can be the product of sozu's own timers and flood counters; it counts when the
    /// connection, re-run alone, is ended the same way
    killed: bool,
}

struct Globals {
    io_programs: Mutex<HashSet<u64>>,
    stalls: Mutex<Vec<StallCandidate>>,
}

impl CellEnv {
    pub fn io_now(&self) -> [u64; 4] {
        let c = self.probe.counters();
        let g = |k: &str| c.get(k).copied().unwrap_or(0);
        [
            g("io.session_tcp.write.wouldblock") + g("io.session_tcp.writev.wouldblock"),
            g("io.session_tcp.write.partial") + g("io.session_tcp.writev.partial"),
            g("io.rustls.write.wouldblock") + g("io.rustls.writev.wouldblock"),
            g("io.rustls.write.partial") + g("io.rustls.writev.partial"),
        ]
    }
    pub fn io_since(&self, before: &[u64; 4]) -> Option<[u64; 4]> {
        if !self.single_lane {
            return None;
        }
        let n = self.io_now();
        Some([n[0] - before[0], n[1] - before[1], n[2] - before[2], n[3] - before[3]])
    }
}

fn counters_delta(before: &BTreeMap<String, u64>, after: &BTreeMap<String, u64>) -> BTreeMap<String, u64> {
    let mut d = BTreeMap::new();
    for (k, v) in after {
        let b = before.get(k).copied().unwrap_or(0);
        if *v > b {
            d.insert(k.clone(), v - b);
        }
    }
    d
}

fn sum_counters(c: &BTreeMap<String, u64>, kinds: &[&str], ops: &[&str], suffix: &str) -> u64 {
    let mut s = 0;
    for k in kinds {
        for o in ops {
            s += c.get(&format!("io.{k}.{o}.{suffix}")).copied().unwrap_or(0);
        }
    }
    s
}

fn start_cell(plan: &CellPlan, rep: &mut Report) -> Option<(Worker, Vec<BackendServer>, CellEnv)> {
    let ip = lab::fresh_ip();
    let http = lab::sa(ip, 8080);
    let https = lab::sa(ip, 8443);
    let shared = CellShared::new(plan.case);
    let mut servers = Vec::new();
    for (i, (proto, prog)) in plan.cfg.backends.iter().enumerate() {
        let addr = lab::sa(ip, 9000 + i as u16);
        let sh = shared.clone();
        let proto = *proto;
        let lprog = prog.clone();
        let small_window = plan.cfg.shift_backend == Some(i);
        let res = BackendServer::start(addr, prog.clone(), move |sock, idx| {
            sh.backend_conns.fetch_add(1, Ordering::Relaxed);
            match proto {
                Back::H1 => h1run::backend_conn(&sh, sock, idx, &lprog),
                Back::H2c => h2run::backend_conn(&sh, sock, idx, &lprog, small_window),
            }
        });
        match res {
            Ok(s) => servers.push(s),
            Err(e) => {
                rep.inconclusive(&format!("harness: cannot start backend: {e}"));
                return None;
            }
        }
    }
    let tmo: Vec<u32> = std::env::var("VH_C01_TMO").ok().map(|v| v.split(',').filter_map(|x| x.parse().ok()).collect()).unwrap_or_default();
    let (t_front, t_back, t_req) = (tmo.first().copied().unwrap_or(300), tmo.get(1).copied().unwrap_or(300), tmo.get(2).copied().unwrap_or(300));
    let opts = WorkerOpts {
        buffer_size: plan.cfg.buffer_size,
        min_buffers: plan.cfg.min_buffers,
        max_buffers: plan.cfg.max_buffers,
        front_timeout: t_front,
        back_timeout: t_back,
        connect_timeout: 5,
        request_timeout: t_req,
        knobs: plan.cfg.knobs.clone(),
        ..WorkerOpts::default()
    };
    let mut w = Worker::start(opts);
    let tweak = |b: &mut sozu_command_lib::config::ListenerBuilder| {
        b.with_front_timeout(Some(t_front))
            .with_back_timeout(Some(t_back))
            .with_request_timeout(Some(t_req))
            .with_connect_timeout(Some(5));
    };
    let mut ok = w.add_http_listener(http, tweak) && w.add_https_listener(https, tweak);
    let cert = std::fs::read_to_string("/repo/lib/assets/certificate.pem").unwrap_or_default();
    let key = std::fs::read_to_string("/repo/lib/assets/key.pem").unwrap_or_default();
    let mut names = Vec::new();
    for (i, (proto, _)) in plan.cfg.backends.iter().enumerate() {
        let cid = format!("c{i}");
        let host = host_of(i);
        ok = ok
            && w.add_cluster(Cluster {
                cluster_id: cid.clone(),
                http2: if *proto == Back::H2c { Some(true) } else { None },
                ..Default::default()
            })
            && w.add_http_frontend(Worker::http_frontend(&cid, http, &host, "/"))
            && w.add_https_frontend(Worker::http_frontend(&cid, https, &host, "/"))
            && w.add_backend(&cid, &format!("{cid}-0"), lab::sa(ip, 9000 + i as u16));
        names.push(host);
    }
    ok = ok && w.add_certificate(https, &cert, vec![], &key, names);
    if !ok {
        rep.inconclusive("harness: worker configuration was not accepted");
        let _ = w.stop();
        return None;
    }
    let env = CellEnv { generous: false, conn_budget: Duration::from_secs(3600), probe: w.probe.clone(), single_lane: true, ip, http, https, shared, cfg: plan.cfg.clone() };
    Some((w, servers, env))
}

fn run_conn(env: &CellEnv, conn: &ConnPlan) -> Vec<XferOutcome> {
    for x in &conn.xfers {
        env.shared.specs.lock().unwrap().insert(x.key, Arc::new(x.clone()));
    }
    match conn.front {
        Front::H1Tcp | Front::H1Tls => h1run::client_conn(env, conn),
        Front::H2Tls => h2run::client_conn(env, conn),
    }
}

/// run the cell (or only connection `only_conn` of it); returns the outcomes and the hook counters
fn run_cell(plan: &CellPlan, only_conn: Option<usize>, only_key: Option<u64>, rerun: bool, cell_budget: Duration, rep: &mut Report) -> Option<(Vec<XferOutcome>, BTreeMap<String, u64>, Vec<crate::common::PanicRec>)> {
    let (w, mut servers, mut env) = start_cell(plan, rep)?;
    // a re-run in isolation of an H1 exchange runs that exchange alone on a fresh connection
    let narrowed: Vec<ConnPlan> = plan.conns.iter().filter(|c| only_conn.is_none_or(|o| o == c.idx)).map(|c| {
        let mut c = c.clone();
        if let (true, Some(k), true) = (rerun, only_key, c.front != Front::H2Tls) {
            c.xfers.retain(|x| x.key == k);
        }
        c
    }).collect();
    let conns: Vec<&ConnPlan> = narrowed.iter().collect();
    let lanes = if only_conn.is_some() { 1 } else { plan.cfg.lanes.max(1) };
    env.single_lane = lanes == 1;
    env.generous = only_conn.is_some() && rerun;
    if only_conn.is_none() {
        env.conn_budget = cell_budget.mul_f64(0.6);
    }
    let before = w.probe.counters();
    let mut outcomes: Vec<XferOutcome> = Vec::new();
    // a cell whose connections keep running into watchdogs stops opening new ones
    let cell_start = Instant::now();
    let over = || only_conn.is_none() && cell_start.elapsed() > cell_budget;
    if lanes == 1 {
        for c in &conns {
            if over() {
                rep.obs("connections_skipped_cell_time_budget", 1);
                continue;
            }
            outcomes.extend(run_conn(&env, c));
        }
    } else {
        let next = AtomicU64::new(0);
        let all: Mutex<Vec<XferOutcome>> = Mutex::new(Vec::new());
        std::thread::scope(|s| {
            for _ in 0..lanes {
                s.spawn(|| {
                    loop {
                        let i = next.fetch_add(1, Ordering::SeqCst) as usize;
                        if i >= conns.len() || over() {
                            break;
                        }
                        let o = run_conn(&env, conns[i]);
                        all.lock().unwrap().extend(o);
                    }
                });
            }
        });
        outcomes = all.into_inner().unwrap();
        outcomes.sort_by_key(|o| o.xfer.key);
    }
    let after = w.probe.counters();
    env.shared.stop.store(true, Ordering::SeqCst);
    let panics = w.stop();
    for s in &mut servers {
        s.stop();
    }
    rep.obs("backend_connections", env.shared.backend_conns.load(Ordering::Relaxed));
    rep.obs("backend_connection_reuses", env.shared.backend_reuse.load(Ordering::Relaxed));
    rep.obs_max("h2_concurrent_streams_backend", env.shared.h2_max_concurrent_back.load(Ordering::Relaxed));
    if plan.cfg.shift_backend.is_some() && only_conn.is_none() {
        rep.obs("window_shift/cells", 1);
        rep.obs("window_shift/backend_stream_windows_used_up", env.shared.shift_windows_used_up.load(Ordering::Relaxed));
        rep.obs("window_shift/sozu_partial_socket_writes", sum_counters(&counters_delta(&before, &after), &["session_tcp"], &["write", "writev"], "partial"));
    }
    Some((outcomes, counters_delta(&before, &after), panics))
}

// ---------------------------------------------------------------------------------------------
// judging

fn framing_label_up(x: &Xfer) -> String {
    x.req_framing.label()
}
fn framing_label_down(x: &Xfer) -> String {
    x.resp_framing.label()
}
/// framing class used in signatures: H2 shapes are reduced to how the stream ends (padding and
/// empty frames stay in the witness and in the evidence keys)
fn sig_up(x: &Xfer) -> String {
    match &x.req_framing {
        ReqFraming::H2(s) => coarse_h2(s),
        f => f.label(),
    }
}
fn sig_down(x: &Xfer) -> String {
    match &x.resp_framing {
        RespFraming::H2(s) => coarse_h2(s),
        f => f.label(),
    }
}
fn coarse_h2(s: &H2Shape) -> String {
    match s.end {
        H2End::OnLast => "h2".into(),
        H2End::EmptyData => "h2+end-on-empty".into(),
        H2End::Trailers => "h2+end-on-trailers".into(),
    }
}
fn coarse_theme(theme: &str) -> String {
    let mut parts: Vec<&str> = theme.split('+').filter(|p| *p != "pad" && *p != "empty" && *p != "plain").collect();
    if parts.is_empty() {
        parts.push("plain");
    }
    parts.join("+")
}

fn witness(ctx: &Ctx, plan: &CellPlan, o: &XferOutcome, extra: Value) -> Value {
    json!({
        "case": plan.case, "seed": ctx.seed, "conn": o.conn, "nth_on_conn": o.nth, "concurrent_streams": o.concurrent,
        "pair": pair_name(o.front, plan.cfg.backends[o.xfer.backend].0),
        "cell": plan.cfg.json(),
        "client_prog": o.client_prog.describe(),
        "backend_listener_prog": plan.cfg.backends[o.xfer.backend].1.describe(),
        "xfer": o.xfer.json(),
        "client": {
            "req_bytes_written": o.client.req_bytes_written, "req_sent_complete": o.client.req_sent_complete,
            "send_error": o.client.send_error, "status": o.client.status, "from_backend": o.client.from_backend,
            "resp": o.client.resp.json(), "stalled": o.client.stalled, "garbage_after": o.client.garbage_after,
            "note": o.client.note, "elapsed_ms": o.client.elapsed_ms,
        },
        "backend": o.back.as_ref().map(|b| json!({
            "conn_idx": b.conn_idx, "nth_on_conn": b.nth_on_conn, "seen": b.seen, "req": b.req.json(),
            "resp_started": b.resp_started, "resp_bytes_written": b.resp_bytes_written,
            "resp_sent_complete": b.resp_sent_complete, "resp_error": b.resp_error,
            "sozu_closed_backend_connection_after_response": b.peer_closed_after_resp,
        })),
        "detail": extra,
    })
}

/// all messages of the cell, for localising foreign bytes
fn candidates(plan: &CellPlan) -> Vec<(u64, u64)> {
    let mut v = Vec::new();
    for c in &plan.conns {
        for x in &c.xfers {
            v.push((x.req_msg, x.req_size));
            v.push((x.resp_msg, x.resp_size));
        }
    }
    v
}

struct Judge<'a> {
    ctx: &'a Ctx,
    plan: &'a CellPlan,
    globals: &'a Globals,
    rerun: bool,
    /// H2 connections whose death has already been reported
    killed_reported: std::cell::RefCell<HashSet<usize>>,
}

impl Judge<'_> {
    /// returns true when the transfer was judged (not exempt)
    fn judge(&self, o: &XferOutcome, rep: &mut Report) -> bool {
        let x = &o.xfer;
        let back_proto = self.plan.cfg.backends[x.backend].0;
        let pair = pair_name(o.front, back_proto);
        let dir = x.direction();
        let c = &o.client;
        if !c.attempted {
            rep.obs("exempt/not_attempted_after_earlier_failure_on_connection", 1);
            return false;
        }
        let mut judged = false;
        let mut violated = false;

        // --- class "cancel mid-download then reuse"
        if c.cancelled && c.resp.mismatch.is_none() {
            rep.obs("cancel_reuse/streams_cancelled_mid_download", 1);
            rep.obs("exempt/stream_cancelled_by_the_client_as_planned", 1);
            return false;
        }
        if x.after_cancel && !c.stalled {
            let up_ok = !x.req_framing.has_body() || o.back.as_ref().is_some_and(|b| b.req.ended && b.req.bytes == x.req_size && b.req.mismatch.is_none());
            let down_ok = c.from_backend && c.resp.ended && c.resp.bytes == x.resp_size && c.resp.mismatch.is_none();
            if up_ok && down_ok {
                rep.obs("cancel_reuse/exchanges_after_cancel_ok", 1);
                if o.back.as_ref().is_some_and(|b| b.nth_on_conn > 0) {
                    rep.obs("cancel_reuse/exchange_after_cancel_on_a_reused_backend_connection", 1);
                }
            } else if c.resp.mismatch.is_none() && !o.back.as_ref().is_some_and(|b| b.req.mismatch.is_some()) {
                // the backend is healthy and willing, the client sent a complete request on a
                // connection that works: this exchange has no reason to fail but what sozu did with
                // the cancelled one
                let sig = format!("bodies/not_delivered_after_cancel/{pair}");
                rep.violation(&sig, &format!("after the client cancelled a download (RST_STREAM CANCEL) with most of that response still unread on the backend connection, the next exchange to the same cluster on the same client connection did not complete: status {:?}, from backend {}, response body {}/{} bytes, error {:?}; request body at the backend {:?}/{}",
                    c.status, c.from_backend, c.resp.bytes, x.resp_size, c.resp.error, o.back.as_ref().map(|b| b.req.bytes), x.req_size),
                    witness(self.ctx, self.plan, o, json!({"streams_of_connection": self.plan.conns.iter().find(|cp| cp.idx == o.conn).map(|cp| cp.xfers.iter().map(|x| x.json()).collect::<Vec<_>>())})));
                return true;
            }
        }

        // --- an H2 connection that stalls: one candidate per connection
        if c.conn_level && c.stalled {
            let theme = self.plan.conns.iter().find(|cp| cp.idx == o.conn).map(|cp| cp.theme.clone()).unwrap_or_default();
            if !self.killed_reported.borrow_mut().insert(o.conn) {
                rep.obs("collateral/stream_of_a_stalled_h2_connection", 1);
                return true;
            }
            let sig = format!("bodies/stalled/{pair}/h2-connection/{}", coarse_theme(&theme));
            let siblings: Vec<Value> = self.plan.conns.iter().find(|cp| cp.idx == o.conn).map(|cp| cp.xfers.iter().map(|x| x.json()).collect()).unwrap_or_default();
            let (up, down) = (o.back.as_ref().map(|b| b.req.bytes).unwrap_or(0), c.resp.bytes);
            let wit = witness(self.ctx, self.plan, o, json!({"theme": theme, "streams_of_connection": siblings, "silence_before_giving_up_s": c.stall_silence_s,
                "first_unfinished_stream": {"request_body_bytes_at_backend": up, "of": x.req_size, "response_body_bytes_at_client": down, "of_resp": x.resp_size}}));
            if self.rerun {
                rep.violation(&sig, &format!("an H2 client connection stopped making progress while all peers were willing (also when re-run alone); first unfinished stream: request body {up}/{} bytes at the backend, response body {down}/{} bytes at the client; theme '{theme}'", x.req_size, x.resp_size), wit);
            } else {
                rep.obs("stall_candidates", 1);
                rep.obs(&format!("stall_candidate/{}/silence={}s", sig.trim_start_matches("bodies/stalled/"), c.stall_silence_s), 1);
                self.globals.stalls.lock().unwrap().push(StallCandidate { case: self.plan.case, conn: o.conn, key: x.key, signature: sig, witness: wit, killed: false });
            }
            return true;
        }
        // --- an H2 connection that died takes all its streams with it: one verdict per connection
        if c.conn_level {
            let theme = self.plan.conns.iter().find(|cp| cp.idx == o.conn).map(|cp| cp.theme.clone()).unwrap_or_default();
            let (kind, detail) = c.resp.error.clone().unwrap_or_default();
            let kind = if kind == "goaway" {
                let code = detail.split("code=").nth(1).and_then(|s| s.split(' ').next()).unwrap_or("?").to_owned();
                format!("goaway_code_{code}")
            } else {
                kind
            };
            if !(c.from_backend || c.req_sent_complete) {
                rep.obs("exempt/h2_connection_ended_before_exchange_was_under_way", 1);
                return false;
            }
            if self.killed_reported.borrow_mut().insert(o.conn) {
                let sig = format!("bodies/h2_connection_killed/{pair}/{}/{kind}", coarse_theme(&theme));
                let siblings: Vec<Value> = self.plan.conns.iter().find(|cp| cp.idx == o.conn).map(|cp| cp.xfers.iter().map(|x| x.json()).collect()).unwrap_or_default();
                let wit = witness(self.ctx, self.plan, o, json!({"theme": theme, "streams_of_connection": siblings}));
                if self.rerun {
                    rep.violation(&sig, &format!("sozu ended the whole H2 client connection ({detail}) while exchanges with cleanly sending peers were under way (also when the connection was re-run alone); every stream of the connection used the framing theme '{theme}'"), wit);
                } else {
                    rep.obs("h2_connection_kill_candidates", 1);
                    rep.obs(&format!("h2_connection_kill_candidate/{}", sig.trim_start_matches("bodies/h2_connection_killed/")), 1);
                    self.globals.stalls.lock().unwrap().push(StallCandidate { case: self.plan.case, conn: o.conn, key: x.key, signature: sig, witness: wit, killed: true });
                }
            } else {
                rep.obs("collateral/stream_of_a_killed_h2_connection", 1);
            }
            if let Some(b) = &o.back {
                if let Some(m) = &b.req.mismatch {
                    let _ = m;
                } else {
                    return true;
                }
            } else {
                return true;
            }
        }

        // --- byte equality: judged whenever bytes arrived, whoever sent what afterwards
        // "sent" only means the kernel took the bytes: the request is unfinished as long as the
        // backend has not seen all of it
        let upload_arrived = o.back.as_ref().is_some_and(|b| b.req.ended && b.req.bytes == x.req_size);
        let early_h1_unfinished = x.mode == Mode::Early && !(o.front == Front::H2Tls && back_proto == Back::H2c) && (!c.req_sent_complete || !upload_arrived);
        if let Some(m) = &c.resp.mismatch {
            if early_h1_unfinished && m.off >= x.resp_size {
                // H1 early response on a close-delimited body: what sozu makes of the rest of the
                // request (e.g. a 400 answer appended on the same connection) is not judged
                rep.obs("exempt/h1_early_response_bytes_after_complete_body", 1);
            } else if c.from_backend {
                let ident = wire::identify(&m.actual, &candidates(self.plan));
                let foreign = wire::identify_msg(&m.actual, &candidates(self.plan)).is_some_and(|(msg, ..)| msg != x.resp_msg);
                let sig = format!("bodies/{}/{pair}/download/{}", if foreign { "cross_delivered" } else { "corrupt" }, sig_down(x));
                rep.violation(&sig, &format!("response body differs from what the backend sent at offset {} of message {} ({} bytes): expected {} got {}{}",
                    m.off, x.resp_msg, x.resp_size, hex::encode(&m.expected), hex::encode(&m.actual),
                    ident.as_ref().map(|s| format!(" — {s}")).unwrap_or_default()),
                    witness(self.ctx, self.plan, o, json!({"first_bad_offset": m.off, "identified": ident})));
                violated = true;
            }
        }
        if let Some(b) = &o.back {
            if let Some(m) = &b.req.mismatch {
                let ident = wire::identify(&m.actual, &candidates(self.plan));
                let foreign = wire::identify_msg(&m.actual, &candidates(self.plan)).is_some_and(|(msg, ..)| msg != x.req_msg);
                let sig = format!("bodies/{}/{pair}/upload/{}", if foreign { "cross_delivered" } else { "corrupt" }, sig_up(x));
                rep.violation(&sig, &format!("request body differs from what the client sent at offset {} of message {} ({} bytes): expected {} got {}{}",
                    m.off, x.req_msg, x.req_size, hex::encode(&m.expected), hex::encode(&m.actual),
                    ident.as_ref().map(|s| format!(" — {s}")).unwrap_or_default()),
                    witness(self.ctx, self.plan, o, json!({"first_bad_offset": m.off, "identified": ident})));
                violated = true;
            }
            if b.seen > 1 {
                rep.obs("note/backend_saw_request_more_than_once", 1);
            }
        }
        if let (Some(_), true) = (&c.garbage_after, x.mode == Mode::Early && !(o.front == Front::H2Tls && back_proto == Back::H2c)) {
            // after an H1 early response, what sozu makes of the rest of the request is not judged
            rep.obs("exempt/h1_early_response_bytes_after_the_response", 1);
        } else if let Some(g) = &c.garbage_after {
            let sig = format!("bodies/garbage_after_message/{pair}");
            rep.violation(&sig, &format!("bytes followed the last complete response on the connection: {g}"),
                witness(self.ctx, self.plan, o, json!({"garbage": g})));
            violated = true;
        }

        // --- stall
        if c.stalled {
            let (up, down) = (o.back.as_ref().map(|b| b.req.bytes).unwrap_or(0), c.resp.bytes);
            // which direction is stuck: the one whose receiver has not seen the end
            let up_done = o.back.as_ref().is_some_and(|b| b.req.ended);
            let down_done = c.resp.ended;
            let (sdir, sframing) = match (up_done, down_done) {
                (false, false) if c.resp.head_seen => ("both", format!("{}+{}", sig_up(x), sig_down(x))),
                (false, _) => ("upload", sig_up(x)),
                _ => ("download", sig_down(x)),
            };
            let sig = format!("bodies/stalled/{pair}/{sdir}/{sframing}");
            let wit = witness(self.ctx, self.plan, o, json!({"request_body_bytes_at_backend": up, "of": x.req_size,
                "response_body_bytes_at_client": down, "of_resp": x.resp_size, "exchange_direction": dir, "silence_before_giving_up_s": c.stall_silence_s}));
            if self.rerun {
                rep.violation(&sig, &format!("transfer stopped making progress while both peers were willing (also when re-run alone): request body {up}/{} bytes at the backend, response body {down}/{} bytes at the client",
                    x.req_size, x.resp_size), wit);
            } else {
                rep.obs("stall_candidates", 1);
                rep.obs(&format!("stall_candidate/{}/silence={}s", sig.trim_start_matches("bodies/stalled/"), c.stall_silence_s), 1);
                self.globals.stalls.lock().unwrap().push(StallCandidate { case: self.plan.case, conn: o.conn, key: x.key, signature: sig, witness: wit, killed: false });
            }
            return true;
        }
        if c.watchdog_cap {
            if std::env::var_os("VH_C01_DEBUG").is_some() {
                eprintln!("CAP {}", witness(self.ctx, self.plan, o, json!({})));
            }
            rep.inconclusive("watchdog: overall time cap reached while bytes were still moving");
            return false;
        }

        // --- upload termination
        let full_duplex_pair = o.front == Front::H2Tls && back_proto == Back::H2c;
        let upload_in_scope = x.mode == Mode::Normal || full_duplex_pair;
        if upload_in_scope {
            match &o.back {
                None => {
                    if c.from_backend {
                        rep.broken(&format!("harness: client got backend response for key {} but backend recorded nothing", x.key));
                    }
                }
                Some(b) if b.req.mismatch.is_some() => {}
                Some(b) => {
                    if b.req.ended && b.req.bytes == x.req_size {
                        judged = true;
                        rep.obs(&format!("ok/{pair}/upload"), 1);
                        rep.obs("bytes_verified", b.req.bytes);
                        if let ReqFraming::Chunked { trailers: true, .. } = x.req_framing {
                            rep.obs(if b.req.trailers.unwrap_or(0) > 0 { "exempt_info/request_trailers_forwarded" } else { "exempt_info/request_trailers_dropped" }, 1);
                        }
                        rep.obs(&format!("recv_framing/upload/{}=>{}", framing_label_up(x), b.req.recv_framing), 1);
                    } else if b.req.ended {
                        // clean-looking end at the wrong length
                        judged = true;
                        violated = true;
                        let kind = if b.req.bytes < x.req_size { "short_body" } else { "extra_bytes" };
                        let sig = format!("bodies/{kind}/{pair}/upload/{}", sig_up(x));
                        rep.violation(&sig, &format!("backend saw the request end cleanly after {} body bytes, the client sent {}", b.req.bytes, x.req_size),
                            witness(self.ctx, self.plan, o, json!({"received": b.req.bytes, "sent": x.req_size})));
                    } else if let Some((kind, detail)) = &b.req.error {
                        if kind == "malformed" {
                            judged = true;
                            violated = true;
                            let sig = format!("bodies/malformed/{pair}/upload/{}", sig_up(x));
                            rep.violation(&sig, &format!("strict decoder at the backend rejected the forwarded request after {} body bytes: {detail}", b.req.bytes),
                                witness(self.ctx, self.plan, o, json!({"received": b.req.bytes})));
                        } else if !c.from_backend && c.status.is_some() && c.resp.ended {
                            // sozu refused the exchange with an answer of its own (400 on a chunk
                            // extension, 5xx): the request it gave up forwarding is not a body
                            // that was silently damaged
                            rep.obs(&format!("exempt/upload_of_an_exchange_sozu_answered_itself/{kind}"), 1);
                        } else if c.req_sent_complete {
                            judged = true;
                            violated = true;
                            // a request without body can only be missing its end-of-message signal
                            let kind = if !x.req_framing.has_body() { "unterminated" } else { kind.as_str() };
                            let sig = format!("bodies/{kind}/{pair}/upload/{}", sig_up(x));
                            rep.violation(&sig, &format!("client sent the complete request ({} body bytes, clean end) but the backend saw {kind} after {} body bytes: {detail}", x.req_size, b.req.bytes),
                                witness(self.ctx, self.plan, o, json!({"received": b.req.bytes, "sent": x.req_size})));
                        } else {
                            rep.obs(&format!("exempt/upload_cut_before_client_finished/{kind}"), 1);
                        }
                    } else if c.from_backend && c.resp.ended && x.mode == Mode::Normal {
                        rep.broken(&format!("harness: backend answered key {} without having finished the request", x.key));
                    } else {
                        rep.obs("exempt/upload_unfinished_without_receiver_verdict", 1);
                    }
                }
            }
        }

        // --- download termination
        if !c.from_backend {
            match c.status {
                Some(s) => rep.obs(&format!("exempt/sozu_answer/{pair}/{s}"), 1),
                None => {
                    if let Some(e) = &c.send_error {
                        rep.obs(&format!("exempt/no_response/{pair}/send_error"), 1);
                        let _ = e;
                    } else if let Some((k, _)) = &c.resp.error {
                        rep.obs(&format!("exempt/no_response/{pair}/{k}"), 1);
                    } else {
                        rep.obs(&format!("exempt/no_response/{pair}/other"), 1);
                    }
                }
            }
            if let Some(n) = &c.note {
                rep.obs(&format!("note/{n}"), 1);
            }
            return judged || violated;
        }
        let r = &c.resp;
        if r.mismatch.is_some() {
            return !(early_h1_unfinished && r.mismatch.as_ref().is_some_and(|m| m.off >= x.resp_size));
        }
        let sender_clean = o.back.as_ref().is_some_and(|b| b.resp_sent_complete);
        if r.ended && r.bytes == x.resp_size {
            judged = true;
            rep.obs(&format!("ok/{pair}/download"), 1);
            rep.obs("bytes_verified", r.bytes);
            if let RespFraming::Chunked { trailers: true, .. } = x.resp_framing {
                rep.obs(if r.trailers.unwrap_or(0) > 0 { "exempt_info/response_trailers_forwarded" } else { "exempt_info/response_trailers_dropped" }, 1);
            }
            rep.obs(&format!("recv_framing/download/{}=>{}", framing_label_down(x), r.recv_framing), 1);
        } else if r.ended {
            judged = true;
            violated = true;
            let kind = if r.bytes < x.resp_size { "short_body" } else { "extra_bytes" };
            let sig = format!("bodies/{kind}/{pair}/download/{}", sig_down(x));
            rep.violation(&sig, &format!("client saw the response end cleanly after {} body bytes, the backend sent {}", r.bytes, x.resp_size),
                witness(self.ctx, self.plan, o, json!({"received": r.bytes, "sent": x.resp_size})));
        } else if let Some((kind, detail)) = &r.error {
            if kind == "malformed" {
                judged = true;
                violated = true;
                let sig = format!("bodies/malformed/{pair}/download/{}", sig_down(x));
                rep.violation(&sig, &format!("strict decoder at the client rejected the forwarded response after {} body bytes: {detail}", r.bytes),
                    witness(self.ctx, self.plan, o, json!({"received": r.bytes})));
            } else if early_h1_unfinished {
                // H1 early response: the client was still sending; how sozu ends that connection
                // is not covered by the statement
                rep.obs(&format!("exempt/h1_early_response_cut/{kind}"), 1);
            } else if sender_clean {
                judged = true;
                violated = true;
                let sig = format!("bodies/{kind}/{pair}/download/{}", sig_down(x));
                rep.violation(&sig, &format!("backend sent the complete response ({} body bytes, clean end) but the client saw {kind} after {} body bytes: {detail}", x.resp_size, r.bytes),
                    witness(self.ctx, self.plan, o, json!({"received": r.bytes, "sent": x.resp_size})));
            } else {
                rep.obs(&format!("exempt/download_cut_but_sender_did_not_finish/{kind}"), 1);
            }
        } else {
            rep.obs("exempt/download_unfinished_without_receiver_verdict", 1);
        }
        if let Some(n) = &c.note {
            rep.obs(&format!("note/{n}"), 1);
        }
        let _ = violated;
        judged
    }
}

fn account(plan: &CellPlan, o: &XferOutcome, judged: bool, globals: &Globals, rep: &mut Report) {
    let x = &o.xfer;
    let back_proto = plan.cfg.backends[x.backend].0;
    let pair = pair_name(o.front, back_proto);
    let dir = x.direction();
    let bs = plan.cfg.buffer_size;
    let backend_listener = &plan.cfg.backends[x.backend].1;
    let progs = format!("{}|{}|{}|{:?}", o.client_prog.describe(), x.backend_prog.describe(), backend_listener.describe(), plan.cfg.knobs);
    globals.io_programs.lock().unwrap().insert(fnv1a(progs.as_bytes()));
    let shape = format!("{pair}|{dir}|{}|{}|{}|{}|{progs}", framing_label_up(x), framing_label_down(x), size_bucket(x.req_size, bs), size_bucket(x.resp_size, bs));
    rep.case_bytes(shape.as_bytes(), judged);
    if !judged {
        return;
    }
    rep.obs("transfers_judged", 1);
    match dir {
        "upload" => {
            rep.obs(&format!("xfer/{pair}/upload/{}", framing_label_up(x)), 1);
            rep.obs(&size_bucket(x.req_size, bs), 1);
        }
        "download" => {
            rep.obs(&format!("xfer/{pair}/download/{}", framing_label_down(x)), 1);
            rep.obs(&size_bucket(x.resp_size, bs), 1);
        }
        d => {
            rep.obs(&format!("xfer/{pair}/{d}/up:{}", framing_label_up(x)), 1);
            rep.obs(&format!("xfer/{pair}/{d}/down:{}", framing_label_down(x)), 1);
            rep.obs(&size_bucket(x.req_size, bs), 1);
            rep.obs(&size_bucket(x.resp_size, bs), 1);
        }
    }
    rep.obs(&format!("pairing/{pair}"), 1);
    rep.obs(&format!("direction/{dir}"), 1);
    rep.obs(&format!("framing/up/{}", framing_label_up(x)), 1);
    rep.obs(&format!("framing/down/{}", framing_label_down(x)), 1);
    if o.nth > 0 {
        rep.obs("keepalive_followup_requests", 1);
    }
    rep.obs_max("keepalive_requests_on_one_connection", o.nth as u64 + 1);
    rep.obs_max("h2_concurrent_streams_client", o.concurrent as u64);
    if let Some(b) = &o.back {
        if b.nth_on_conn > 0 {
            rep.obs("backend_connection_reused_for_transfer", 1);
        }
    }
    rep.obs_max("body_size", x.req_size.max(x.resp_size));
    for (shape, who) in [(match &x.req_framing { ReqFraming::H2(s) => Some(s), _ => None }, "request"), (match &x.resp_framing { RespFraming::H2(s) => Some(s), _ => None }, "response")] {
        if let Some(s) = shape {
            rep.obs(&format!("h2/{who}_bodies_sent_as_h2"), 1);
            if s.padding {
                rep.obs("h2/padded_data_frames_sent", 1);
            }
            if s.empty_frames {
                rep.obs("h2/empty_data_frames_sent", 1);
            }
            rep.obs(&format!("h2/end_stream/{:?}", s.end), 1);
        }
    }
    if o.front == Front::H2Tls && o.nth == 0 {
        rep.obs("h2/client_connections", 1);
        if o.concurrent >= 8 {
            rep.obs("h2/connections_with_8_or_more_concurrent_streams", 1);
        }
    }
    // which side of sozu saw back-pressure during this exchange. The hook counts plain frontend
    // and backend sockets under one kind (session_tcp), TLS frontends under rustls: on TLS
    // connections the split is exact; on plain connections it is exact for one-directional
    // exchanges (the other direction only carries a head) and "either side" otherwise.
    if let Some(d) = o.client.io_delta {
        let tls = o.front != Front::H1Tcp;
        let (mut f_wb, mut b_wb, mut f_pa, mut b_pa, mut any) = (0, 0, 0, 0, 0);
        if tls {
            f_wb = d[2];
            f_pa = d[3];
            b_wb = d[0];
            b_pa = d[1];
        } else {
            match dir {
                "download" => {
                    f_wb = d[0];
                    f_pa = d[1];
                }
                "upload" => {
                    b_wb = d[0];
                    b_pa = d[1];
                }
                _ => any = d[0] + d[1],
            }
        }
        if f_wb > 0 {
            rep.obs("executions_with_sozu_front_write_wouldblock", 1);
            rep.obs(&format!("executions_with_sozu_front_write_wouldblock/{pair}"), 1);
        }
        if b_wb > 0 {
            rep.obs("executions_with_sozu_back_write_wouldblock", 1);
            rep.obs(&format!("executions_with_sozu_back_write_wouldblock/{pair}"), 1);
        }
        if f_pa > 0 {
            rep.obs("executions_with_sozu_front_partial_write", 1);
        }
        if b_pa > 0 {
            rep.obs("executions_with_sozu_back_partial_write", 1);
        }
        if any > 0 {
            rep.obs("executions_with_sozu_write_wouldblock_or_partial_side_unattributed", 1);
        }
        if f_wb > 0 && b_wb > 0 {
            rep.obs("executions_with_sozu_write_wouldblock_on_both_sides", 1);
        }
    }
}

fn run_case(ctx: &Ctx, case: u64, globals: &Globals, only_conn: Option<usize>, only_key: Option<u64>, rerun: bool, rep: &mut Report) -> Vec<XferOutcome> {
    let plan = gen_cell(ctx, case);
    let t_cell = Instant::now();
    let Some((outcomes, delta, panics)) = run_cell(&plan, only_conn, only_key, rerun, Duration::from_secs(ctx.opt_u64("cell_budget", ctx.tier.pick(20, 240))), rep) else {
        return Vec::new();
    };
    rep.obs_max("cell_ms", t_cell.elapsed().as_millis() as u64);
    if std::env::var_os("VH_C01_DEBUG").is_some() && t_cell.elapsed() > Duration::from_secs(30) {
        let mut slow: Vec<(u64, String)> = outcomes.iter().filter(|o| o.client.elapsed_ms > 1500).map(|o| (o.client.elapsed_ms, format!("conn{} {:?} nth{} {} stalled={} cap={} err={:?} sizes={}/{}", o.conn, o.front, o.nth, o.xfer.direction(), o.client.stalled, o.client.watchdog_cap, o.client.resp.error.as_ref().map(|e| e.0.clone()), o.xfer.req_size, o.xfer.resp_size))).collect();
        slow.sort();
        eprintln!("SLOW CELL {case}: {} ms, lanes {}, slow exchanges: {:#?}", t_cell.elapsed().as_millis(), plan.cfg.lanes, slow);
    }
    // overflow-checks are on for every crate of this build: kawa 0.6.8 `Store::consume` computes
    // `amount - data.len() + index` (repr.rs:612), which is correct under the wrapping arithmetic
    // of a release build but trips the check when a partial write ends inside an allocated header
    // value. That kills the worker thread here and nowhere else: the cell says nothing about sozu.
    if panics.iter().any(|p| p.location.contains("kawa-") && p.location.contains("storage/repr.rs:612")) {
        rep.obs("cells_discarded/overflow_check_artifact_in_kawa_store_consume", 1);
        rep.obs("transfers_in_discarded_cells", outcomes.len() as u64);
        return Vec::new();
    }
    for p in panics {
        if p.in_sozu() {
            rep.violation(&p.signature(), &format!("sozu worker panicked while proxying bodies: {} at {}", p.message, p.location),
                json!({"case": case, "seed": ctx.seed, "panic": p.message, "location": p.location, "cell": plan.cfg.json()}));
        } else {
            // the worker thread runs sozu and its dependencies only
            let tail: String = p.location.rsplit("/registry/src/").next().unwrap_or(&p.location).splitn(2, '/').nth(1).unwrap_or(&p.location).to_owned();
            let tail = tail.rsplitn(2, ':').nth(1).unwrap_or(&tail).to_owned();
            rep.violation(&format!("worker_panic@{tail}"), &format!("sozu worker thread panicked in a dependency while proxying bodies: {} at {}", p.message, p.location),
                json!({"case": case, "seed": ctx.seed, "panic": p.message, "location": p.location, "cell": plan.cfg.json()}));
        }
    }
    if only_conn.is_none() {
        rep.obs("cancel_reuse/connections_planned", plan.conns.iter().filter(|c| c.theme == CANCEL_REUSE).count() as u64);
        rep.obs("window_shift/connections_planned", plan.conns.iter().filter(|c| c.theme == WINDOW_SHIFT).count() as u64);
    }
    let judge = Judge { ctx, plan: &plan, globals, rerun, killed_reported: Default::default() };
    for o in &outcomes {
        let judged = judge.judge(o, rep);
        account(&plan, o, judged, globals, rep);
    }
    // what sozu's sockets went through in this cell (plain frontend and backend sockets share the
    // hook kind session_tcp; the per-exchange accounting in `account` splits them where possible)
    let wops = ["write", "writev"];
    rep.obs("cells", 1);
    rep.obs(if plan.cfg.tight { "cells_tight_buffers" } else { "cells_default_buffers" }, 1);
    if plan.cfg.lanes > 1 {
        rep.obs("cells_with_concurrent_client_connections", 1);
    }
    rep.obs("sozu_io/plain_write_wouldblock", sum_counters(&delta, &["session_tcp"], &wops, "wouldblock"));
    rep.obs("sozu_io/plain_write_partial", sum_counters(&delta, &["session_tcp"], &wops, "partial"));
    rep.obs("sozu_io/tls_write_wouldblock", sum_counters(&delta, &["rustls"], &wops, "wouldblock"));
    rep.obs("sozu_io/tls_write_partial", sum_counters(&delta, &["rustls"], &wops, "partial"));
    rep.obs("sozu_io/read_wouldblock", sum_counters(&delta, &["session_tcp", "rustls"], &["read"], "wouldblock"));
    rep.obs("sozu_io/bytes_written", sum_counters(&delta, &["session_tcp", "rustls"], &wops, "bytes"));
    if case < 2 && !rerun {
        rep.sample(json!({"case": case, "cell": plan.cfg.json(), "sozu_io_delta": delta,
            "connections": plan.conns.iter().take(3).map(|c| json!({"front": format!("{:?}", c.front), "prog": c.prog.describe(),
                "xfers": c.xfers.iter().map(|x| x.json()).collect::<Vec<_>>()})).collect::<Vec<_>>()}));
    }
    outcomes
}

pub fn run(ctx: &Ctx) -> Report {
    let mut rep = Report::new(
        "exploration",
        "cells = one sozu worker (tight: buffer_size 16393, small pool, shrunk socket buffers via knobs / default) + scripted H1 (and h2c) backends; per cell ~12 client connections (H1/TCP, H1/TLS, H2/TLS) with 1..8 keep-alive exchanges or 1..32 concurrent streams; plus, in half of the cells, one H2 connection of the class 'cancel mid-download then reuse' (large response with a closed stream window, RST_STREAM CANCEL after the head, then two more exchanges to the same H1 keep-alive backend on the same connection); plus cells of the class 'window-shift' (8 quick / 100 thorough: an h2c backend and H2 clients with a stream window of 6-20 kB reopened only when used up, slow readers behind 2-4 KiB SO_SNDBUF of sozu, fast senders in small segments; uploads H2->h2c and H1->h2c, downloads h2c->H2 and H1->H2, one direction per connection); each exchange draws direction (upload/download/both/early response), framings (Content-Length, chunked with boundary chunk sizes, extensions, trailers, close-delimited HTTP/1.0 and Connection: close, H2 DATA padded/empty/END_STREAM variants), boundary-biased sizes and an I/O program per socket; a case is one exchange, non-trivial when it was judged by the receiver-side oracles (not exempted), distinct = (pair, direction, framings, size buckets, I/O programs)",
    );
    rep.assume("loopback TCP: the kernel never reorders or corrupts; only segmentation, pacing and buffer sizes are provoked");
    rep.assume("chunk extensions and H1 trailers need not be forwarded (docs are silent): only body bytes and clean termination are judged; what happened to trailers is counted");
    rep.assume("an answer generated by sozu itself (no X-Msg header) is exempt here (C02 judges it); H1 early responses are judged on the response body only");
    lab::raise_fd_limit();
    if !wire::self_check() {
        rep.broken("harness: fast keystream does not match common::rng::keystream_byte");
        return rep;
    }
    let globals = Globals { io_programs: Mutex::new(HashSet::new()), stalls: Mutex::new(Vec::new()) };

    if let Some(path) = &ctx.replay {
        let v: Value = serde_json::from_str(&std::fs::read_to_string(path).unwrap_or_default()).unwrap_or(Value::Null);
        let mut cases: Vec<(u64, Option<usize>)> = v["witnesses"].as_array().map(|a| {
            a.iter().filter_map(|w| w["case"].as_u64().map(|c| (c, w["conn"].as_u64().map(|x| x as usize)))).collect()
        }).unwrap_or_default();
        cases.dedup();
        for (c, _conn) in cases {
            run_case(ctx, c, &globals, None, None, false, &mut rep);
        }
        finish_stalls(ctx, &globals, &mut rep);
        return rep;
    }

    if let Some(c) = ctx.opt("only_case").and_then(|c| c.parse::<u64>().ok()) {
        let only_conn = ctx.opt("only_conn").and_then(|c| c.parse::<usize>().ok());
        let outs = run_case(ctx, c, &globals, only_conn, None, false, &mut rep);
        for o in &outs {
            eprintln!("conn {} nth {} {} : client={:?}\n    back={:?}", o.conn, o.nth, o.xfer.json(), o.client, o.back);
        }
        finish_stalls(ctx, &globals, &mut rep);
        return rep;
    }
    let n = ctx.opt_u64("cells", ctx.tier.pick(40, 1400));
    // cells take 10..40 s (deliberate pauses, watchdogs on the defects sozu has): stop starting them
    // early enough for the run to end near the budget
    let start_until = ctx.budget.mul_f64(ctx.tier.pick(0.4, 0.9));
    // the cells of the class 'window-shift' first (short: four connections), then the general cells
    let m = if h2_available() && ctx.opt("h2") != Some("off") { ctx.opt_u64("shift_cells", ctx.tier.pick(8, 100)) } else { 0 };
    par_cases(ctx, &mut rep, m + n, |i, r| {
        if ctx.started.elapsed() > start_until {
            r.obs("cells_not_started_soft_budget", 1);
            return;
        }
        let case = if i < m { SHIFT_CELL | i } else { i - m };
        run_case(ctx, case, &globals, None, None, false, r);
    });
    finish_stalls(ctx, &globals, &mut rep);

    rep.obs("distinct_io_programs", globals.io_programs.lock().unwrap().len() as u64);
    rep.set("h2_stage", json!(if h2_available() { "enabled" } else { "peers::h2 not available: H1 pairings only" }));
    let mut required: Vec<String> = vec![
        "transfers_judged".into(),
        "bytes_verified".into(),
        "cells_tight_buffers".into(),
        "cells_default_buffers".into(),
        "executions_with_sozu_front_write_wouldblock".into(),
        "executions_with_sozu_back_write_wouldblock".into(),
        "executions_with_sozu_front_partial_write".into(),
        "executions_with_sozu_back_partial_write".into(),
        "keepalive_followup_requests".into(),
        "backend_connection_reused_for_transfer".into(),
    ];
    for pair in ["h1-h1", "h1tls-h1"] {
        for f in ["cl", "chunked"] {
            required.push(format!("xfer/{pair}/upload/{f}"));
        }
        for f in ["cl", "chunked", "close10", "close11"] {
            required.push(format!("xfer/{pair}/download/{f}"));
        }
        required.push(format!("ok/{pair}/upload"));
        required.push(format!("ok/{pair}/download"));
    }
    for d in ["upload", "download", "both"] {
        required.push(format!("direction/{d}"));
    }
    for s in ["0", "1", "16375", "16383", "16384", "16385", "16393", "32768", "65535", "65536", "65537", "bs-2", "bs-1", "bs+1", "bs+2", "2^n+-1"] {
        required.push(format!("size/{s}"));
    }
    if h2_available() && ctx.opt("h2") != Some("off") {
        for k in h2run::required_keys() {
            required.push(k);
        }
        if ctx.opt("shift_cells") != Some("0") {
            required.push("window_shift/connections_planned".into());
            required.push("window_shift/backend_stream_windows_used_up".into());
            required.push("window_shift/sozu_partial_socket_writes".into());
        }
        if ctx.opt("cancel_reuse") != Some("off") {
            required.push("cancel_reuse/streams_cancelled_mid_download".into());
            required.push("cancel_reuse/exchanges_after_cancel_ok".into());
        }
    }
    if ctx.opt("norequire").is_none() {
        for k in &required {
            rep.require(k);
        }
    }
    rep
}

/// stalled transfers are re-run alone (fresh worker, one connection, nothing else running): the
/// first candidate of each signature; the others of a confirmed signature are the same failure
fn finish_stalls(ctx: &Ctx, globals: &Globals, rep: &mut Report) {
    let stalls: Vec<StallCandidate> = std::mem::take(&mut *globals.stalls.lock().unwrap());
    let mut by_sig: BTreeMap<String, Vec<&StallCandidate>> = BTreeMap::new();
    for s in &stalls {
        by_sig.entry(s.signature.clone()).or_default().push(s);
    }
    let max_reruns = ctx.opt_u64("stall_reruns", ctx.tier.pick(16, 48)) as usize;
    let t0 = Instant::now();
    // the re-runs are independent cells (own worker, own loopback address, one connection each);
    // a handful of them run side by side, far from loading the machine
    let results: Vec<(String, usize, Option<bool>, Report)> = std::thread::scope(|sc| {
        let mut handles = Vec::new();
        for (n, (sig, list)) in by_sig.iter().enumerate() {
            let sig = sig.clone();
            let list: Vec<&StallCandidate> = list.clone();
            let base = rep.fork();
            handles.push(sc.spawn(move || {
                if n >= max_reruns {
                    return (sig, list.len(), None, base);
                }
                let mut kept = base.fork();
                let mut confirmed = false;
                // the quick tier affords one re-run per signature, the thorough tier a second candidate
                for s in list.iter().take(ctx.tier.pick(1, 2)) {
                    let mut sub = base.fork();
                    let outcomes = run_case(ctx, s.case, globals, Some(s.conn), Some(s.key), true, &mut sub);
                    let again = if s.killed {
                        sub.violations.iter().any(|v| v.signature == s.signature)
                    } else {
                        outcomes.iter().any(|o| o.client.stalled && (o.xfer.key == s.key || o.client.conn_level))
                    };
                    // only verdicts of the re-run are kept, not its coverage counters
                    for v in sub.violations {
                        kept.violation(&v.signature, &v.what, v.witness);
                    }
                    if again {
                        confirmed = true;
                        break;
                    }
                    let _ = &s.witness;
                }
                (sig, list.len(), Some(confirmed), kept)
            }));
        }
        handles.into_iter().map(|h| h.join().expect("rerun thread")).collect()
    });
    for (sig, n, verdict, kept) in results {
        for v in kept.violations {
            rep.violation(&v.signature, &v.what, v.witness);
        }
        match verdict {
            None => {
                for _ in 0..n {
                    rep.inconclusive("watchdog: stalled transfer not re-run (re-run budget of this run exhausted)");
                }
            }
            Some(true) if sig.starts_with("bodies/h2_connection_killed/") => {
                rep.obs("h2_connection_kills_reproduced_in_isolation", 1);
            }
            Some(false) if sig.starts_with("bodies/h2_connection_killed/") => {
                rep.obs("h2_connection_kills_not_reproduced_in_isolation", 1);
                for _ in 0..n {
                    rep.inconclusive(&format!("sozu ended an H2 client connection under load but not when the connection was re-run alone ({sig})"));
                }
            }
            Some(true) => {
                rep.obs("stalls_reproduced_in_isolation", 1);
                rep.obs("stalls_under_load_with_a_signature_confirmed_in_isolation", n as u64);
            }
            Some(false) => {
                rep.obs("stalls_not_reproduced_in_isolation", 1);
                for _ in 0..n {
                    rep.inconclusive(&format!("watchdog: transfer stalled under load but completed when re-run alone ({sig})"));
                }
            }
        }
    }
    rep.obs("stall_rerun_phase_ms", t0.elapsed().as_millis() as u64);
}
