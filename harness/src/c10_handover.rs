//! C10 — worker hand-over and soft stop lose no listener and cut no request.
//!
//! Monitors: (A) fd hand-off codec (`scm::run_scm`); (B) in-process hand-over under traffic
//! (`inproc::run_inproc`, peers in `traffic`); (C) system lab with the real `sozu` binary
//! (`system::run_system`, thorough tier only). `run_scm` runs first and alone: its fd census is
//! process wide (the identity-based leak scan it also performs is not affected).
//!
//! Options: `--opt only=A|B|C` runs one monitor; `--opt case=N` runs one case of (B) alone;
//! `--opt cases=N`, `--opt listeners=N`, `--opt b_threads=N` size (B); `--opt c=1` forces (C) in the
//! quick tier, `--opt c_runs=N` sizes it.

mod inproc;
mod scm;
mod system;
mod traffic;

use crate::common::{Ctx, Report};

pub use scm::run_scm;

pub fn run(ctx: &Ctx) -> Report {
    let mut rep = Report::new(
        "fault_enumeration",
        "(A) fd hand-off codec: every listener count 0..=201 (+253, 254) x address-text class (shortest/longest bindable IPv4, shortest/longest bindable IPv6, mixed) x protocol mix (http, tls, tcp, udp, four-way, tcp+udp) is sent through ScmSocket::send_listeners / receive_listeners over a fresh socketpair with real listening sockets; a case is non-trivial when it carries at least one listener; distinct = distinct (class, mix, count). (B) hand-overs of an in-thread worker played by the harness as main process (ReturnListenSockets, receive, SoftStop, successor started with the descriptors, ActivateListener), plain soft stops, and the old worker dying before the answer / after the descriptors are out / during its soft stop, each under a connecting client fleet and with exchanges parked in 9 phases (H1 before the response head / mid download / mid upload / awaiting 100 Continue / before a 103 interim response, idle keep-alive, H2 with open streams; WebSocket tunnels and TCP relays are observed, not judged); a case is non-trivial when the scenario ran to its end; distinct = distinct (scenario, listener mix bucket, in-flight phases, step order, release steps). (C, thorough) the same hand-over through the real binary's UpgradeWorker with SIGKILL crash points.",
    );
    let only = ctx.opt("only").map(|s| s.to_ascii_uppercase());
    // a replay re-runs the monitors whose witnesses the file holds, nothing else
    let replayed: Option<Vec<String>> = ctx.replay.as_ref().map(|path| {
        let v: serde_json::Value = serde_json::from_str(&std::fs::read_to_string(path).unwrap_or_default()).unwrap_or(serde_json::Value::Null);
        v["witnesses"].as_array().map(|a| a.iter().filter_map(|w| w["monitor"].as_str().and_then(|m| m.split('/').next()).map(|m| m.to_owned())).collect()).unwrap_or_default()
    });
    let want = |m: &str| only.as_deref().is_none_or(|o| o == m) && replayed.as_ref().is_none_or(|r| r.iter().any(|x| x == m));
    let b_case = ctx.opt("case").is_some();
    if want("A") && !b_case {
        run_scm(ctx, &mut rep);
    }
    if want("B") {
        inproc::run_inproc(ctx, &mut rep);
    }
    let c_wanted = ctx.tier.pick(false, true) || ctx.opt("c") == Some("1") || only.as_deref() == Some("C") || replayed.is_some();
    if want("C") && c_wanted && !b_case {
        system::run_system(ctx, &mut rep);
    }
    // only (A)'s sub-space is enumerated completely (recorded in `scm_sweep.exhaustive`); (B) and (C)
    // sample schedules, so the run as a whole claims no exhaustiveness
    if only.as_deref() != Some("A") || b_case || replayed.is_some() {
        rep.exhaustive = None;
    }
    rep
}
