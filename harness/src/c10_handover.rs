//! C10 — worker hand-over and soft stop lose no listener and cut no request.
//!
//! Monitors: (A) fd hand-off codec (`scm::run_scm`, implemented); (B) in-process hand-over under
//! traffic and (C) system lab are added to this file later and must be called from `run` after
//! `run_scm` (which must run while no other harness thread opens or closes file descriptors: its
//! fd census is process wide; the identity-based leak scan it also performs is not affected).

mod scm;

use crate::common::{Ctx, Report};

pub use scm::run_scm;

pub fn run(ctx: &Ctx) -> Report {
    let mut rep = Report::new(
        "fault_enumeration",
        "(A) fd hand-off codec: every listener count 0..=201 (+253, 254) x address-text class (shortest/longest bindable IPv4, shortest/longest bindable IPv6, mixed) x protocol mix (http, tls, tcp, udp, four-way, tcp+udp) is sent through ScmSocket::send_listeners / receive_listeners over a fresh socketpair with real listening sockets; a case is non-trivial when it carries at least one listener; distinct = distinct (class, mix, count)",
    );
    run_scm(ctx, &mut rep);
    rep
}
